//! Shared fixture helpers: deterministic delta-prone contents, git-built repositories, `verify-pack -v` and
//! `cat-file --batch` parsing (the oracle side; nothing of gitoxide is used here).
use gix_hash::ObjectId;
use gix_object::Kind;
use std::collections::HashMap;
use std::path::{Path, PathBuf};
use vkit::git::{git, git_in, git_text};

/// three lines of 40 hex characters, unique per `i`
pub fn block(i: u64) -> String {
    let raw = vkit::enumerate::lcg_bytes(60, 0x5eed_0000 + i);
    let mut s = String::new();
    for l in raw.chunks(20) {
        for b in l {
            s.push_str(&format!("{b:02x}"));
        }
        s.push('\n');
    }
    s
}

/// A file whose version `v` shares `n-1` of `n` blocks with version `v+1`, `n-2` with `v+2` ... (long delta chains).
pub fn sliding(v: u64, n: u64) -> String {
    (v..v + n).map(block).collect()
}

/// ~67 KB text (> 0x10000, the copy-size edge of delta instructions); versions differ in one line near the start, one in the middle and a growing tail
pub fn big(v: u64) -> String {
    let mut s = String::with_capacity(80_000);
    for i in 0..1020u64 {
        if i == 3 || i == 600 {
            s.push_str(&format!("line {i} edited in version {v} ........................................\n"));
        } else {
            let raw = vkit::enumerate::lcg_bytes(32, 0xb16_0000 + i);
            for b in raw {
                s.push_str(&format!("{b:02x}"));
            }
            s.push('\n');
        }
    }
    for t in 0..v {
        s.push_str(&format!("tail {t}\n"));
    }
    s
}

pub fn write(dir: &Path, name: &str, content: &[u8]) {
    let p = dir.join(name);
    if let Some(parent) = p.parent() {
        std::fs::create_dir_all(parent).unwrap_or_else(|e| vkit::machinery!("mkdir {}: {e}", parent.display()));
    }
    std::fs::write(&p, content).unwrap_or_else(|e| vkit::machinery!("write {}: {e}", p.display()));
}

pub fn commit_all(dir: &Path, msg: &str) {
    git(dir, &["add", "-A"]);
    git(dir, &["commit", "-q", "--allow-empty", "-m", msg]);
}

#[derive(Clone, Debug)]
pub struct EntryInfo {
    pub oid: ObjectId,
    pub kind: Kind,
    pub size: u64,
    pub packed: u64,
    pub offset: u64,
    pub depth: u32,
    pub base: Option<ObjectId>,
    /// raw pack entry type: 1..4 plain, 6 ofs-delta, 7 ref-delta (read from the pack byte by the harness)
    pub raw_type: u8,
}

#[derive(Debug)]
pub struct PackInfo {
    pub pack: PathBuf,
    pub idx: PathBuf,
    pub entries: Vec<EntryInfo>,
}

pub fn kind_of(s: &str) -> Kind {
    match s {
        "commit" => Kind::Commit,
        "tree" => Kind::Tree,
        "blob" => Kind::Blob,
        "tag" => Kind::Tag,
        other => vkit::machinery!("unknown object type from git: {other}"),
    }
}

pub fn oid(hex: &str) -> ObjectId {
    ObjectId::from_hex(hex.as_bytes()).unwrap_or_else(|e| vkit::machinery!("bad hex id from git {hex:?}: {e}"))
}

/// `git verify-pack -v` of one index
pub fn verify_pack(dir: &Path, idx: &Path) -> PackInfo {
    let text = git_text(dir, &["verify-pack".as_ref(), "-v".as_ref(), idx.as_os_str()]);
    let pack = idx.with_extension("pack");
    let data = std::fs::read(&pack).unwrap_or_else(|e| vkit::machinery!("read {}: {e}", pack.display()));
    let mut entries = Vec::new();
    for l in text.lines() {
        let f: Vec<&str> = l.split_whitespace().collect();
        if f.len() < 5 || f[0].len() != 40 || !matches!(f[1], "commit" | "tree" | "blob" | "tag") {
            continue;
        }
        let offset: u64 = f[4].parse().unwrap_or_else(|_| vkit::machinery!("verify-pack line {l:?}"));
        let (depth, base) = if f.len() >= 7 { (f[5].parse().unwrap_or(0), Some(oid(f[6]))) } else { (0, None) };
        let raw_type = (data[offset as usize] >> 4) & 7;
        entries.push(EntryInfo {
            oid: oid(f[0]),
            kind: kind_of(f[1]),
            size: f[2].parse().unwrap_or(0),
            packed: f[3].parse().unwrap_or(0),
            offset,
            depth,
            base,
            raw_type,
        });
    }
    if entries.is_empty() {
        vkit::machinery!("verify-pack produced no entries for {}", idx.display());
    }
    PackInfo { pack, idx: idx.to_owned(), entries }
}

/// all `*.idx` under `<git_dir>/objects/pack`, sorted by name
pub fn indices(objects: &Path) -> Vec<PathBuf> {
    let mut v: Vec<PathBuf> = std::fs::read_dir(objects.join("pack"))
        .unwrap_or_else(|e| vkit::machinery!("read_dir pack: {e}"))
        .flatten()
        .map(|e| e.path())
        .filter(|p| p.extension().map(|e| e == "idx").unwrap_or(false))
        .collect();
    v.sort();
    v
}

/// parse the output of `git cat-file --batch` for a list of ids (oracle: type + bytes of every object)
pub fn cat_file_batch(dir: &Path, ids: &[ObjectId]) -> HashMap<ObjectId, (Kind, Vec<u8>)> {
    let mut input = String::new();
    for i in ids {
        input.push_str(&i.to_hex().to_string());
        input.push('\n');
    }
    let out = git_in(dir, &["cat-file", "--batch"], input.as_bytes());
    let mut map = HashMap::new();
    let mut p = 0usize;
    while p < out.len() {
        let nl = out[p..].iter().position(|&b| b == b'\n').unwrap_or_else(|| vkit::machinery!("cat-file: no header line")) + p;
        let hdr = String::from_utf8_lossy(&out[p..nl]).to_string();
        let f: Vec<&str> = hdr.split(' ').collect();
        if f.len() != 3 {
            vkit::machinery!("cat-file --batch header {hdr:?}");
        }
        let size: usize = f[2].parse().unwrap_or_else(|_| vkit::machinery!("cat-file size {hdr:?}"));
        let body = out[nl + 1..nl + 1 + size].to_vec();
        map.insert(oid(f[0]), (kind_of(f[1]), body));
        p = nl + 1 + size + 1;
    }
    if map.len() != ids.iter().collect::<std::collections::HashSet<_>>().len() {
        vkit::machinery!("cat-file --batch returned {} objects for {} ids", map.len(), ids.len());
    }
    map
}

pub fn list_dir(p: &Path) -> Vec<String> {
    let mut v: Vec<String> = match std::fs::read_dir(p) {
        Ok(rd) => rd.flatten().map(|e| e.file_name().to_string_lossy().into_owned()).collect(),
        Err(_) => Vec::new(),
    };
    v.sort();
    v
}

/// Number of copy instructions with an encoded size of 0 (= 0x10000 bytes) in the delta stored at `offset` of `pack`
/// (harness-side scan: own header parser, zlib via gix_features, own instruction walker). 0 for non-delta entries.
pub fn size0_copies(pack: &[u8], offset: u64) -> usize {
    let mut i = offset as usize;
    let mut b = pack[i];
    i += 1;
    let ty = (b >> 4) & 7;
    let mut size = (b & 15) as u64;
    let mut shift = 4;
    while b & 0x80 != 0 {
        b = pack[i];
        i += 1;
        size |= ((b & 127) as u64) << shift;
        shift += 7;
    }
    match ty {
        6 => {
            while pack[i] & 0x80 != 0 {
                i += 1;
            }
            i += 1;
        }
        7 => i += 20,
        _ => return 0,
    }
    let mut d = vec![0u8; size as usize];
    let mut inflate = gix_features::zlib::Inflate::default();
    if let Err(e) = inflate.once(&pack[i..], &mut d) {
        vkit::machinery!("cannot inflate delta at {offset}: {e}");
    }
    let mut j = 0usize;
    for _ in 0..2 {
        while d[j] & 0x80 != 0 {
            j += 1;
        }
        j += 1;
    }
    let mut n = 0;
    while j < d.len() {
        let cmd = d[j];
        j += 1;
        if cmd & 0x80 != 0 {
            if cmd & 0x70 == 0 {
                n += 1;
            }
            j += (cmd & 0x7f).count_ones() as usize;
        } else {
            j += cmd as usize;
        }
    }
    n
}

/// Parse a git multi-pack-index (harness-side, format v1): object id -> (pack-int-id in PNAM order, offset).
pub fn parse_midx(path: &Path) -> (Vec<String>, HashMap<ObjectId, (u32, u64)>) {
    let d = std::fs::read(path).unwrap_or_else(|e| vkit::machinery!("read midx: {e}"));
    if d.len() < 12 || &d[..4] != b"MIDX" || d[4] != 1 || d[5] != 1 {
        vkit::machinery!("unexpected multi-pack-index header");
    }
    let n_chunks = d[6] as usize;
    let be32 = |o: usize| u32::from_be_bytes([d[o], d[o + 1], d[o + 2], d[o + 3]]);
    let be64 = |o: usize| ((be32(o) as u64) << 32) | be32(o + 4) as u64;
    let mut chunks: HashMap<[u8; 4], (usize, usize)> = HashMap::new();
    for i in 0..n_chunks {
        let o = 12 + i * 12;
        let id = [d[o], d[o + 1], d[o + 2], d[o + 3]];
        chunks.insert(id, (be64(o + 4) as usize, be64(o + 16) as usize));
    }
    let get = |id: &[u8; 4]| *chunks.get(id).unwrap_or_else(|| vkit::machinery!("midx lacks chunk {:?}", String::from_utf8_lossy(id)));
    let (ps, pe) = get(b"PNAM");
    let names: Vec<String> = d[ps..pe].split(|b| *b == 0).filter(|n| !n.is_empty()).map(|n| String::from_utf8_lossy(n).into_owned()).collect();
    let (fs, _) = get(b"OIDF");
    let n = be32(fs + 255 * 4) as usize;
    let (ls, _) = get(b"OIDL");
    let (os, _) = get(b"OOFF");
    let mut map = HashMap::new();
    for i in 0..n {
        let id = ObjectId::from_bytes_or_panic(&d[ls + i * 20..ls + i * 20 + 20]);
        let ofs = be32(os + i * 8 + 4);
        if ofs & 0x8000_0000 != 0 {
            vkit::machinery!("midx uses large offsets, unexpected for small fixtures");
        }
        map.insert(id, (be32(os + i * 8), ofs as u64));
    }
    (names, map)
}
