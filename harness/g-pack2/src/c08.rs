//! C08 — objects read from packs are exact, whatever caches are used (E2: all request sequences with repetition
//! over chosen objects x every cache type/size x access path; oracle `git cat-file --batch`).
use crate::fx::{self, EntryInfo, PackInfo};
use gix_hash::ObjectId;
use gix_object::Kind;
use gix_pack::cache::DecodeEntry;
use serde::{Deserialize, Serialize};
use std::collections::{BTreeMap, HashMap};
use std::path::{Path, PathBuf};
use std::sync::atomic::{AtomicU64, Ordering::Relaxed};
use std::sync::{Arc, Mutex};
use vkit::git::git;
use vkit::{bad, ok, ok_trivial, Run, Verdict};

// ---------------------------------------------------------------------------------------------- fixtures

pub struct Role {
    name: String,
    oid: ObjectId,
    size: usize,
    delta: bool,
    pack: usize,
    depth: u32,
}

pub struct Fixture {
    name: &'static str,
    objects: PathBuf,
    packs: Vec<PackInfo>,
    bundles: Vec<gix_pack::Bundle>,
    oracle: HashMap<ObjectId, (Kind, Vec<u8>)>,
    alphabet: Vec<Role>,
    has_midx: bool,
    /// one shared object store per `use_multi_pack_index` setting [false, true]; every history gets a fresh handle + fresh caches
    stores: [Arc<gix_odb::Store>; 2],
    all_ref: bool,
    max_depth: u32,
    n_ofs: usize,
    n_ref: usize,
    /// ids of deltas that contain a copy instruction with encoded size 0 (= 0x10000 bytes)
    size0_copy_deltas: Vec<ObjectId>,
    /// overlap fixtures: requested ref-deltas whose base the multi-pack-index maps to ANOTHER pack; .1 = the foreign offset is an entry boundary in the delta's own pack
    foreign_base_deltas: Vec<(ObjectId, bool)>,
}

/// sliding-window file whose size grows strictly with the version (pack order == version order, distinct sizes)
fn grown(v: u64) -> String {
    format!("{}{}\n", fx::sliding(v, 24), "x".repeat(7 * v as usize))
}

fn chain_repo(tag: &str, versions: u64) -> PathBuf {
    let dir = vkit::scratch::Dir::new(tag).keep();
    vkit::git::init(&dir);
    for v in 0..versions {
        fx::write(&dir, "f.txt", grown(v).as_bytes());
        if v % 5 == 0 {
            fx::write(&dir, "big.txt", fx::big(v).as_bytes());
        }
        fx::write(&dir, &format!("sub/other{v}.txt"), format!("unrelated {v}\n").repeat(v as usize + 1).as_bytes());
        fx::commit_all(&dir, &format!("v{v}"));
    }
    dir
}

fn finish_fixture(name: &'static str, dir: &Path, has_midx: bool) -> Fixture {
    let objects = dir.join(".git/objects");
    let leftovers: Vec<String> = fx::list_dir(&objects).into_iter().filter(|n| n.len() == 2).collect();
    if !leftovers.is_empty() {
        vkit::machinery!("fixture {name}: loose objects left after repack: {leftovers:?}");
    }
    let packs: Vec<PackInfo> = fx::indices(&objects).iter().map(|i| fx::verify_pack(dir, i)).collect();
    let ids: Vec<ObjectId> = packs.iter().flat_map(|p| p.entries.iter().map(|e| e.oid)).collect();
    let oracle = fx::cat_file_batch(dir, &ids);
    let mut bundles = Vec::new();
    for (n, p) in packs.iter().enumerate() {
        let mut b = gix_pack::Bundle::at(&p.idx, gix_hash::Kind::Sha1)
            .unwrap_or_else(|e| vkit::machinery!("fixture {name}: cannot open bundle {}: {e}", p.idx.display()));
        b.pack.id = n as u32; // unique per pack, as the documentation of `data::File::id` demands
        bundles.push(b);
    }
    let all: Vec<&EntryInfo> = packs.iter().flat_map(|p| p.entries.iter()).collect();
    let n_ofs = all.iter().filter(|e| e.raw_type == 6).count();
    let n_ref = all.iter().filter(|e| e.raw_type == 7).count();
    let max_depth = all.iter().map(|e| e.depth).max().unwrap_or(0);
    let alphabet = select_roles(&packs);
    let stores = [false, true].map(|midx| {
        use gix_odb::store::init::{Options, Slots};
        Arc::new(
            gix_odb::Store::at_opts(
                objects.clone(),
                &mut std::iter::empty(),
                Options { slots: Slots::Given(16), object_hash: gix_hash::Kind::Sha1, use_multi_pack_index: midx, current_dir: Some(objects.clone()) },
            )
            .unwrap_or_else(|e| vkit::machinery!("cannot open object store {}: {e}", objects.display())),
        )
    });
    let mut size0_copy_deltas = Vec::new();
    for p in &packs {
        let data = std::fs::read(&p.pack).unwrap_or_else(|e| vkit::machinery!("read pack: {e}"));
        for e in p.entries.iter().filter(|e| e.raw_type >= 6) {
            if fx::size0_copies(&data, e.offset) > 0 {
                size0_copy_deltas.push(e.oid);
            }
        }
    }
    Fixture { name, objects, stores, packs, bundles, oracle, alphabet, has_midx, all_ref: n_ofs == 0 && n_ref > 0, max_depth, n_ofs, n_ref, size0_copy_deltas, foreign_base_deltas: Vec::new() }
}

/// Pick the request alphabet from what git actually packed (most interesting first).
fn select_roles(packs: &[PackInfo]) -> Vec<Role> {
    let mut by_id: HashMap<ObjectId, (usize, &EntryInfo)> = HashMap::new();
    for (pi, p) in packs.iter().enumerate() {
        for e in &p.entries {
            by_id.entry(e.oid).or_insert((pi, e));
        }
    }
    let mut all: Vec<(usize, &EntryInfo)> = packs.iter().enumerate().flat_map(|(pi, p)| p.entries.iter().map(move |e| (pi, e))).collect();
    all.sort_by_key(|(pi, e)| (*pi, e.offset));
    let mut roles: Vec<Role> = Vec::new();
    let mut push = |roles: &mut Vec<Role>, name: &str, pi: usize, e: &EntryInfo| {
        if roles.iter().any(|r| r.oid == e.oid) {
            return;
        }
        roles.push(Role { name: name.into(), oid: e.oid, size: e.size as usize, delta: e.raw_type >= 6, pack: pi, depth: e.depth });
    };
    // true object size for deltas is not in verify-pack (it prints the delta size): filled in later from the oracle
    let tip = *all.iter().max_by_key(|(pi, e)| (e.depth, std::cmp::Reverse((*pi, e.offset)))).expect("entries");
    let mut chain: Vec<(usize, &EntryInfo)> = vec![tip];
    while let Some(b) = chain.last().unwrap().1.base {
        match by_id.get(&b) {
            Some(x) => chain.push(*x),
            None => break,
        }
    }
    // chain[0] = tip (depth d) ... chain[d] = base (depth 0)
    let d = tip.1.depth as usize;
    push(&mut roles, "tip", tip.0, tip.1);
    if d >= 2 {
        let mid = chain[d - (d + 1) / 2];
        push(&mut roles, "mid", mid.0, mid.1);
    }
    if let Some(base) = chain.last() {
        push(&mut roles, "base", base.0, base.1);
    }
    // sibling: a delta that is not an ancestor of tip but whose chain passes through an ancestor of tip
    let on_chain = |id: &ObjectId| chain.iter().any(|(_, e)| &e.oid == id);
    let mut sib: Option<(usize, &EntryInfo)> = None;
    for (pi, e) in &all {
        if e.raw_type < 6 || on_chain(&e.oid) {
            continue;
        }
        let mut cur = e.base;
        let mut shares = false;
        while let Some(b) = cur {
            if on_chain(&b) && by_id.get(&b).map(|x| x.1.raw_type >= 6).unwrap_or(false) {
                shares = true;
                break;
            }
            cur = by_id.get(&b).and_then(|x| x.1.base);
        }
        if shares && sib.map(|s| e.depth > s.1.depth).unwrap_or(true) {
            sib = Some((*pi, e));
        }
    }
    if let Some(s) = sib {
        push(&mut roles, "sibling", s.0, s.1);
    }
    // a delta in every other pack (cross-pack cache keys), deepest first
    for pi in 0..packs.len() {
        if pi == tip.0 {
            continue;
        }
        if let Some((_, e)) = all.iter().filter(|(p, e)| *p == pi && e.raw_type >= 6).max_by_key(|(_, e)| (e.depth, std::cmp::Reverse(e.offset))) {
            push(&mut roles, &format!("pack{pi}-delta"), pi, e);
        }
    }
    // largest deltified object (by packed delta of a big blob: pick the delta entry whose base is the largest object)
    if let Some((pi, e)) = all
        .iter()
        .filter(|(_, e)| e.raw_type >= 6)
        .max_by_key(|(_, e)| e.base.and_then(|b| by_id.get(&b).map(|x| x.1.size)).unwrap_or(0))
    {
        push(&mut roles, "big-delta", *pi, e);
    }
    if let Some((pi, e)) = all.iter().find(|(_, e)| e.raw_type >= 6 && e.kind == Kind::Tree) {
        push(&mut roles, "tree-delta", *pi, e);
    }
    if d >= 3 {
        let parent = chain[1];
        push(&mut roles, "parent", parent.0, parent.1);
    }
    if let Some((pi, e)) = all.iter().find(|(_, e)| e.kind == Kind::Commit && e.raw_type < 6) {
        push(&mut roles, "commit", *pi, e);
    }
    // small fixtures: fill up with the remaining deltas and a plain tree
    if roles.len() < 6 {
        for (pi, e) in all.iter().filter(|(_, e)| e.raw_type >= 6) {
            push(&mut roles, "other-delta", *pi, e);
        }
        if let Some((pi, e)) = all.iter().find(|(_, e)| e.kind == Kind::Tree && e.raw_type < 6) {
            push(&mut roles, "tree", *pi, e);
        }
    }
    roles
}

fn build_fixtures(run: &Run) -> Vec<Fixture> {
    let mut out = Vec::new();
    // A: offset deltas, depth <= 5
    let a = chain_repo("c08-ofs-d5", 20);
    git(&a, &["repack", "-adfq", "--window=10", "--depth=5"]);
    out.push(finish_fixture("ofs-d5-w10", &a, false));
    // B: same history with reference deltas
    let b = chain_repo("c08-ref-d5", 20);
    git(&b, &["-c", "repack.useDeltaBaseOffset=false", "repack", "-adfq", "--window=10", "--depth=5"]);
    out.push(finish_fixture("ref-d5-w10", &b, false));
    // C: depth 1, window 2
    let c = chain_repo("c08-ofs-d1", 8);
    git(&c, &["repack", "-adfq", "--window=2", "--depth=1"]);
    out.push(finish_fixture("ofs-d1-w2", &c, false));
    // D: reference deltas, depth 3
    let d = chain_repo("c08-ref-d3", 12);
    git(&d, &["-c", "repack.useDeltaBaseOffset=false", "repack", "-adfq", "--window=10", "--depth=3"]);
    out.push(finish_fixture("ref-d3-w10", &d, false));
    // E: three packs (incremental repacks: ofs, window 0 = no deltas, ref) + multi-pack-index
    {
        let dir = vkit::scratch::Dir::new("c08-multi").keep();
        vkit::git::init(&dir);
        for batch in 0..3u64 {
            for v in batch * 7..batch * 7 + 7 {
                fx::write(&dir, "f.txt", grown(v).as_bytes());
                fx::write(&dir, &format!("g{batch}.txt"), fx::sliding(100 * (batch + 1) + v, 12).as_bytes());
                fx::write(&dir, &format!("sub/other{v}.txt"), format!("unrelated {v}\n").repeat(v as usize + 1).as_bytes());
                fx::commit_all(&dir, &format!("v{v}"));
            }
            match batch {
                0 => git(&dir, &["repack", "-dq", "--window=10", "--depth=4"]),
                1 => git(&dir, &["repack", "-dq", "--window=0"]),
                _ => git(&dir, &["-c", "repack.useDeltaBaseOffset=false", "repack", "-dq", "--window=10", "--depth=2"]),
            };
        }
        git(&dir, &["multi-pack-index", "write"]);
        if !dir.join(".git/objects/pack/multi-pack-index").is_file() {
            vkit::machinery!("multi-pack-index was not written");
        }
        out.push(finish_fixture("multi-midx", &dir, true));
    }
    // G: ~200 KiB incompressible blobs differing by small insertions: git emits copy instructions of the maximum
    //    size 0x10000, which are encoded as size 0
    {
        let dir = vkit::scratch::Dir::new("c08-huge").keep();
        vkit::git::init(&dir);
        let v0 = vkit::enumerate::lcg_bytes(200 * 1024, 0x4075e);
        let mut v1 = v0.clone();
        v1.splice(100_000..100_000, b"<<inserted near the middle>>".iter().copied());
        let mut v2 = v1.clone();
        let at = v2.len() - 3000;
        v2.splice(at..at, b"<<inserted near the end>>".iter().copied());
        for (i, v) in [&v0, &v1, &v2].into_iter().enumerate() {
            fx::write(&dir, "huge.bin", v);
            fx::write(&dir, &format!("note{i}.txt"), format!("note {i}\n").repeat(20 + i).as_bytes());
            fx::commit_all(&dir, &format!("huge{i}"));
        }
        git(&dir, &["repack", "-adfq", "--window=10", "--depth=5"]);
        out.push(finish_fixture("huge-64k-copies", &dir, false));
    }
    // H: overlapping packs: the base of ref-deltas is stored in several packs, a multi-pack-index written by git maps it to
    //    exactly one of them (each pack preferred once): ref-delta bases must still be taken from the delta's own pack
    for (name, preferred) in [("overlap-midx-prefA", 0usize), ("overlap-midx-prefB", 1), ("overlap-midx-prefC", 2)] {
        let dir = vkit::scratch::Dir::new("c08-overlap").keep();
        vkit::git::init(&dir);
        let base = vkit::enumerate::lcg_bytes(900, 0x0b5e);
        let derive = |n: usize| {
            let mut d = base.clone();
            for (i, b) in d[100 * n..100 * n + 30].iter_mut().enumerate() {
                *b = (n as u8).wrapping_mul(29).wrapping_add(i as u8);
            }
            d.truncate(890 - 10 * n);
            d
        };
        let blob = |content: &[u8]| String::from_utf8_lossy(&vkit::git::git_in(&dir, &["hash-object", "-w", "--stdin"], content)).trim().to_string();
        let base_id = blob(&base);
        let d: Vec<String> = (1..=5).map(|n| blob(&derive(n))).collect();
        let filler_b = blob(&vkit::enumerate::lcg_bytes(900, 0xf111));
        let filler_c = blob(&vkit::enumerate::lcg_bytes(900, 0xf222));
        let mut pack_names = Vec::new();
        for (ids, ofs) in [
            (vec![&base_id, &d[0], &d[1]], false),             // A: base first (offset 12), ref-deltas
            (vec![&filler_b, &base_id, &d[2], &d[3]], false),  // B: a same-sized blob at offset 12, base behind it, ref-deltas
            (vec![&filler_c, &base_id, &d[4]], true),          // C: ofs-delta
        ] {
            let list: String = ids.iter().map(|i| format!("{i}\n")).collect();
            let mut args = vec!["pack-objects", "-q", "--window=10", "--depth=5"];
            if ofs {
                args.push("--delta-base-offset");
            }
            args.push(".git/objects/pack/pack");
            let h = String::from_utf8_lossy(&vkit::git::git_in(&dir, &args, list.as_bytes())).trim().to_string();
            pack_names.push(format!("pack-{h}.idx"));
        }
        git(&dir, &["prune-packed", "-q"]);
        git(&dir, &["multi-pack-index", "write", &format!("--preferred-pack={}", pack_names[preferred])]);
        let mut f = finish_fixture(name, &dir, true);
        let (names, map) = fx::parse_midx(&dir.join(".git/objects/pack/multi-pack-index"));
        for r in f.alphabet.iter() {
            for (pi, p) in f.packs.iter().enumerate() {
                let Some(e) = p.entries.iter().find(|e| e.oid == r.oid && e.raw_type == 7) else { continue };
                let Some(b) = e.base else { continue };
                let my_name = p.idx.file_name().map(|n| n.to_string_lossy().into_owned()).unwrap_or_default();
                let my_midx_id = names.iter().position(|n| n == &my_name).unwrap_or_else(|| vkit::machinery!("pack {my_name} not in midx {names:?}"));
                // is this copy of the delta the one the midx serves, and does the midx map its base elsewhere?
                let served_here = map.get(&r.oid).map(|m| m.0 as usize == my_midx_id).unwrap_or(false);
                if let Some((bp, bo)) = map.get(&b) {
                    if served_here && *bp as usize != my_midx_id {
                        let boundary = f.packs[pi].entries.iter().any(|e| e.offset == *bo);
                        f.foreign_base_deltas.push((r.oid, boundary));
                    }
                }
            }
        }
        out.push(f);
    }
    // F: twin packs with identical layout (same delta offsets in different packs -> cache keys must include the pack id)
    {
        let dir = vkit::scratch::Dir::new("c08-twins").keep();
        vkit::git::init(&dir);
        for seed in [1u64, 2] {
            let base = vkit::enumerate::lcg_bytes(900, 0x7711 + seed);
            let mut derived = base.clone();
            for (i, b) in derived[300..340].iter_mut().enumerate() {
                *b = (seed as u8).wrapping_mul(31).wrapping_add(i as u8);
            }
            derived.truncate(860);
            let mut third = derived.clone();
            for (i, b) in third[600..630].iter_mut().enumerate() {
                *b = (seed as u8).wrapping_mul(17).wrapping_add(i as u8);
            }
            third.truncate(820);
            let mut ids = String::new();
            for blob in [&base, &derived, &third] {
                let id = String::from_utf8_lossy(&vkit::git::git_in(&dir, &["hash-object", "-w", "--stdin"], blob)).trim().to_string();
                ids.push_str(&id);
                ids.push('\n');
            }
            vkit::git::git_in(
                &dir,
                &["-c", "pack.compression=0", "pack-objects", "-q", "--delta-base-offset", "--window=10", "--depth=5", ".git/objects/pack/pack"],
                ids.as_bytes(),
            );
        }
        git(&dir, &["prune-packed", "-q"]);
        let f = finish_fixture("twins", &dir, false);
        let delta_offsets: Vec<Vec<u64>> =
            f.packs.iter().map(|p| p.entries.iter().filter(|e| e.raw_type >= 6).map(|e| e.offset).collect()).collect();
        run.require(
            "twin packs hold delta entries at identical offsets",
            delta_offsets.len() == 2 && !delta_offsets[0].is_empty() && delta_offsets[0] == delta_offsets[1],
        );
        out.push(f);
    }
    // object sizes of roles: verify-pack prints the *delta* size for deltas; use the oracle's true sizes
    for f in &mut out {
        for r in &mut f.alphabet {
            r.size = f.oracle.get(&r.oid).map(|x| x.1.len()).unwrap_or_else(|| vkit::machinery!("oracle lacks role object"));
        }
    }
    out
}

// ---------------------------------------------------------------------------------------------- cases

#[derive(Serialize, Deserialize, Hash, Clone, Debug, PartialEq, Eq)]
enum PackCache {
    Never,
    /// gix_pack::cache::lru::StaticLinkedList<slots>::new(mem_limit)
    Static { slots: u16, mem_limit: usize },
    /// gix_pack::cache::lru::MemoryCappedHashmap::new(cap)
    Dynamic { cap: usize },
}

#[derive(Serialize, Deserialize, Hash, Clone, Debug, PartialEq, Eq)]
enum ObjCache {
    Unset,
    Never,
    /// gix_pack::cache::object::MemoryCappedHashmap::new(cap)
    Dynamic { cap: usize },
}

#[derive(Serialize, Deserialize, Hash, Clone, Debug, PartialEq, Eq)]
enum Access {
    /// gix_pack::Bundle::find (index lookup + data::File::decode_entry, ref-delta bases resolved in-pack)
    Bundle,
    /// data::File::decode_entry with a resolver that hands every ref-delta base over as `ResolvedBase::OutOfPack`
    OutOfPackBases,
    /// gix_odb handle (`set_pack_cache`/`set_object_cache`) + gix_pack::Find::try_find
    Odb { midx: bool },
}

#[derive(Serialize, Deserialize, Hash, Clone, Debug)]
struct Case {
    fixture: String,
    access: Access,
    pack_cache: PackCache,
    obj_cache: ObjCache,
    /// indices into the fixture's request alphabet (see evidence key `alphabets`)
    requests: Vec<u8>,
}

fn make_pack_cache(c: &PackCache) -> Box<dyn DecodeEntry + Send> {
    use gix_pack::cache::lru::{MemoryCappedHashmap, StaticLinkedList};
    match *c {
        PackCache::Never => Box::new(gix_pack::cache::Never),
        PackCache::Static { slots: 1, mem_limit } => Box::new(StaticLinkedList::<1>::new(mem_limit)),
        PackCache::Static { slots: 2, mem_limit } => Box::new(StaticLinkedList::<2>::new(mem_limit)),
        PackCache::Static { slots: 3, mem_limit } => Box::new(StaticLinkedList::<3>::new(mem_limit)),
        PackCache::Static { slots: 64, mem_limit } => Box::new(StaticLinkedList::<64>::new(mem_limit)),
        PackCache::Static { slots, .. } => vkit::machinery!("no StaticLinkedList instantiation for {slots} slots"),
        PackCache::Dynamic { cap } => Box::new(MemoryCappedHashmap::new(cap)),
    }
}

#[derive(Default)]
struct Stats {
    count_evictions: bool,
    gets_in_request: u32,
    full_hits: u32,
    mid_hits: u32,
    miss_after_put: u32,
    puts: u32,
    obj_hits: u32,
    obj_miss_after_put: u32,
    obj_put: std::collections::HashSet<ObjectId>,
    stored: BTreeMap<(u32, u64), (Kind, usize, Vec<u8>)>,
    corrupt: Option<String>,
}

struct Probe {
    inner: Arc<Mutex<Box<dyn DecodeEntry + Send>>>,
    stats: Arc<Mutex<Stats>>,
}
impl DecodeEntry for Probe {
    fn put(&mut self, pack_id: u32, offset: u64, data: &[u8], kind: Kind, compressed_size: usize) {
        self.inner.lock().unwrap().put(pack_id, offset, data, kind, compressed_size);
        let mut s = self.stats.lock().unwrap();
        s.puts += 1;
        s.stored.insert((pack_id, offset), (kind, compressed_size, data.to_vec()));
    }
    fn get(&mut self, pack_id: u32, offset: u64, out: &mut Vec<u8>) -> Option<(Kind, usize)> {
        let r = self.inner.lock().unwrap().get(pack_id, offset, out);
        let mut s = self.stats.lock().unwrap();
        match r {
            Some((kind, csize)) => {
                if s.gets_in_request == 0 {
                    s.full_hits += 1;
                } else {
                    s.mid_hits += 1;
                }
                match s.stored.get(&(pack_id, offset)) {
                    Some((k, c, d)) if *k == kind && *c == csize && d == out => {}
                    Some((k, c, d)) => {
                        s.corrupt = Some(format!(
                            "cache.get({pack_id},{offset}) returned ({kind:?},{csize},{} bytes) but ({k:?},{c},{} bytes) was stored",
                            out.len(),
                            d.len()
                        ))
                    }
                    None => s.corrupt = Some(format!("cache.get({pack_id},{offset}) hit although nothing was ever stored under this key")),
                }
            }
            None => {
                if s.count_evictions && s.stored.contains_key(&(pack_id, offset)) {
                    s.miss_after_put += 1;
                }
            }
        }
        s.gets_in_request += 1;
        r
    }
}

struct ObjProbe {
    inner: Box<dyn gix_pack::cache::Object + Send>,
    stats: Arc<Mutex<Stats>>,
}
impl gix_pack::cache::Object for ObjProbe {
    fn put(&mut self, id: ObjectId, kind: Kind, data: &[u8]) {
        self.inner.put(id, kind, data);
        self.stats.lock().unwrap().obj_put.insert(id);
    }
    fn get(&mut self, id: &ObjectId, out: &mut Vec<u8>) -> Option<Kind> {
        let r = self.inner.get(id, out);
        let mut s = self.stats.lock().unwrap();
        if r.is_some() {
            s.obj_hits += 1;
        } else if s.obj_put.contains(id) {
            s.obj_miss_after_put += 1;
        }
        r
    }
}

struct Global {
    states: [Mutex<std::collections::HashSet<u64>>; 64],
    requests: AtomicU64,
    mid_hits: AtomicU64,
    full_hits: AtomicU64,
    evictions: AtomicU64,
    obj_hits: AtomicU64,
    obj_evictions: AtomicU64,
    out_of_pack: AtomicU64,
    ref_resolved_in_pack: AtomicU64,
    chain_ge3_decoded: AtomicU64,
    cross_pack_same_offset: AtomicU64,
    midx_lookups: AtomicU64,
}

fn compare(fx: &Fixture, role: &Role, kind: Kind, data: &[u8], n: usize) -> Result<(), String> {
    let (ek, ed) = fx.oracle.get(&role.oid).unwrap_or_else(|| vkit::machinery!("oracle lacks {}", role.oid));
    if kind != *ek {
        return Err(format!("kind: request #{n} ({} {}) decoded as {kind:?}, git says {ek:?}", role.name, role.oid));
    }
    if data != ed.as_slice() {
        let first = data.iter().zip(ed.iter()).position(|(a, b)| a != b).unwrap_or(data.len().min(ed.len()));
        return Err(format!(
            "bytes: request #{n} ({} {}) decoded to {} bytes, git says {} bytes; first difference at byte {first}",
            role.name,
            role.oid,
            data.len(),
            ed.len()
        ));
    }
    Ok(())
}

fn eval(run: &Run, fxs: &[Fixture], g: &Global, c: &Case) -> Verdict {
    let fx = fxs.iter().find(|f| f.name == c.fixture).unwrap_or_else(|| vkit::machinery!("unknown fixture {}", c.fixture));
    let stats = Arc::new(Mutex::new(Stats { count_evictions: c.pack_cache != PackCache::Never, ..Default::default() }));
    let inner: Arc<Mutex<Box<dyn DecodeEntry + Send>>> = Arc::new(Mutex::new(make_pack_cache(&c.pack_cache)));
    let mut out: Vec<u8> = Vec::new(); // reused across requests on purpose
    let mut any_delta = false;
    let mut n_out_of_pack = 0u64;
    let mut n_ref_in_pack = 0u64;
    let roles: Vec<&Role> = c
        .requests
        .iter()
        .map(|&r| fx.alphabet.get(r as usize).unwrap_or_else(|| vkit::machinery!("request index {r} outside alphabet of {}", fx.name)))
        .collect();
    let fail = |class_and_msg: String| -> Verdict { Err(class_and_msg) };
    match c.access {
        Access::Bundle | Access::OutOfPackBases => {
            let mut probe = Probe { inner: inner.clone(), stats: stats.clone() };
            let mut inflate = gix_features::zlib::Inflate::default();
            for (n, role) in roles.iter().enumerate() {
                stats.lock().unwrap().gets_in_request = 0;
                any_delta |= role.delta;
                let b = &fx.bundles[role.pack];
                let res: Result<(Kind, usize), String> = if c.access == Access::Bundle {
                    match b.find(&role.oid, &mut out, &mut inflate, &mut probe) {
                        Ok(Some((data, _loc))) => Ok((data.kind, data.data.len())),
                        Ok(None) => Err("not-found: Bundle::find returned None".into()),
                        Err(e) => Err(format!("decode-error: {e}")),
                    }
                } else {
                    let oop = std::cell::Cell::new(0u64);
                    let r = (|| {
                        let idx = b.index.lookup(role.oid).ok_or_else(|| "not-found: index lookup failed".to_string())?;
                        let ofs = b.index.pack_offset_at_index(idx);
                        let entry = b.pack.entry(ofs).map_err(|e| format!("decode-error: entry header: {e}"))?;
                        b.pack
                            .decode_entry(
                                entry,
                                &mut out,
                                &mut inflate,
                                &|id, out| {
                                    let (k, d) = fx.oracle.get(&id.to_owned())?;
                                    out.clear();
                                    out.extend_from_slice(d);
                                    oop.set(oop.get() + 1);
                                    Some(gix_pack::data::decode::entry::ResolvedBase::OutOfPack { kind: *k, end: out.len() })
                                },
                                &mut probe,
                            )
                            .map(|o| (o.kind, o.object_size as usize))
                            .map(|(k, _reported)| (k, usize::MAX))
                            .map_err(|e| format!("decode-error: {e}"))
                    })();
                    n_out_of_pack += oop.get();
                    r
                };
                let (kind, len) = match res {
                    Ok(x) => x,
                    Err(m) => return fail(format!("{m} (request #{n}: {} {})", role.name, role.oid)),
                };
                // `Outcome::object_size` is documented as unreliable on cache hits ("technically incorrect"); only Data is compared
                if len != usize::MAX && len != out.len() {
                    return bad("bytes", format!("request #{n} ({}): Data holds {len} bytes but buffer holds {} bytes", role.name, out.len()));
                }
                if let Err(m) = compare(fx, role, kind, &out, n) {
                    return fail(m);
                }
                if let Some(m) = stats.lock().unwrap().corrupt.take() {
                    return bad("cache-corrupt", m);
                }
                if role.delta && fx.all_ref && c.access == Access::Bundle {
                    n_ref_in_pack += 1;
                }
            }
        }
        Access::Odb { midx } => {
            let mut handle = fx.stores[midx as usize].to_cache_arc();
            if c.pack_cache != PackCache::Never {
                let (i, s) = (inner.clone(), stats.clone());
                handle.set_pack_cache(move || Box::new(Probe { inner: i.clone(), stats: s.clone() }));
            }
            match c.obj_cache {
                ObjCache::Unset => {}
                ObjCache::Never => {
                    let s = stats.clone();
                    handle.set_object_cache(move || Box::new(ObjProbe { inner: Box::new(gix_pack::cache::object::Never), stats: s.clone() }));
                }
                ObjCache::Dynamic { cap } => {
                    let s = stats.clone();
                    handle.set_object_cache(move || {
                        Box::new(ObjProbe { inner: Box::new(gix_pack::cache::object::MemoryCappedHashmap::new(cap)), stats: s.clone() })
                    });
                }
            }
            for (n, role) in roles.iter().enumerate() {
                stats.lock().unwrap().gets_in_request = 0;
                any_delta |= role.delta;
                match gix_pack::Find::try_find(&handle, &role.oid, &mut out) {
                    Ok(Some((data, _loc))) => {
                        let (kind, len) = (data.kind, data.data.len());
                        if len != out.len() {
                            return bad("bytes", format!("request #{n} ({}): Data holds {len} bytes but buffer holds {}", role.name, out.len()));
                        }
                        if let Err(m) = compare(fx, role, kind, &out, n) {
                            return fail(m);
                        }
                    }
                    Ok(None) => return bad("not-found", format!("request #{n} ({} {}): try_find returned None", role.name, role.oid)),
                    Err(e) => {
                        let mut msg = e.to_string();
                        let mut src: Option<&dyn std::error::Error> = std::error::Error::source(&*e);
                        while let Some(s) = src {
                            msg.push_str(&format!(" <- {s}"));
                            src = s.source();
                        }
                        return bad("decode-error", format!("request #{n} ({} {}): {msg}", role.name, role.oid));
                    }
                }
                if let Some(m) = stats.lock().unwrap().corrupt.take() {
                    return bad("cache-corrupt", m);
                }
            }
            if midx && fx.has_midx {
                g.midx_lookups.fetch_add(roles.len() as u64, Relaxed);
            }
        }
    }
    // residency of everything that was ever stored = canonical cache state after this history
    let s = stats.lock().unwrap();
    let mut tmp = Vec::new();
    let residency: Vec<((u32, u64), bool)> = {
        let mut inner = inner.lock().unwrap();
        s.stored.keys().map(|k| (*k, inner.get(k.0, k.1, &mut tmp).is_some())).collect()
    };
    let offsets: Vec<u64> = s.stored.keys().map(|k| k.1).collect();
    let mut dedup = offsets.clone();
    dedup.dedup();
    if dedup.len() != offsets.len() || {
        let mut o = offsets.clone();
        o.sort_unstable();
        o.windows(2).any(|w| w[0] == w[1])
    } {
        g.cross_pack_same_offset.fetch_add(1, Relaxed);
    }
    let sh = vkit::hash_of(&(&c.fixture, &c.access, &c.pack_cache, &c.obj_cache, &residency, s.obj_put.len()));
    g.states[(sh % 64) as usize].lock().unwrap().insert(sh);
    g.requests.fetch_add(roles.len() as u64, Relaxed);
    let _ = run;
    g.mid_hits.fetch_add(s.mid_hits as u64, Relaxed);
    g.full_hits.fetch_add(s.full_hits as u64, Relaxed);
    g.evictions.fetch_add(s.miss_after_put as u64, Relaxed);
    g.obj_hits.fetch_add(s.obj_hits as u64, Relaxed);
    g.obj_evictions.fetch_add(s.obj_miss_after_put as u64, Relaxed);
    g.out_of_pack.fetch_add(n_out_of_pack, Relaxed);
    g.ref_resolved_in_pack.fetch_add(n_ref_in_pack, Relaxed);
    if roles.iter().any(|r| r.depth >= 3) {
        g.chain_ge3_decoded.fetch_add(1, Relaxed);
    }
    let access = match c.access {
        Access::Bundle => "bundle",
        Access::OutOfPackBases => "out-of-pack",
        Access::Odb { midx: true } => "odb-midx",
        Access::Odb { midx: false } => "odb",
    };
    let pc = match c.pack_cache {
        PackCache::Never => "never",
        PackCache::Static { .. } => "static",
        PackCache::Dynamic { .. } => "dynamic",
    };
    let mut flags = String::new();
    if s.mid_hits > 0 {
        flags.push_str("+midhit");
    }
    if s.full_hits > 0 {
        flags.push_str("+fullhit");
    }
    if s.miss_after_put > 0 {
        flags.push_str("+evicted");
    }
    if s.obj_hits > 0 {
        flags.push_str("+objhit");
    }
    if s.obj_miss_after_put > 0 {
        flags.push_str("+objevicted");
    }
    if flags.is_empty() {
        flags.push_str(if any_delta { "+decoded" } else { "+plain" });
    }
    let class = format!("{access}/{pc}{flags}");
    if any_delta {
        ok(class)
    } else {
        ok_trivial(class)
    }
}

// ---------------------------------------------------------------------------------------------- enumeration

fn delta_sizes(fx: &Fixture, k: usize) -> Vec<usize> {
    let mut v: Vec<usize> = fx.alphabet.iter().take(k).filter(|r| r.delta).map(|r| r.size).collect();
    v.sort_unstable();
    v
}

fn pack_caches_full(fx: &Fixture, k: usize) -> Vec<PackCache> {
    let s = delta_sizes(fx, k);
    let s0 = s.first().copied().unwrap_or(64);
    let s1 = s.get(1).copied().unwrap_or(s0);
    let sum: usize = s.iter().sum::<usize>().max(1);
    let mut limits = vec![0usize, 1, s0.saturating_sub(1).max(1), s0, s0 + s1 - 1, s0 + s1, sum];
    limits.sort_unstable();
    limits.dedup();
    let mut v = vec![PackCache::Never];
    for slots in [1u16, 2, 64] {
        for &l in &limits {
            v.push(PackCache::Static { slots, mem_limit: l });
        }
    }
    let mut caps = vec![1usize, s0.saturating_sub(1).max(1), s0, s0 + s1, sum, 64 << 20];
    caps.sort_unstable();
    caps.dedup();
    for cap in caps {
        v.push(PackCache::Dynamic { cap });
    }
    v
}

/// index into `pack_caches_full` of MemoryCappedHashmap(s0+s1)
#[allow(non_snake_case)]
fn PC_DYNAMIC_TWO(fx: &Fixture, k: usize) -> usize {
    let s = delta_sizes(fx, k);
    let s0 = s.first().copied().unwrap_or(64);
    let s1 = s.get(1).copied().unwrap_or(s0);
    pack_caches_full(fx, k).iter().position(|p| p == &PackCache::Dynamic { cap: s0 + s1 }).expect("present")
}

fn odb_configs(fx: &Fixture, k: usize) -> Vec<(PackCache, ObjCache)> {
    let s = delta_sizes(fx, k);
    let s0 = s.first().copied().unwrap_or(64);
    let s1 = s.get(1).copied().unwrap_or(s0);
    let pcs = vec![
        PackCache::Never,
        PackCache::Static { slots: 2, mem_limit: s0 + s1 },
        PackCache::Static { slots: 64, mem_limit: 0 },
        PackCache::Dynamic { cap: s0 + s1 },
        PackCache::Dynamic { cap: 64 << 20 },
    ];
    // weight of an object-cache entry = data + size_of::<Entry>() (Vec + Kind = 32) + 20 (see cache/object.rs)
    let mut all: Vec<usize> = fx.alphabet.iter().take(k).map(|r| r.size).collect();
    all.sort_unstable();
    let w0 = all[0] + 52;
    let w1 = all.get(1).copied().unwrap_or(all[0]) + 52;
    let ocs = vec![
        ObjCache::Unset,
        ObjCache::Never,
        ObjCache::Dynamic { cap: 1 },
        ObjCache::Dynamic { cap: w0 },
        ObjCache::Dynamic { cap: w0 + w1 },
        ObjCache::Dynamic { cap: 64 << 20 },
    ];
    let mut v = Vec::new();
    for p in &pcs {
        for o in &ocs {
            v.push((p.clone(), o.clone()));
        }
    }
    v
}

extern "C" {
    fn setrlimit(resource: i32, rlim: *const [u64; 2]) -> i32;
}

pub fn run(run: &'static Run) {
    // A wrong delta base can make the decoder ask for a multi-gigabyte buffer. Cap the address space so that such a request
    // fails at once (error or abort, both reported: abort via the driver's in-flight attribution) instead of waking the OOM killer.
    unsafe {
        let lim: [u64; 2] = [24 << 30, 24 << 30];
        setrlimit(9 /* RLIMIT_AS */, &lim);
    }
    let fxs: &'static Vec<Fixture> = Box::leak(Box::new(build_fixtures(run)));
    let g: &'static Global = Box::leak(Box::new(Global {
        states: std::array::from_fn(|_| Mutex::new(Default::default())),
        requests: Default::default(),
        mid_hits: Default::default(),
        full_hits: Default::default(),
        evictions: Default::default(),
        obj_hits: Default::default(),
        obj_evictions: Default::default(),
        out_of_pack: Default::default(),
        ref_resolved_in_pack: Default::default(),
        chain_ge3_decoded: Default::default(),
        cross_pack_same_offset: Default::default(),
        midx_lookups: Default::default(),
    }));
    let k = run.pick(6usize, 7);
    let k_long = 6usize;
    let max_len = run.pick(3usize, 4);
    run.rule(format!(
        "fixtures: 10 git-built repositories (3 x overlapping packs A=[base, 2 ref-deltas] B=[filler, base, 2 ref-deltas] C=[filler, base, ofs-delta] under a git-written multi-pack-index preferring A, B or C, read with and without it; ofs/ref deltas, --depth 1/2/3/4/5, --window 0/2/10, three packs + multi-pack-index, twin packs with equal delta offsets, three ~200 KiB incompressible blobs differing by small insertions whose deltas hold copy instructions of encoded size 0 = 0x10000 bytes); \
         request alphabet per fixture = first {k} of [chain tip, chain middle, chain base, sibling delta sharing a delta ancestor, deltas in other packs, delta of the ~67 KB blob, tree delta, tip's parent, commit] (see `alphabets`); \
         histories = ALL request sequences with repetition of length 1..={max_len} (subs `reads`/`reads-midx`, full cache matrix) and of length {} over the first {k_long} objects (subs `reads-long`/`reads-midx-long`, reduced matrix: StaticLinkedList<2> x all limits, MemoryCappedHashmap(s0+s1), odb: those two x object cache {{unset, w0+w1}}), each on one fresh cache and one reused output buffer; \
         caches: Never, StaticLinkedList<1|2|64> x mem_limit {{0,1,s0-1,s0,s0+s1-1,s0+s1,sum}} (s0<=s1 smallest deltified alphabet objects), lru::MemoryCappedHashmap caps {{1,s0-1,s0,s0+s1,sum,64MiB}}, \
         object cache {{unset, Never, MemoryCappedHashmap caps 1, w0, w0+w1, 64MiB}} (w = entry weight); access paths: Bundle::find, data::File::decode_entry with every ref-delta base handed over as ResolvedBase::OutOfPack (ref fixtures), \
         gix_odb Store + handle with set_pack_cache/set_object_cache + Find::try_find (with and without multi-pack-index). \
         Oracle on every request: kind and bytes == git cat-file --batch; every cache hit must return exactly what was stored under that (pack id, offset). \
         non-trivial = history requests at least one deltified object (the delta cache is only consulted for those)",
        max_len + 1
    ));
    run.assume("git 2.39.5 builds the packs/indices (repack, pack-objects, multi-pack-index write) and is the oracle (cat-file --batch, verify-pack -v)");
    run.assume("MemoryCappedHashmap::new(0) is excluded: it panics by an explicit `expect(\"non zero\")` (documented constructor precondition, not a read)");
    run.assume("states = distinct (fixture, access path, cache configuration, residency of every key ever stored after the history); transitions = requests = oracle comparisons");
    run.budget_secs(run.pick(150.0, 1200.0)); // safety net only: sized for ~10 s / ~3 min on an idle 16-core machine

    let mut alphabets = serde_json::Map::new();
    for f in fxs.iter() {
        let roles: Vec<String> = f
            .alphabet
            .iter()
            .enumerate()
            .map(|(i, r)| format!("{i}:{} {} size={} depth={} pack={}{}", r.name, r.oid.to_hex_with_len(10), r.size, r.depth, r.pack, if r.delta { " delta" } else { "" }))
            .collect();
        alphabets.insert(
            f.name.into(),
            serde_json::json!({"roles": roles, "packs": f.packs.len(), "max_depth": f.max_depth, "ofs_deltas": f.n_ofs, "ref_deltas": f.n_ref}),
        );
    }
    run.cov("alphabets", alphabets);
    let depth_max = fxs.iter().map(|f| f.max_depth).max().unwrap_or(0);
    run.require("a delta chain of depth >= 5 exists in a fixture", depth_max >= 5);
    run.require("offset deltas and reference deltas both occur", fxs.iter().any(|f| f.n_ofs > 0) && fxs.iter().any(|f| f.all_ref));
    run.require("every fixture has >= 4 request objects incl. a delta", fxs.iter().all(|f| f.alphabet.len() >= 4 && f.alphabet.iter().take(k).any(|r| r.delta)));
    run.require("multi fixture has 3 packs", fxs.iter().any(|f| f.has_midx && f.packs.len() == 3));
    let kq = k_long.min(k);
    let foreign: Vec<usize> = fxs.iter().map(|f| f.foreign_base_deltas.iter().filter(|(id, _)| f.alphabet.iter().take(kq).any(|r| &r.oid == id)).count()).collect();
    run.cov("requested_ref_deltas_whose_base_the_midx_maps_to_another_pack", foreign.iter().sum::<usize>());
    run.require(
        "overlap fixtures: >= 2 fixtures request a ref-delta whose base the multi-pack-index maps to another pack, one of them at an entry boundary of the delta's pack",
        foreign.iter().filter(|n| **n > 0).count() >= 2
            && fxs.iter().any(|f| f.foreign_base_deltas.iter().any(|(id, boundary)| *boundary && f.alphabet.iter().take(kq).any(|r| &r.oid == id))),
    );
    run.require(
        "a requested delta contains a copy instruction of encoded size 0 (= 0x10000 bytes)",
        fxs.iter().any(|f| f.alphabet.iter().take(k_long.min(k)).any(|r| r.delta && f.size0_copy_deltas.contains(&r.oid))),
    );
    run.cov("deltas_with_size0_copy_instructions", fxs.iter().map(|f| f.size0_copy_deltas.len()).sum::<usize>());

    let configs = |f: &Fixture, kk: usize, reduced: bool| -> Vec<(Access, PackCache, ObjCache)> {
        let mut configs: Vec<(Access, PackCache, ObjCache)> = Vec::new();
        let keep_pc = |pc: &PackCache| !reduced || matches!(pc, PackCache::Static { slots: 2, .. }) || pc == &pack_caches_full(f, kk)[PC_DYNAMIC_TWO(f, kk)];
        for pc in pack_caches_full(f, kk) {
            if !keep_pc(&pc) {
                continue;
            }
            configs.push((Access::Bundle, pc.clone(), ObjCache::Unset));
            if f.n_ref > 0 {
                configs.push((Access::OutOfPackBases, pc, ObjCache::Unset));
            }
        }
        for (pc, oc) in odb_configs(f, kk) {
            if reduced
                && !(matches!(pc, PackCache::Static { slots: 2, .. } | PackCache::Dynamic { cap: 0..=1_000_000 })
                    && (oc == ObjCache::Unset || oc == odb_configs(f, kk)[4].1))
            {
                continue;
            }
            configs.push((Access::Odb { midx: true }, pc.clone(), oc.clone()));
            if f.has_midx {
                configs.push((Access::Odb { midx: false }, pc, oc));
            }
        }
        configs
    };
    let quick = run.quick();
    let gen = |midx_fixtures: bool, reduced: bool, kmax: usize, lens: std::ops::RangeInclusive<usize>, emit: &mut dyn FnMut(Case)| {
        for len in lens {
            for f in fxs.iter().filter(|f| f.has_midx == midx_fixtures) {
                // quick: the long histories skip two of the three overlap fixtures
                if quick && len > 3 && (f.name == "overlap-midx-prefB" || f.name == "overlap-midx-prefC") {
                    continue;
                }
                let kk = kmax.min(f.alphabet.len());
                let alpha: Vec<u8> = (0..kk as u8).collect();
                // quick: two of the three overlap fixtures run on the reduced cache matrix only (the lookup under test does not depend on caches)
                let reduced = reduced || (quick && (f.name == "overlap-midx-prefB" || f.name == "overlap-midx-prefC"));
                for (access, pc, oc) in configs(f, kk, reduced) {
                    vkit::enumerate::seqs(&alpha, len, len, |s| {
                        emit(Case { fixture: f.name.into(), access: access.clone(), pack_cache: pc.clone(), obj_cache: oc.clone(), requests: s.to_vec() })
                    });
                }
            }
        }
    };
    let mut n_cfg = (0usize, 0usize);
    for f in fxs.iter() {
        n_cfg.0 += configs(f, k.min(f.alphabet.len()), false).len();
        n_cfg.1 += configs(f, k_long.min(f.alphabet.len()), true).len();
    }
    run.cov("fixture_x_configuration_pairs_full_matrix", n_cfg.0);
    run.cov("fixture_x_configuration_pairs_reduced_matrix", n_cfg.1);
    // fixtures with a multi-pack-index run isolated: a wrong base there can end in an aborting allocation, which the driver then
    // attributes to the in-flight history (sub names *-midx)
    run.sub("reads", |emit| gen(false, false, k, 1..=max_len, emit), |c: &Case| eval(run, fxs, g, c));
    run.sub("reads-long", |emit| gen(false, true, k_long, max_len + 1..=max_len + 1, emit), |c: &Case| eval(run, fxs, g, c));
    let opts = || vkit::Opts::default().isolate();
    run.sub_with("reads-midx", opts(), |emit| gen(true, false, k, 1..=max_len, emit), |c: &Case| eval(run, fxs, g, c));
    run.sub_with("reads-midx-long", opts(), |emit| gen(true, true, k_long, max_len + 1..=max_len + 1, emit), |c: &Case| eval(run, fxs, g, c));

    for shard in &g.states {
        run.mc_states_bulk(shard.lock().unwrap().iter().copied());
    }
    run.mc_transitions(g.requests.load(Relaxed));
    run.mc_validated(g.requests.load(Relaxed));
    let ld = |a: &AtomicU64| a.load(Relaxed);
    run.cov("mid_chain_cache_hits", ld(&g.mid_hits));
    run.cov("full_cache_hits", ld(&g.full_hits));
    run.cov("pack_cache_misses_after_put", ld(&g.evictions));
    run.cov("object_cache_hits", ld(&g.obj_hits));
    run.cov("object_cache_misses_after_put", ld(&g.obj_evictions));
    run.cov("out_of_pack_base_resolutions", ld(&g.out_of_pack));
    run.cov("ref_delta_requests_resolved_in_pack", ld(&g.ref_resolved_in_pack));
    run.cov("histories_with_same_offset_in_two_packs_cached", ld(&g.cross_pack_same_offset));
    run.cov("requests_through_multi_pack_index", ld(&g.midx_lookups));
    run.require("mid-chain cache hits occurred", ld(&g.mid_hits) > 0);
    run.require("full cache hits occurred", ld(&g.full_hits) > 0);
    run.require("evictions/rejections (miss after put) occurred", ld(&g.evictions) > 0);
    run.require("object cache hits and evictions occurred", ld(&g.obj_hits) > 0 && ld(&g.obj_evictions) > 0);
    run.require("out-of-pack base resolution occurred", ld(&g.out_of_pack) > 0);
    run.require("ref-deltas were resolved in-pack", ld(&g.ref_resolved_in_pack) > 0);
    run.require("chains of depth >= 3 were decoded", ld(&g.chain_ge3_decoded) > 0);
    run.require("same offset in two packs was cached in one history (twins)", ld(&g.cross_pack_same_offset) > 0);
    run.require("multi-pack-index was used", ld(&g.midx_lookups) > 0);
}
