//! C10 — indexing a received pack matches `git index-pack` (E1: all small histories x full/thin packs x thread limits
//! x iteration modes x API entry points; E5: every truncation and single-byte flip must be rejected without leftovers).
//! The E3 schedule exploration of the delta-tree traversal is done elsewhere (coordinator).
use crate::fx;
use gix_features::progress::Discard;
use gix_hash::ObjectId;
use gix_object::Kind;
use gix_pack::data::input::{BytesToEntriesIter, EntryDataMode, Mode};
use serde::{Deserialize, Serialize};
use std::collections::{BTreeSet, HashMap};
use std::path::{Path, PathBuf};
use std::sync::atomic::{AtomicBool, AtomicU64, Ordering::Relaxed};
use vkit::git::{git, git_in, git_text, try_git};
use vkit::{bad, ok, ok_trivial, Run, Verdict};

static INTERRUPT: AtomicBool = AtomicBool::new(false);

pub struct PackFx {
    name: String,
    thin: bool,
    bytes: Vec<u8>,
    /// objects directory of the receiving repository (thin packs: holds exactly the history the sender excluded)
    base_objects: Option<PathBuf>,
    /// `git index-pack` output for the very same bytes (non-thin)
    git_idx: Option<Vec<u8>>,
    /// ids in the index `git index-pack --fix-thin` produced in a copy of the receiving repository (thin)
    git_ids: BTreeSet<ObjectId>,
    /// type + bytes of every object that must be retrievable afterwards (git cat-file --batch in the sending repository)
    expected: HashMap<ObjectId, (Kind, Vec<u8>)>,
    n_entries: u32,
    n_ofs: usize,
    n_ref: usize,
}

type State = (Option<u8>, Option<u8>);

fn histories() -> Vec<Vec<State>> {
    fn succ(s: State) -> Vec<State> {
        let adv = |x: Option<u8>| match x {
            None => Some(Some(0)),
            Some(v) if v < 2 => Some(Some(v + 1)),
            _ => None,
        };
        let mut v = Vec::new();
        if let Some(a) = adv(s.0) {
            v.push((a, s.1));
        }
        if let Some(b) = adv(s.1) {
            v.push((s.0, b));
        }
        if let (Some(a), Some(b)) = (adv(s.0), adv(s.1)) {
            v.push((a, b));
        }
        v
    }
    let mut out = Vec::new();
    for start in [(Some(0), None), (Some(0), Some(0))] {
        out.push(vec![start]);
        for s1 in succ(start) {
            out.push(vec![start, s1]);
            for s2 in succ(s1) {
                out.push(vec![start, s1, s2]);
            }
        }
    }
    out
}

fn file_content(file: usize, v: u8) -> String {
    // delta-prone: consecutive versions share 5 of 6 blocks; the two files share nothing
    fx::sliding(1000 * file as u64 + v as u64, 6)
}

fn count_types(pack: &[u8]) -> (u32, usize, usize) {
    // walk the entry headers with the help of git's verify-pack offsets is overkill: scan via `git` is done elsewhere;
    // here only the object count of the header
    let n = u32::from_be_bytes([pack[8], pack[9], pack[10], pack[11]]);
    (n, 0, 0)
}

fn show_index_ids(dir: &Path, idx: &[u8]) -> BTreeSet<ObjectId> {
    let out = git_in(dir, &["show-index"], idx);
    String::from_utf8_lossy(&out).lines().filter_map(|l| l.split_whitespace().nth(1).map(fx::oid)).collect()
}

fn build_history(n: usize, h: &[State], out: &mut Vec<PackFx>) {
    let dir = vkit::scratch::Dir::new("c10-src").keep();
    vkit::git::init(&dir);
    let mut commits = Vec::new();
    for (i, s) in h.iter().enumerate() {
        for (f, v) in [(0usize, s.0), (1usize, s.1)] {
            if let Some(v) = v {
                fx::write(&dir, &format!("file{f}.txt"), file_content(f, v).as_bytes());
            }
        }
        fx::commit_all(&dir, &format!("c{i}"));
        commits.push(git_text(&dir, &["rev-parse", "HEAD"]));
    }
    let all_ids: Vec<ObjectId> =
        git_text(&dir, &["rev-list", "--objects", "HEAD"]).lines().filter_map(|l| l.split_whitespace().next().map(fx::oid)).collect();
    let contents = fx::cat_file_batch(&dir, &all_ids);
    let work = vkit::scratch::Dir::new("c10-work").keep();
    let mut add_full = |name: String, extra: &[&str]| {
        let mut args = vec!["pack-objects", "--revs", "--stdout", "-q", "--delta-base-offset"];
        args.extend_from_slice(extra);
        let bytes = git_in(&dir, &args, b"HEAD\n");
        let p = work.join(format!("{name}.pack"));
        std::fs::write(&p, &bytes).unwrap_or_else(|e| vkit::machinery!("write pack: {e}"));
        let idxp = work.join(format!("{name}.idx"));
        git(&dir, &["index-pack".as_ref(), "-o".as_ref(), idxp.as_os_str(), p.as_os_str()]);
        let idx = std::fs::read(&idxp).unwrap_or_else(|e| vkit::machinery!("read idx: {e}"));
        let info = fx::verify_pack(&dir, &idxp);
        let ids = show_index_ids(&dir, &idx);
        let expected: HashMap<_, _> = contents.iter().filter(|(k, _)| ids.contains(*k)).map(|(k, v)| (*k, v.clone())).collect();
        if expected.len() != ids.len() {
            vkit::machinery!("{name}: pack holds objects unknown to rev-list");
        }
        out.push(PackFx {
            name,
            thin: false,
            n_entries: count_types(&bytes).0,
            n_ofs: info.entries.iter().filter(|e| e.raw_type == 6).count(),
            n_ref: info.entries.iter().filter(|e| e.raw_type == 7).count(),
            bytes,
            base_objects: None,
            git_idx: Some(idx),
            git_ids: ids,
            expected,
        });
    };
    add_full(format!("h{n:02}-full"), &[]);
    if h.len() == 3 {
        add_full(format!("h{n:02}-full-w0"), &["--window=0"]);
    }
    // thin packs: everything new since commit j, deltas may refer to objects of commit j by id
    for j in 1..h.len() {
        let name = format!("h{n:02}-thin{j}");
        let excl = &commits[j - 1];
        let bytes = git_in(
            &dir,
            &["pack-objects", "--revs", "--stdout", "-q", "--thin", "--delta-base-offset"],
            format!("HEAD\n^{excl}\n").as_bytes(),
        );
        // receiving repository = bare repo holding exactly the excluded history
        let base = vkit::scratch::Dir::new("c10-base").keep();
        vkit::git::init_bare(&base);
        let base_pack = git_in(&dir, &["pack-objects", "--revs", "--stdout", "-q"], format!("{excl}\n").as_bytes());
        git_in(&base, &["index-pack", "--stdin"], &base_pack);
        // oracle: what git stores when it receives the same stream (in a throw-away copy of the receiver)
        let copy = vkit::scratch::Dir::new("c10-basecopy");
        vkit::scratch::copy_tree(&base, copy.path()).unwrap_or_else(|e| vkit::machinery!("copy base: {e}"));
        let before: BTreeSet<String> = fx::list_dir(&copy.join("objects/pack")).into_iter().collect();
        git_in(copy.path(), &["index-pack", "--fix-thin", "--stdin"], &bytes);
        let new_idx: Vec<String> =
            fx::list_dir(&copy.join("objects/pack")).into_iter().filter(|f| f.ends_with(".idx") && !before.contains(f)).collect();
        if new_idx.len() != 1 {
            vkit::machinery!("{name}: expected one new idx after index-pack --fix-thin, got {new_idx:?}");
        }
        let idx = std::fs::read(copy.join("objects/pack").join(&new_idx[0])).unwrap_or_else(|e| vkit::machinery!("read idx: {e}"));
        let ids = show_index_ids(&dir, &idx);
        let expected: HashMap<_, _> = contents.iter().filter(|(k, _)| ids.contains(*k)).map(|(k, v)| (*k, v.clone())).collect();
        if expected.len() != ids.len() {
            vkit::machinery!("{name}: fixed pack holds objects unknown to rev-list");
        }
        // count ref-deltas by scanning git's own listing of the *thin* stream is not possible (verify-pack needs an idx);
        // the number of bases git appended tells how many external bases exist
        let n_entries = count_types(&bytes).0;
        out.push(PackFx {
            name,
            thin: true,
            n_ref: ids.len() - n_entries as usize,
            n_ofs: 0,
            n_entries,
            bytes,
            base_objects: Some(base.join("objects")),
            git_idx: None,
            git_ids: ids,
            expected,
        });
    }
}

fn build_packs(run: &Run) -> Vec<PackFx> {
    let hs = histories();
    let hs: Vec<(usize, Vec<State>)> = hs.into_iter().enumerate().collect();
    let hs = if run.quick() {
        // quick: every history of <= 2 commits and every fifth 3-commit history
        hs.into_iter().filter(|(i, h)| h.len() <= 2 || i % 5 == 0).collect::<Vec<_>>()
    } else {
        hs
    };
    let next = std::sync::atomic::AtomicUsize::new(0);
    let results = std::sync::Mutex::new(Vec::new());
    let failed = std::sync::Mutex::new(None::<String>);
    std::thread::scope(|s| {
        for _ in 0..8 {
            s.spawn(|| loop {
                let i = next.fetch_add(1, Relaxed);
                if i >= hs.len() {
                    break;
                }
                let mut out = Vec::new();
                match vkit::catch(|| build_history(hs[i].0, &hs[i].1, &mut out)) {
                    Ok(()) => results.lock().unwrap().extend(out),
                    Err(m) => *failed.lock().unwrap() = Some(m),
                }
            });
        }
    });
    if let Some(m) = failed.into_inner().unwrap() {
        vkit::machinery!("fixture construction failed: {m}");
    }
    let mut v = results.into_inner().unwrap();
    v.sort_by(|a, b| a.name.cmp(&b.name));
    v
}

// ---------------------------------------------------------------------------------------------- running gitoxide

#[derive(Serialize, Deserialize, Hash, Clone, Copy, Debug, PartialEq, Eq)]
enum Api {
    /// gix_pack::Bundle::write_to_directory
    Directory,
    /// gix_pack::Bundle::write_to_directory_eagerly
    DirectoryEager,
    /// gix_pack::index::File::write_data_iter_to_stream over BytesToEntriesIter (non-thin packs only)
    Stream,
}

#[derive(Serialize, Deserialize, Hash, Clone, Copy, Debug, PartialEq, Eq)]
enum IterMode {
    Verify,
    AsIs,
    Restore,
}
impl IterMode {
    fn to(self) -> Mode {
        match self {
            IterMode::Verify => Mode::Verify,
            IterMode::AsIs => Mode::AsIs,
            IterMode::Restore => Mode::Restore,
        }
    }
}

struct Written {
    pack: Vec<u8>,
    idx: Vec<u8>,
    listing: Vec<String>,
    num_objects: u32,
    data_hash: ObjectId,
}

fn resolve_vec(r: gix_pack::data::EntryRange, d: &Vec<u8>) -> Option<&[u8]> {
    d.get(r.start as usize..r.end as usize)
}

/// Run one API on `bytes`. Err = gitoxide rejected the stream (message), Ok = what it left in `dir`.
fn index_with(api: Api, mode: IterMode, thread_limit: u16, bytes: &[u8], base_objects: Option<&Path>, dir: &Path) -> Result<Written, String> {
    let options = gix_pack::bundle::write::Options {
        thread_limit: Some(thread_limit as usize),
        iteration_mode: mode.to(),
        index_version: gix_pack::index::Version::default(),
        object_hash: gix_hash::Kind::Sha1,
    };
    let lookup = base_objects.map(|p| gix_odb::at(p).unwrap_or_else(|e| vkit::machinery!("cannot open receiving object database {}: {e}", p.display())));
    let chain = |e: &dyn std::error::Error| {
        let mut msg = e.to_string();
        let mut src = e.source();
        while let Some(s) = src {
            msg.push_str(&format!(" <- {s}"));
            src = s.source();
        }
        msg
    };
    match api {
        Api::Stream => {
            let mut entries =
                BytesToEntriesIter::new_from_header(std::io::BufReader::new(bytes), mode.to(), EntryDataMode::Crc32, gix_hash::Kind::Sha1)
                    .map_err(|e| format!("{:?}: {}", kind_of_err(&e), chain(&e)))?;
            let version = entries.version();
            let mut idx = Vec::new();
            let owned = bytes.to_vec();
            let out = gix_pack::index::File::write_data_iter_to_stream(
                gix_pack::index::Version::default(),
                move || Ok((resolve_vec, owned)),
                &mut entries,
                Some(thread_limit as usize),
                &mut Discard,
                &mut idx,
                &INTERRUPT,
                gix_hash::Kind::Sha1,
                version,
            )
            .map_err(|e| format!("IndexWrite: {}", chain(&e)))?;
            Ok(Written { pack: bytes.to_vec(), idx, listing: Vec::new(), num_objects: out.num_objects, data_hash: out.data_hash })
        }
        Api::Directory | Api::DirectoryEager => {
            let res = if api == Api::Directory {
                let mut rd: &[u8] = bytes;
                gix_pack::Bundle::write_to_directory(&mut rd, Some(dir), &mut Discard, &INTERRUPT, lookup, options)
            } else {
                gix_pack::Bundle::write_to_directory_eagerly(
                    Box::new(std::io::Cursor::new(bytes.to_vec())),
                    Some(bytes.len() as u64),
                    Some(dir),
                    &mut Discard,
                    &INTERRUPT,
                    lookup,
                    options,
                )
            };
            let out = res.map_err(|e| format!("BundleWrite: {}", chain(&e)))?;
            let listing = fx::list_dir(dir);
            let (Some(dp), Some(ip)) = (out.data_path.as_ref(), out.index_path.as_ref()) else {
                return Ok(Written { pack: Vec::new(), idx: Vec::new(), listing, num_objects: out.index.num_objects, data_hash: out.index.data_hash });
            };
            let pack = std::fs::read(dp).map_err(|e| format!("MissingOutput: data_path {} unreadable: {e}", dp.display()))?;
            let idx = std::fs::read(ip).map_err(|e| format!("MissingOutput: index_path {} unreadable: {e}", ip.display()))?;
            Ok(Written { pack, idx, listing, num_objects: out.index.num_objects, data_hash: out.index.data_hash })
        }
    }
}

fn kind_of_err(e: &gix_pack::data::input::Error) -> String {
    format!("{e:?}").split(|c: char| !c.is_alphanumeric()).next().unwrap_or("").to_string()
}

#[derive(Serialize, Deserialize, Hash, Clone, Debug)]
struct IndexCase {
    pack: String,
    api: Api,
    mode: IterMode,
    thread_limits: Vec<u16>,
}

#[derive(Default)]
struct Global {
    thin_bases_inserted: AtomicU64,
    ofs_deltas_resolved: AtomicU64,
    objects_read_back: AtomicU64,
    leftovers_other: AtomicU64,
}

fn eval_index(fxs: &[PackFx], g: &Global, c: &IndexCase) -> Verdict {
    let p = fxs.iter().find(|p| p.name == c.pack).unwrap_or_else(|| vkit::machinery!("unknown pack {}", c.pack));
    check_pack(p, g, c)
}

/// Store `p` through the API/mode of `c` under every thread limit of `c` and compare with git's answers held in `p`.
fn check_pack(p: &PackFx, g: &Global, c: &IndexCase) -> Verdict {
    let mut first: Option<Written> = None;
    for &tl in &c.thread_limits {
        let dir = vkit::scratch::Dir::new("c10-out");
        let w = match index_with(c.api, c.mode, tl, &p.bytes, p.base_objects.as_deref(), dir.path()) {
            Ok(w) => w,
            Err(m) => return bad("rejected-valid", format!("thread_limit {tl}: git accepts this pack, gitoxide says: {m}")),
        };
        if w.num_objects as usize != p.git_ids.len() {
            return bad("object-count", format!("thread_limit {tl}: outcome reports {} objects, git's index has {}", w.num_objects, p.git_ids.len()));
        }
        if c.api != Api::Stream {
            let hex = w.data_hash.to_hex().to_string();
            let want: Vec<String> = vec![format!("pack-{hex}.idx"), format!("pack-{hex}.keep"), format!("pack-{hex}.pack")];
            if w.listing != want {
                return bad("files", format!("thread_limit {tl}: directory holds {:?}, expected {want:?}", w.listing));
            }
            if w.pack.len() < 20 || w.pack[w.pack.len() - 20..] != *w.data_hash.as_bytes() {
                return bad("files", format!("thread_limit {tl}: pack trailer differs from reported data hash {hex}"));
            }
        }
        if !p.thin {
            if w.pack != p.bytes {
                return bad("pack-bytes", format!("thread_limit {tl}: stored pack differs from the received stream ({} vs {} bytes)", w.pack.len(), p.bytes.len()));
            }
            let gi = p.git_idx.as_ref().expect("non-thin has idx");
            if &w.idx != gi {
                let first = w.idx.iter().zip(gi.iter()).position(|(a, b)| a != b).unwrap_or(w.idx.len().min(gi.len()));
                return bad("idx-bytes", format!("thread_limit {tl}: index differs from git index-pack at byte {first} ({} vs {} bytes)", w.idx.len(), gi.len()));
            }
        } else if first.as_ref().map(|f| f.pack == w.pack && f.idx == w.idx).unwrap_or(false) {
            // byte-identical to the result of the first thread limit, which git has judged already
        } else {
            // the stored pack is complete now: git must derive the very same index from it, and the same object set as --fix-thin
            let pp = dir.join("check.pack");
            std::fs::write(&pp, &w.pack).unwrap_or_else(|e| vkit::machinery!("write: {e}"));
            let ip = dir.join("check.idx");
            let o = try_git(dir.path(), &["index-pack".as_ref(), "-o".as_ref(), ip.as_os_str(), pp.as_os_str()]);
            if !o.ok {
                return bad("thin-not-fixed", format!("thread_limit {tl}: git index-pack rejects the pack gitoxide stored: {}", o.err_text()));
            }
            let gi = std::fs::read(&ip).unwrap_or_else(|e| vkit::machinery!("read idx: {e}"));
            if w.idx != gi {
                let first = w.idx.iter().zip(gi.iter()).position(|(a, b)| a != b).unwrap_or(w.idx.len().min(gi.len()));
                return bad("idx-bytes", format!("thread_limit {tl}: index differs from git index-pack of the stored pack at byte {first}"));
            }
            let ids = show_index_ids(dir.path(), &w.idx);
            if ids != p.git_ids {
                let missing: Vec<_> = p.git_ids.difference(&ids).map(|i| i.to_hex().to_string()).collect();
                let extra: Vec<_> = ids.difference(&p.git_ids).map(|i| i.to_hex().to_string()).collect();
                return bad("object-set", format!("thread_limit {tl}: vs git index-pack --fix-thin: missing {missing:?}, extra {extra:?}"));
            }
        }
        // every object retrievable (through gitoxide's own reader) with git's type and bytes
        if c.api != Api::Stream {
            let hex = w.data_hash.to_hex().to_string();
            let b = match gix_pack::Bundle::at(dir.join(format!("pack-{hex}.idx")), gix_hash::Kind::Sha1) {
                Ok(b) => b,
                Err(e) => return bad("unreadable", format!("thread_limit {tl}: cannot open the written bundle: {e}")),
            };
            let mut buf = Vec::new();
            let mut inflate = gix_features::zlib::Inflate::default();
            for (id, (k, d)) in &p.expected {
                match b.find(id, &mut buf, &mut inflate, &mut gix_pack::cache::Never) {
                    Ok(Some((data, _))) if data.kind == *k && data.data == d.as_slice() => {}
                    Ok(Some((data, _))) => return bad("readback", format!("thread_limit {tl}: object {id} reads back as {:?} with {} bytes, git says {k:?} with {} bytes", data.kind, data.data.len(), d.len())),
                    Ok(None) => return bad("readback", format!("thread_limit {tl}: object {id} is not in the written index")),
                    Err(e) => return bad("readback", format!("thread_limit {tl}: object {id} cannot be decoded: {e}")),
                }
            }
            g.objects_read_back.fetch_add(p.expected.len() as u64, Relaxed);
            // gitoxide's own full verification of what it wrote (checksums, CRC32s, every object decoded and re-hashed)
            if first.is_some() {
                // verified for the first thread limit; the results are compared byte for byte below
            } else if let Err(e) = b.verify_integrity::<gix_pack::cache::Never, _>(
                &mut Discard,
                &INTERRUPT,
                gix_pack::index::verify::integrity::Options { thread_limit: Some(1), ..Default::default() },
            ) {
                let mut msg = e.to_string();
                let mut src = std::error::Error::source(&e);
                while let Some(s) = src {
                    msg.push_str(&format!(" <- {s}"));
                    src = s.source();
                }
                return bad("verify-integrity", format!("thread_limit {tl}: Bundle::verify_integrity fails on the written bundle: {msg}"));
            }
        }
        match &first {
            None => first = Some(w),
            Some(f) => {
                if f.idx != w.idx || f.pack != w.pack {
                    return bad("thread-dependence", format!("result with thread_limit {tl} differs from thread_limit {}", c.thread_limits[0]));
                }
            }
        }
    }
    if p.thin {
        g.thin_bases_inserted.fetch_add(p.n_ref as u64, Relaxed);
    }
    g.ofs_deltas_resolved.fetch_add(p.n_ofs as u64, Relaxed);
    let class = if p.thin {
        format!("thin/{}-bases-inserted", p.n_ref.min(3))
    } else if p.n_ofs > 0 {
        format!("full/{}-deltas", if p.n_ofs >= 3 { "3+".to_string() } else { p.n_ofs.to_string() })
    } else {
        "full/no-deltas".into()
    };
    if p.n_ofs > 0 || (p.thin && p.n_ref > 0) {
        ok(class)
    } else {
        ok_trivial(class)
    }
}


// ---------------------------------------------------------------------------------------------- hand-assembled thin packs

fn adler32(d: &[u8]) -> u32 {
    let (mut a, mut b) = (1u32, 0u32);
    for &x in d {
        a = (a + x as u32) % 65521;
        b = (b + a) % 65521;
    }
    (b << 16) | a
}
/// zlib stream of stored blocks only: its length is an exact function of the content length
fn zlib_stored(d: &[u8]) -> Vec<u8> {
    let mut o = vec![0x78, 0x01];
    let chunks: Vec<&[u8]> = if d.is_empty() { vec![&d[..]] } else { d.chunks(65535).collect() };
    for (i, c) in chunks.iter().enumerate() {
        o.push((i + 1 == chunks.len()) as u8);
        o.extend_from_slice(&(c.len() as u16).to_le_bytes());
        o.extend_from_slice(&(!(c.len() as u16)).to_le_bytes());
        o.extend_from_slice(c);
    }
    o.extend_from_slice(&adler32(d).to_be_bytes());
    o
}
fn stored_len(n: usize) -> usize {
    2 + 5 * n.div_ceil(65535).max(1) + n + 4
}
/// type+size header of a pack entry (git's encode_in_pack_object_header), independent of gitoxide's encoder
fn type_size(type_id: u8, mut size: u64) -> Vec<u8> {
    let mut c = (type_id << 4) | (size & 15) as u8;
    size >>= 4;
    let mut o = Vec::new();
    while size != 0 {
        o.push(c | 0x80);
        c = (size & 127) as u8;
        size >>= 7;
    }
    o.push(c);
    o
}
/// git's ofs-delta distance encoding: 1 byte below 128, 2 bytes below 16512, ...
fn ofs_varint(mut d: u64) -> Vec<u8> {
    let mut b = vec![(d & 127) as u8];
    d >>= 7;
    while d != 0 {
        d -= 1;
        b.push(0x80 | (d & 127) as u8);
        d >>= 7;
    }
    b.reverse();
    b
}
fn delta_varint(mut n: u64) -> Vec<u8> {
    let mut o = Vec::new();
    loop {
        let c = (n & 127) as u8;
        n >>= 7;
        if n == 0 {
            o.push(c);
            return o;
        }
        o.push(c | 0x80);
    }
}
/// delta: copy the first `copy` bytes of the base, then insert `tag`
fn make_delta(base: &[u8], copy: usize, tag: &[u8]) -> (Vec<u8>, Vec<u8>) {
    let mut d = delta_varint(base.len() as u64);
    d.extend(delta_varint((copy + tag.len()) as u64));
    if copy > 0 {
        let mut cmd = 0x80u8;
        let mut bytes = Vec::new();
        for i in 0..3 {
            let b = ((copy >> (8 * i)) & 0xff) as u8;
            if b != 0 {
                cmd |= 0x10 << i;
                bytes.push(b);
            }
        }
        d.push(cmd);
        d.extend(bytes);
    }
    d.push(tag.len() as u8);
    d.extend_from_slice(tag);
    let mut r = base[..copy].to_vec();
    r.extend_from_slice(tag);
    (d, r)
}
fn sha1(d: &[u8]) -> ObjectId {
    let mut h = gix_features::hash::hasher(gix_hash::Kind::Sha1);
    h.update(d);
    ObjectId::from(h.digest())
}
fn blob_id(d: &[u8]) -> ObjectId {
    let mut v = format!("blob {}\0", d.len()).into_bytes();
    v.extend_from_slice(d);
    sha1(&v)
}
fn x_content(x_len: usize) -> Vec<u8> {
    vkit::enumerate::lcg_bytes(x_len, 0xe7 + x_len as u64)
}

/// Layout [A blob][R ref-delta -> external X][O ofs-delta -> A or R][Z blob]
#[derive(Serialize, Deserialize, Hash, Clone, Debug)]
struct HandCase {
    /// content length of the external base X (incompressible): decides the length of the entry gitoxide injects
    x_len: usize,
    /// O's base: false = A (lies before the injection point), true = R (the entry right behind the injected base)
    o_on_r: bool,
    /// distance O -> A in the thin pack as received (ignored if `o_on_r`)
    d_old: u64,
}

struct HandPack {
    bytes: Vec<u8>,
    /// (name, id, content, offset in the thin pack)
    objects: Vec<(&'static str, ObjectId, Vec<u8>, u64)>,
    x_id: ObjectId,
}

fn build_hand(c: &HandCase) -> Option<HandPack> {
    let x = x_content(c.x_len);
    let x_id = blob_id(&x);
    let (delta_r, r_result) = make_delta(&x, x.len(), b"+R");
    let r_len = type_size(7, delta_r.len() as u64).len() + 20 + stored_len(delta_r.len());
    let a: Vec<u8> = if c.o_on_r {
        vkit::enumerate::lcg_bytes(40, 5)
    } else {
        let a_len = (c.d_old as usize).checked_sub(r_len)?;
        let n = (0..=a_len).rev().take(20).find(|&n| type_size(3, n as u64).len() + stored_len(n) == a_len)?;
        vkit::enumerate::lcg_bytes(n, 5)
    };
    let mut pack = b"PACK\0\0\0\x02\0\0\0\x04".to_vec();
    let mut objects = Vec::new();
    let a_off = pack.len() as u64;
    pack.extend(type_size(3, a.len() as u64));
    pack.extend(zlib_stored(&a));
    objects.push(("A", blob_id(&a), a.clone(), a_off));
    let r_off = pack.len() as u64;
    pack.extend(type_size(7, delta_r.len() as u64));
    pack.extend_from_slice(x_id.as_bytes());
    pack.extend(zlib_stored(&delta_r));
    if pack.len() as u64 - r_off != r_len as u64 {
        vkit::machinery!("hand pack: length bookkeeping of R is wrong");
    }
    objects.push(("R", blob_id(&r_result), r_result.clone(), r_off));
    let o_off = pack.len() as u64;
    let (o_base, o_base_off) = if c.o_on_r { (&r_result, r_off) } else { (&a, a_off) };
    if !c.o_on_r && o_off - a_off != c.d_old {
        vkit::machinery!("hand pack: distance O->A is {} instead of {}", o_off - a_off, c.d_old);
    }
    let (delta_o, o_result) = make_delta(o_base, o_base.len().min(8), b"+O");
    pack.extend(type_size(6, delta_o.len() as u64));
    pack.extend(ofs_varint(o_off - o_base_off));
    pack.extend(zlib_stored(&delta_o));
    objects.push(("O", blob_id(&o_result), o_result, o_off));
    let z = b"Z: the entry behind the re-pointed ofs-delta".to_vec();
    let z_off = pack.len() as u64;
    pack.extend(type_size(3, z.len() as u64));
    pack.extend(zlib_stored(&z));
    objects.push(("Z", blob_id(&z), z, z_off));
    let trailer = sha1(&pack);
    pack.extend_from_slice(trailer.as_bytes());
    objects.push(("X", x_id, x, 0));
    Some(HandPack { bytes: pack, objects, x_id })
}

fn hand_x_lens(quick: bool) -> Vec<usize> {
    if quick {
        vec![0, 8, 9, 10, 11, 60, 300]
    } else {
        let mut v: Vec<usize> = (0..=24).collect();
        v.extend([40, 60, 100, 127, 128, 129, 300, 2000, 16300, 16500, 20000]);
        v
    }
}

#[derive(Default)]
struct HandStats {
    crossed_128: AtomicU64,
    crossed_16512: AtomicU64,
    net_zero: AtomicU64,
    net_zero_on_r: AtomicU64,
}

fn eval_hand(receiver: &Path, g: &Global, hs: &HandStats, c: &HandCase) -> Verdict {
    let hp = build_hand(c).unwrap_or_else(|| vkit::machinery!("hand case {c:?} cannot be laid out"));
    // oracle: git receives the same thin pack in a throw-away copy of the receiver
    let copy = vkit::scratch::Dir::new("c10-handrecv");
    vkit::scratch::copy_tree(receiver, copy.path()).unwrap_or_else(|e| vkit::machinery!("copy receiver: {e}"));
    let o = vkit::git::try_git_in(copy.path(), &["index-pack", "--fix-thin", "--stdin"], &hp.bytes);
    if !o.ok {
        vkit::machinery!("git index-pack --fix-thin rejects the hand-assembled pack {c:?}: {}", o.err_text());
    }
    let new_idx: Vec<String> = fx::list_dir(&copy.join("objects/pack")).into_iter().filter(|f| f.ends_with(".idx")).collect();
    if new_idx.len() != 1 {
        vkit::machinery!("expected one idx after index-pack --fix-thin, got {new_idx:?}");
    }
    let idx = std::fs::read(copy.join("objects/pack").join(&new_idx[0])).unwrap_or_else(|e| vkit::machinery!("read idx: {e}"));
    let git_ids = show_index_ids(copy.path(), &idx);
    let ids: Vec<ObjectId> = hp.objects.iter().map(|o| o.1).collect();
    let git_objs = fx::cat_file_batch(copy.path(), &ids);
    for (name, id, content, _) in &hp.objects {
        match git_objs.get(id) {
            Some((Kind::Blob, d)) if d == content => {}
            _ => vkit::machinery!("git reads object {name} of the hand-assembled pack differently than intended ({c:?})"),
        }
    }
    if git_ids != ids.iter().copied().collect::<BTreeSet<_>>() {
        vkit::machinery!("git's fixed pack holds {} objects, expected the 5 intended ones", git_ids.len());
    }
    let p = PackFx {
        name: format!("hand-{c:?}"),
        thin: true,
        bytes: hp.bytes.clone(),
        base_objects: Some(receiver.join("objects")),
        git_idx: None,
        git_ids,
        expected: git_objs,
        n_entries: 4,
        n_ofs: 1,
        n_ref: 1,
    };
    for (api, tls) in [(Api::Directory, vec![1u16, 2, 4]), (Api::DirectoryEager, vec![2u16])] {
        let r = check_pack(&p, g, &IndexCase { pack: p.name.clone(), api, mode: IterMode::Verify, thread_limits: tls });
        if r.is_err() {
            return r.map_err(|m| format!("{m} [{api:?}]"));
        }
    }
    // classification: where did gitoxide put the entries? (only reached when everything above held)
    let dir = vkit::scratch::Dir::new("c10-handcls");
    let w = match index_with(Api::Directory, IterMode::Verify, 1, &hp.bytes, p.base_objects.as_deref(), dir.path()) {
        Ok(w) => w,
        Err(m) => return bad("rejected-valid", m),
    };
    let b = gix_pack::Bundle::at(dir.join(format!("pack-{}.idx", w.data_hash.to_hex())), gix_hash::Kind::Sha1)
        .unwrap_or_else(|e| vkit::machinery!("reopen bundle: {e}"));
    let off = |name: &str| -> u64 {
        let id = hp.objects.iter().find(|o| o.0 == name).expect("known").1;
        b.index.lookup(id).map(|i| b.index.pack_offset_at_index(i)).unwrap_or_else(|| vkit::machinery!("object {name} missing although readback passed"))
    };
    let old = |name: &str| hp.objects.iter().find(|o| o.0 == name).expect("known").3;
    let _ = hp.x_id;
    let base = if c.o_on_r { "R" } else { "A" };
    let (d_before, d_after) = (old("O") - old(base), off("O") - off(base));
    let net = off("Z") as i64 - old("Z") as i64;
    let width = |d: u64| ofs_varint(d).len();
    let mut class = String::from(if c.o_on_r { "O-on-R" } else { "O-on-A" });
    if width(d_after) > width(d_before) {
        class.push_str(&format!("/ofs-header-grew-at-{}", if d_after < 16512 { 128 } else { 16512 }));
        if d_after < 16512 { &hs.crossed_128 } else { &hs.crossed_16512 }.fetch_add(1, Relaxed);
    } else if width(d_after) < width(d_before) {
        class.push_str("/ofs-header-shrank");
    } else {
        class.push_str(&format!("/same-width-{}", width(d_after)));
    }
    // net shift seen by O itself = shift of everything behind R = injected base + header change of R
    let shift_at_o = off("O") as i64 - old("O") as i64;
    if shift_at_o == 0 {
        class.push_str("/net-zero");
        hs.net_zero.fetch_add(1, Relaxed);
        if c.o_on_r {
            hs.net_zero_on_r.fetch_add(1, Relaxed);
        }
    } else if shift_at_o < 0 {
        class.push_str("/net-negative");
    }
    let _ = net;
    ok(class)
}


// ---------------------------------------------------------------------------------------------- retry / pre-existing files

#[derive(Serialize, Deserialize, Hash, Clone, Debug, PartialEq, Eq)]
enum Scenario {
    /// store the pack, delete the .idx (first attempt died between the two renames), store the same pack again
    DeleteIdx,
    /// a non-empty directory sits at the .idx path so the first attempt fails when moving the index; remove it and store again
    IdxRenameBlocked,
    /// these files of an earlier, complete store of the same pack are already present
    Present { pack: bool, idx: bool, keep: bool },
}

#[derive(Serialize, Deserialize, Hash, Clone, Debug)]
struct RetryCase {
    pack: String,
    scenario: Scenario,
    thread_limit: u16,
}

fn eval_retry(fxs: &[PackFx], c: &RetryCase) -> Verdict {
    let p = fxs.iter().find(|p| p.name == c.pack).unwrap_or_else(|| vkit::machinery!("unknown pack {}", c.pack));
    let store = |dir: &Path| index_with(Api::Directory, IterMode::Verify, c.thread_limit, &p.bytes, p.base_objects.as_deref(), dir);
    // reference: one clean store in an empty directory (judged by sub `index`)
    let ref_dir = vkit::scratch::Dir::new("c10-retry-ref");
    let w0 = match store(ref_dir.path()) {
        Ok(w) => w,
        Err(m) => return bad("rejected-valid", format!("clean store failed: {m}")),
    };
    if w0.idx.is_empty() || w0.pack.is_empty() {
        return bad("files", "clean store produced no pack/index");
    }
    let hex = w0.data_hash.to_hex().to_string();
    let names = [format!("pack-{hex}.pack"), format!("pack-{hex}.idx"), format!("pack-{hex}.keep")];
    let dir = vkit::scratch::Dir::new("c10-retry");
    let mut first = "";
    match &c.scenario {
        Scenario::DeleteIdx => {
            if let Err(m) = store(dir.path()) {
                return bad("rejected-valid", format!("first store failed: {m}"));
            }
            std::fs::remove_file(dir.join(&names[1])).unwrap_or_else(|e| vkit::machinery!("remove idx: {e}"));
        }
        Scenario::IdxRenameBlocked => {
            let obstacle = dir.join(&names[1]);
            std::fs::create_dir_all(&obstacle).and_then(|_| std::fs::write(obstacle.join("occupied"), b"x")).unwrap_or_else(|e| vkit::machinery!("obstacle: {e}"));
            first = match store(dir.path()) {
                Err(_) => "/first-attempt-failed",
                Ok(_) => return bad("first-attempt", "storing succeeded although a directory occupies the index path"),
            };
            std::fs::remove_dir_all(&obstacle).unwrap_or_else(|e| vkit::machinery!("remove obstacle: {e}"));
        }
        Scenario::Present { pack, idx, keep } => {
            for (n, want) in names.iter().zip([*pack, *idx, *keep]) {
                if want {
                    std::fs::copy(ref_dir.join(n), dir.join(n)).unwrap_or_else(|e| vkit::machinery!("copy {n}: {e}"));
                }
            }
        }
    }
    let before = fx::list_dir(dir.path());
    let w = match store(dir.path()) {
        Ok(w) => w,
        Err(m) if m.starts_with("MissingOutput") => {
            return bad("missing-output", format!("store returned Ok but {m}; directory before {before:?}, after {:?}", fx::list_dir(dir.path())))
        }
        Err(m) => return bad("retry-rejected", format!("storing the pack again failed: {m}; directory before {before:?}")),
    };
    if w.data_hash != w0.data_hash {
        return bad("files", format!("data hash {} differs from the clean store's {hex}", w.data_hash));
    }
    if w.idx != w0.idx {
        return bad("idx-bytes", format!("index after the retry ({} bytes) differs from a clean store ({} bytes)", w.idx.len(), w0.idx.len()));
    }
    if w.pack != w0.pack {
        return bad("pack-bytes", "pack after the retry differs from a clean store");
    }
    if let Some(gi) = &p.git_idx {
        if &w.idx != gi {
            return bad("idx-bytes", "index after the retry differs from git index-pack");
        }
    }
    for n in &names[..2] {
        if !w.listing.contains(n) {
            return bad("files", format!("{n} is missing after the retry: {:?}", w.listing));
        }
    }
    let b = match gix_pack::Bundle::at(dir.join(&names[1]), gix_hash::Kind::Sha1) {
        Ok(b) => b,
        Err(e) => return bad("unreadable", format!("cannot open the bundle after the retry: {e}")),
    };
    let mut buf = Vec::new();
    let mut inflate = gix_features::zlib::Inflate::default();
    for (id, (k, d)) in &p.expected {
        match b.find(id, &mut buf, &mut inflate, &mut gix_pack::cache::Never) {
            Ok(Some((data, _))) if data.kind == *k && data.data == d.as_slice() => {}
            _ => return bad("readback", format!("object {id} does not read back after the retry")),
        }
    }
    let sc = match &c.scenario {
        Scenario::DeleteIdx => "delete-idx".to_string(),
        Scenario::IdxRenameBlocked => "idx-rename-blocked".to_string(),
        Scenario::Present { pack, idx, keep } => format!("present-{}{}{}", if *pack { "P" } else { "" }, if *idx { "I" } else { "" }, if *keep { "K" } else { "" }),
    };
    let kept = if w.listing.contains(&names[2]) { "keep" } else { "no-keep" };
    ok(format!("retry/{sc}{first}/{kept}"))
}

// ---------------------------------------------------------------------------------------------- faults

#[derive(Serialize, Deserialize, Hash, Clone, Debug)]
enum Fault {
    Truncate { len: usize },
    Flip { offset: usize, xor: u8 },
}

#[derive(Serialize, Deserialize, Hash, Clone, Debug)]
struct FaultCase {
    pack: String,
    fault: Fault,
    thread_limit: u16,
}

fn eval_fault(fxs: &[PackFx], g: &Global, c: &FaultCase) -> Verdict {
    let p = fxs.iter().find(|p| p.name == c.pack).unwrap_or_else(|| vkit::machinery!("unknown pack {}", c.pack));
    let mut bytes = p.bytes.clone();
    let (what, at) = match c.fault {
        Fault::Truncate { len } => {
            bytes.truncate(len);
            ("truncate", len)
        }
        Fault::Flip { offset, xor } => {
            if offset >= bytes.len() || xor == 0 {
                vkit::machinery!("flip outside pack");
            }
            bytes[offset] ^= xor;
            ("flip", offset)
        }
    };
    let dir = vkit::scratch::Dir::new("c10-fault");
    let res = index_with(Api::Directory, IterMode::Verify, c.thread_limit, &bytes, p.base_objects.as_deref(), dir.path());
    let listing = fx::list_dir(dir.path());
    let pairs: Vec<&String> = listing.iter().filter(|f| f.ends_with(".pack") || f.ends_with(".idx") || f.ends_with(".keep")).collect();
    match res {
        Ok(w) => bad(
            "accepted-corrupt",
            format!("{what} at {at}: gitoxide accepted the damaged stream ({} objects) and left {:?}", w.num_objects, listing),
        ),
        Err(m) => {
            if !pairs.is_empty() {
                return bad("leftover", format!("{what} at {at}: rejected ({m}) but the directory holds {pairs:?}"));
            }
            if !listing.is_empty() {
                g.leftovers_other.fetch_add(1, Relaxed);
            }
            let region = if at < 12 {
                "header"
            } else if at + 20 >= p.bytes.len() {
                "trailer"
            } else {
                "entries"
            };
            let kind: String = m.split(" <- ").last().unwrap_or("").chars().take_while(|c| !c.is_ascii_digit() && *c != '\'' && *c != ':').collect::<String>().trim().chars().take(48).collect();
            let class = format!("{what}/{region}/{kind}");
            if region == "header" {
                ok_trivial(class)
            } else {
                ok(class)
            }
        }
    }
}

pub fn run(run: &'static Run) {
    let t0 = std::time::Instant::now();
    let laps = std::cell::RefCell::new(Vec::<String>::new());
    let lap = |what: &str| laps.borrow_mut().push(format!("{what}@{:.1}s", t0.elapsed().as_secs_f64()));
    let fxs: &'static Vec<PackFx> = Box::leak(Box::new(build_packs(run)));
    let g: &'static Global = Box::leak(Box::new(Global::default()));
    lap("fixtures");
    let tls: Vec<u16> = vec![1, 2, 3, 16];
    let n_full = fxs.iter().filter(|p| !p.thin).count();
    let n_thin = fxs.iter().filter(|p| p.thin).count();
    run.rule(format!(
        "packs: git pack-objects --revs --delta-base-offset (full; 3-commit histories also with --window=0) and --thin (everything since commit j, receiver = bare repository holding exactly commit j's history) \
         for {} histories over 2 files (file states absent/v0/v1/v2, each step advances one or both files, <= 3 commits; consecutive versions share 5 of 6 blocks): {n_full} full + {n_thin} thin packs; \
         x API {{Bundle::write_to_directory, write_to_directory_eagerly, index::File::write_data_iter_to_stream (full packs)}} x iteration mode {{Verify, AsIs, Restore}}{} x thread_limit {{1,2,3,16}} (all four inside one case, results compared with each other). \
         Oracle: full packs: stored pack == stream, .idx byte-identical to `git index-pack`; thin packs: `git index-pack` of the stored pack succeeds and yields the byte-identical .idx, object set == `git index-pack --fix-thin` in a copy of the receiver; \
         directory holds exactly pack-<trailer>.{{pack,idx,keep}}; every object reads back (Bundle::find) with git's type and bytes. \
         Faults (sub `truncate`, `flip`): EVERY proper prefix and every single-byte XOR with masks {} at EVERY offset of 3 small packs (no-delta full, delta full, thin), Mode::Verify, thread_limit {} => must return Err and leave no .pack/.idx/.keep. \
         Sub `thin-handmade`: hand-assembled thin packs [A blob][R ref-delta -> external X][O ofs-delta -> A | R][Z blob] (stored deflate blocks, exact lengths): X content length {} (length of the injected entry incl. the value where injected base and shrunk ref-delta header cancel out), \
         distance O->A as received in {{b-3,b-2,b-1,b,b+1,b-60}} for b in {{128,16512}} (ofs-delta header grows across the varint boundary vs controls) and O based on R; write_to_directory thread_limit {{1,2,4}} + write_to_directory_eagerly {{2}}; same oracle as thin packs plus git must read the 5 intended objects. \
         Sub `retry`: per pack (quick: 4 smallest shapes, thorough: all) x thread_limit {{1,2,3}} x scenario {{store + delete .idx + store again; directory at the .idx path makes the first store fail at the index rename, remove it, store again; \
         .pack only / .idx only / .keep only / .pack+.keep / all three files of a complete earlier store already present}}: the (second) store must succeed and leave .pack and .idx byte-identical to a clean store (and to git index-pack for full packs), all objects readable. \
         All written bundles must also pass Bundle::verify_integrity. non-trivial = pack with at least one delta / fault beyond the 12-byte header",
        if run.quick() { "all <= 2 commits + every fifth 3-commit one of the 26" } else { "all 26" },
        if run.quick() { " (quick: AsIs/Restore only through write_to_directory)" } else { "" },
        if run.quick() { "{0x01,0x80}" } else { "{0x01,0x02,0x04,0x08,0x10,0x20,0x40,0x80,0xff}" },
        if run.quick() { "{1}" } else { "{1,3}" },
        if run.quick() { "{0,8,9,10,11,60,300}" } else { "{0..=24,40,60,100,127,128,129,300,2000,16300,16500,20000}" },
    ));
    run.assume("git 2.39.5 (pack-objects, index-pack [--fix-thin], show-index, cat-file --batch) is generator and oracle");
    run.assume("streams use --delta-base-offset, i.e. ref-deltas occur only for bases outside the pack: gitoxide documents that in-pack ref-deltas are not supported by write_data_iter_to_stream / the thin-pack resolver (it always negotiates ofs-delta)");
    run.assume("faults are judged in Mode::Verify (the default); Mode::Restore is designed to salvage damaged streams and Mode::AsIs skips the checksum by contract");
    run.assume("git-made packs run with thread limits 1,2,3,16 on the OS scheduler; the interleavings of the multi-threaded delta-tree resolution are explored on hand-assembled packs (sub-check index-thread-schedules)");
    run.budget_secs(run.pick(150.0, 1200.0)); // safety net only: sized for ~10 s / ~3 min on an idle 16-core machine
    // E3 part: thread schedules of the delta-tree resolution on hand-assembled packs
    crate::c10c::schedules(run);
    run.require("full and thin packs exist", n_full >= 10 && n_thin >= 8);
    run.require("packs with >= 2 ofs-deltas exist", fxs.iter().any(|p| p.n_ofs >= 2));
    run.require("thin packs with external bases exist", fxs.iter().any(|p| p.thin && p.n_ref >= 1));
    run.cov("packs", fxs.iter().map(|p| format!("{} {}B entries={} ofs={} ext-bases={}", p.name, p.bytes.len(), p.n_entries, p.n_ofs, if p.thin { p.n_ref } else { 0 })).collect::<Vec<_>>());

    run.sub_with(
        "index",
        vkit::Opts::default().chunk(256).watchdog(120.0).isolate(),
        |emit| {
            for p in fxs.iter() {
                for mode in [IterMode::Verify, IterMode::AsIs, IterMode::Restore] {
                    for api in [Api::Directory, Api::DirectoryEager, Api::Stream] {
                        if api == Api::Stream && p.thin {
                            continue;
                        }
                        if run.quick() && api != Api::Directory && mode != IterMode::Verify {
                            continue;
                        }
                        emit(IndexCase { pack: p.name.clone(), api, mode, thread_limits: tls.clone() });
                    }
                }
            }
        },
        |c: &IndexCase| eval_index(fxs, g, c),
    );

    lap("index");
    // hand-assembled thin packs: an existing ofs-delta is re-pointed across a varint-width boundary of its base distance
    let receiver: &'static PathBuf = Box::leak(Box::new({
        let dir = vkit::scratch::Dir::new("c10-receiver").keep();
        vkit::git::init_bare(&dir);
        for x_len in hand_x_lens(false) {
            git_in(&dir, &["hash-object", "-w", "--stdin"], &x_content(x_len));
        }
        dir
    }));
    let hs: &'static HandStats = Box::leak(Box::new(HandStats::default()));
    let hand_cases: Vec<HandCase> = {
        let mut v = Vec::new();
        for &x_len in &hand_x_lens(run.quick()) {
            v.push(HandCase { x_len, o_on_r: true, d_old: 0 });
            for b in [128u64, 16512] {
                // just below the boundary (crosses for any net growth), at/above it (control), far below (control unless the base is big)
                for d_old in [b - 3, b - 2, b - 1, b, b + 1, b - 60] {
                    let c = HandCase { x_len, o_on_r: false, d_old };
                    if build_hand(&c).is_some() {
                        v.push(c);
                    }
                }
            }
        }
        v
    };
    run.cov("hand_assembled_thin_packs", hand_cases.len());
    run.sub_with(
        "thin-handmade",
        vkit::Opts::default().chunk(64).watchdog(120.0).isolate(),
        |emit| {
            for c in &hand_cases {
                emit(c.clone());
            }
        },
        |c: &HandCase| eval_hand(receiver, g, hs, c),
    );
    run.cov("handmade_ofs_header_grew_at_128", hs.crossed_128.load(Relaxed));
    run.cov("handmade_ofs_header_grew_at_16512", hs.crossed_16512.load(Relaxed));
    run.cov("handmade_net_zero_shift", hs.net_zero.load(Relaxed));
    run.cov("handmade_net_zero_shift_with_ofs_delta_on_the_ref_delta", hs.net_zero_on_r.load(Relaxed));
    run.require("hand-assembled packs made an ofs-delta header grow at 128 and at 16512", hs.crossed_128.load(Relaxed) > 0 && hs.crossed_16512.load(Relaxed) > 0);
    run.require("a hand-assembled pack with zero net shift and an ofs-delta based on the ref-delta was indexed", hs.net_zero_on_r.load(Relaxed) > 0);

    lap("thin-handmade");
    // retry / idempotent re-store with leftovers of an earlier attempt
    let retry_packs: Vec<String> = if run.quick() {
        let pick = |f: &dyn Fn(&PackFx) -> bool| fxs.iter().filter(|p| f(p)).min_by_key(|p| p.bytes.len()).map(|p| p.name.clone());
        let mut v: Vec<String> = [pick(&|p| !p.thin && p.n_ofs == 0), pick(&|p| !p.thin && p.n_ofs >= 1), pick(&|p| p.thin && p.n_ref >= 1), pick(&|p| p.thin && p.n_ref == 0)].into_iter().flatten().collect();
        v.dedup();
        v
    } else {
        fxs.iter().map(|p| p.name.clone()).collect()
    };
    let scenarios = vec![
        Scenario::DeleteIdx,
        Scenario::IdxRenameBlocked,
        Scenario::Present { pack: true, idx: false, keep: false },
        Scenario::Present { pack: false, idx: true, keep: false },
        Scenario::Present { pack: false, idx: false, keep: true },
        Scenario::Present { pack: true, idx: false, keep: true },
        Scenario::Present { pack: true, idx: true, keep: true },
    ];
    run.cov("retry_packs", retry_packs.len());
    run.sub_with(
        "retry",
        vkit::Opts::default().chunk(128).watchdog(120.0).isolate(),
        |emit| {
            for p in &retry_packs {
                for sc in &scenarios {
                    for tl in [1u16, 2, 3] {
                        emit(RetryCase { pack: p.clone(), scenario: sc.clone(), thread_limit: tl });
                    }
                }
            }
        },
        |c: &RetryCase| eval_retry(fxs, c),
    );
    run.require("retry: a first attempt failed at the index rename", run.outcome_count("retry/idx-rename-blocked/first-attempt-failed/keep") > 0);

    lap("retry");
    // fault targets: smallest of each shape
    let pick = |f: &dyn Fn(&PackFx) -> bool| fxs.iter().filter(|p| f(p)).min_by_key(|p| p.bytes.len()).map(|p| p.name.clone());
    let targets: Vec<String> = [pick(&|p| !p.thin && p.n_ofs == 0), pick(&|p| !p.thin && p.n_ofs >= 1), pick(&|p| p.thin && p.n_ref >= 1)].into_iter().flatten().collect();
    run.require("three fault targets", targets.len() == 3);
    run.cov("fault_targets", &targets);
    let masks: Vec<u8> = run.pick(vec![0x01, 0x80], vec![0x01, 0x02, 0x04, 0x08, 0x10, 0x20, 0x40, 0x80, 0xff]);
    let fault_tls: Vec<u16> = run.pick(vec![1], vec![1, 3]);
    run.sub_with(
        "truncate",
        vkit::Opts::default().chunk(512).watchdog(120.0).isolate(),
        |emit| {
            for t in &targets {
                let len = fxs.iter().find(|p| &p.name == t).map(|p| p.bytes.len()).unwrap_or(0);
                for &tl in &fault_tls {
                    for l in 0..len {
                        emit(FaultCase { pack: t.clone(), fault: Fault::Truncate { len: l }, thread_limit: tl });
                    }
                }
            }
        },
        |c: &FaultCase| eval_fault(fxs, g, c),
    );
    run.sub_with(
        "flip",
        vkit::Opts::default().chunk(512).watchdog(120.0).isolate(),
        |emit| {
            for t in &targets {
                let len = fxs.iter().find(|p| &p.name == t).map(|p| p.bytes.len()).unwrap_or(0);
                for &tl in &fault_tls {
                    for &m in &masks {
                        for o in 0..len {
                            emit(FaultCase { pack: t.clone(), fault: Fault::Flip { offset: o, xor: m }, thread_limit: tl });
                        }
                    }
                }
            }
        },
        |c: &FaultCase| eval_fault(fxs, g, c),
    );
    lap("faults");
    run.cov("laps", laps.borrow().clone());
    let ld = |a: &AtomicU64| a.load(Relaxed);
    run.cov("thin_bases_inserted", ld(&g.thin_bases_inserted));
    run.cov("ofs_deltas_resolved", ld(&g.ofs_deltas_resolved));
    run.cov("objects_read_back", ld(&g.objects_read_back));
    run.cov("rejected_runs_with_other_leftover_files", ld(&g.leftovers_other));
    run.require("thin bases were inserted", ld(&g.thin_bases_inserted) > 0);
    run.require("objects were read back", ld(&g.objects_read_back) > 0);
}
