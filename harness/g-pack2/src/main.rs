mod c08;
mod fx;
use vkit::{Check, Level};
fn main() {
    vkit::main(&[Check { id: "C08", level: Level::ModelChecking, run: c08::run }]);
}
