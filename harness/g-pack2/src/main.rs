mod c08;
mod c10;
mod c10c;
mod fx;
use vkit::{Check, Level};
extern "C" {
    fn mallopt(param: i32, value: i32) -> i32;
}
fn main() {
    // harness-side only: keep big decode buffers on the heap instead of mmap/munmap + page faults per history
    unsafe {
        mallopt(-3, 32 << 20); // M_MMAP_THRESHOLD
        mallopt(-1, 512 << 20); // M_TRIM_THRESHOLD
        mallopt(-2, 8 << 20); // M_TOP_PAD
    }
    vkit::main(&[
        Check { id: "C08", level: Level::ModelChecking, run: c08::run },
        Check { id: "C10", level: Level::Exploration, run: c10::run },
    ]);
}
