use vkit::Check;
fn main() {
    let checks: &[Check] = &[];
    vkit::main(checks);
}
