//! C10, sub-check `index-thread-schedules` (E3): the multi-threaded delta-tree resolution of `index::File::write_data_iter_to_stream`
//! (`in_parallel_with_slice` over the root objects + `deltas_mt` with its shared work stack, base-buffer map and `threads_left` counter) on
//! the controlled scheduler (harness/vsched/src/c10s.rs): ALL interleavings with at most b preemptions, fair with respect to polling
//! loops; the index must be byte-identical to the single-threaded one, which is compared with `git index-pack` here.
use serde::{Deserialize, Serialize};
use vkit::{bad, ok, ok_trivial, Run, Verdict};

#[derive(Serialize, Deserialize, Hash, Clone, Debug)]
struct Scn {
    name: String,
    pack: String,
    shape: Vec<Option<usize>>,
    dump: Option<String>,
    thread_limit: usize,
    bound: usize,
    secs: u64,
    schedule: Option<Vec<usize>>,
}

#[derive(Deserialize, Debug)]
struct Report {
    executions: u64,
    decisions: u64,
    max_steps: usize,
    complete: bool,
    outcomes: std::collections::BTreeMap<String, u64>,
    failure: Option<(Vec<usize>, String)>,
    per_bound: Vec<(usize, u64)>,
    num_objects: u32,
}

static PER_CASE: std::sync::Mutex<Vec<String>> = std::sync::Mutex::new(Vec::new());

pub fn schedules(run: &'static Run) {
    run.rule("index-thread-schedules: hand-assembled packs of blobs whose ofs-delta trees have the shapes {two chains below a fork, a fork below a fork, a chain with forks further down, two roots with trees, a wide fork of chains} \
        (entry i = full blob or delta against an earlier entry; validated: `git index-pack` of the same bytes gives the byte-identical index) indexed with write_data_iter_to_stream, thread_limit 2 (thorough also 3), on the controlled scheduler: \
        ALL fair interleavings with at most b preemptions (b = 0,1; thorough 2 for thread_limit 2, each bound until the time cap) of the scheduling points {atomics of in_parallel_with_slice, threads_left, every lock of the shared work stack and \
        base-buffer map, spawn / join / is_finished, the 100 ms poll as a yield}; oracle: index bytes, object count and hashes identical to the single-threaded run; no panic, deadlock or livelock");
    run.assume("index-thread-schedules: fair exploration (a thread that polls - yield / sleep - does not run again before every other runnable thread was scheduled once), as in Musuvathi/Qadeer's fair stateless model checking: \
        the poll loop of deltas_mt and the periodic thread of in_parallel_with_slice would otherwise starve the workers on the default schedule; sequentially consistent interleavings only");
    let q = run.quick();
    let shapes: Vec<(&str, Vec<Option<usize>>)> = vec![
        ("two-chains-below-fork", vec![None, Some(0), Some(0), Some(1), Some(2), Some(3), Some(4)]),
        ("fork-below-fork", vec![None, Some(0), Some(0), Some(1), Some(1), Some(3), Some(4), Some(2)]),
        ("chain-then-forks", vec![None, Some(0), Some(1), Some(1), Some(2), Some(2), Some(3), Some(4)]),
        ("two-roots", vec![None, None, Some(0), Some(0), Some(1), Some(1), Some(2), Some(4), Some(3)]),
        ("wide-fork-of-chains", vec![None, Some(0), Some(0), Some(0), Some(1), Some(2), Some(3), Some(4)]),
    ];
    // quick: three of the five shapes
    let shapes: Vec<_> = shapes.into_iter().enumerate().filter(|(i, _)| !q || [0usize, 1, 3].contains(i)).map(|(_, s)| s).collect();
    let dumpdir: &'static vkit::scratch::Dir = Box::leak(Box::new(vkit::scratch::Dir::new("c10c")));
    let mut cases = Vec::new();
    for (name, shape) in &shapes {
        let mut tls = vec![(2usize, if q { 1usize } else { 2 })];
        if !q {
            tls.push((3, 1));
        }
        for (tl, bound) in tls {
            cases.push(Scn {
                name: name.to_string(),
                pack: String::new(),
                shape: shape.clone(),
                dump: Some(dumpdir.path().join(format!("{name}-{tl}")).to_string_lossy().into_owned()),
                thread_limit: tl,
                bound,
                secs: run.pick(35, 600) as u64,
                schedule: None,
            });
        }
    }
    run.sub_with("index-thread-schedules", vkit::Opts::default().chunk(16), |emit| cases.into_iter().for_each(|c| emit(c)), |c: &Scn| eval(run, c));
    let mut per = PER_CASE.lock().unwrap().clone();
    per.sort();
    run.cov("index_thread_schedule_explorations", per);
}

fn eval(run: &Run, c: &Scn) -> Verdict {
    let bin = std::env::var_os("VERIF_BIN_VSCHED").unwrap_or_else(|| vkit::machinery!("VERIF_BIN_VSCHED is not set (./check builds vsched with the scheduler shim and sets it)"));
    let json = serde_json::to_string(c).unwrap();
    let mut cmd = std::process::Command::new(&bin);
    cmd.arg("--c10-sched").arg(&json).stdin(std::process::Stdio::null());
    if c.schedule.is_some() {
        cmd.env("VSCHED_TRACE", "1");
    }
    let out = cmd.output().unwrap_or_else(|e| vkit::machinery!("cannot run {bin:?}: {e}"));
    let stdout = String::from_utf8_lossy(&out.stdout);
    let Some(line) = stdout.lines().find_map(|l| l.strip_prefix("C10S-REPORT ")) else {
        let err = String::from_utf8_lossy(&out.stderr);
        let tail: String = err.chars().rev().take(1500).collect::<String>().chars().rev().collect();
        vkit::machinery!("scheduler child gave no report (status {:?}): {tail}", out.status)
    };
    let rep: Report = serde_json::from_str(line).unwrap_or_else(|e| vkit::machinery!("bad report: {e}"));
    // the pack is what we think it is: git derives the very same index from the same bytes
    if let (Some(d), None) = (&c.dump, &c.schedule) {
        let (pack, idx) = (format!("{d}.pack"), format!("{d}.idx"));
        if std::path::Path::new(&pack).exists() {
            let git_idx = format!("{d}.git.idx");
            let o = vkit::git::try_git(std::path::Path::new("/"), &["index-pack", "-o", &git_idx, &pack]);
            if !o.ok {
                vkit::machinery!("git index-pack refuses the hand-assembled pack {}: {}", c.name, o.err_text());
            }
            let (a, b) = (std::fs::read(&idx).unwrap_or_default(), std::fs::read(&git_idx).unwrap_or_default());
            if a != b {
                return bad("single-thread-index-differs-from-git", format!("shape {}: single-threaded index ({} bytes) != git index-pack ({} bytes)", c.name, a.len(), b.len()));
            }
        }
    }
    run.cov_add("index_thread_schedule_decisions", rep.decisions);
    for (b, n) in &rep.per_bound {
        run.cov_add(&format!("index_thread_schedule_executions_bound_{b}"), *n);
    }
    PER_CASE.lock().unwrap().push(format!(
        "{} thread_limit={} objects={}: executions per bound={:?} decisions={} max_steps={} complete={} outcomes={:?}",
        c.name, c.thread_limit, rep.num_objects, rep.per_bound, rep.decisions, rep.max_steps, rep.complete, rep.outcomes.keys().collect::<Vec<_>>()
    ));
    if let Some((schedule, what)) = rep.failure {
        if what.starts_with("MACHINERY") {
            vkit::machinery!("{what}");
        }
        let class = what.split(':').next().unwrap_or("violation").to_string();
        let msg = format!("{what} | shape {} {:?} thread_limit {} schedule={schedule:?} (choice indices)", c.name, c.shape, c.thread_limit);
        if c.schedule.is_some() {
            if run.is_replay() {
                eprintln!("{}", String::from_utf8_lossy(&out.stderr));
            }
            return bad(&class, msg);
        }
        if schedule.is_empty() {
            run.violation("index-thread-schedules", c, format!("{class}: {msg}"));
            return ok_trivial("idx-sched:violation-recorded");
        }
        let mut with_schedule = c.clone();
        with_schedule.schedule = Some(schedule);
        with_schedule.dump = None;
        return match eval(run, &with_schedule) {
            Err(_) => {
                run.violation("index-thread-schedules", &with_schedule, format!("{class}: {msg}"));
                ok_trivial("idx-sched:violation-recorded")
            }
            Ok(_) => vkit::machinery!("schedule {:?} failed during exploration but not when replayed: {what}", with_schedule.schedule),
        };
    }
    if c.schedule.is_some() {
        return ok("idx-sched:replayed-without-failure");
    }
    if rep.outcomes.is_empty() {
        return bad("vacuous", "no execution completed");
    }
    if !rep.complete {
        run.cap_hit(format!("index-thread-schedules {} thread_limit {}: bounds {:?} done within {} s", c.name, c.thread_limit, rep.per_bound, c.secs));
        return ok(format!("idx-sched:{}:capped", c.thread_limit));
    }
    ok(format!("idx-sched:{}:b{}", c.thread_limit, c.bound))
}
