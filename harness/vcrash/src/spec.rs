//! Transaction alphabet shared by explorer and worker.
use serde::{Deserialize, Serialize};

#[derive(Serialize, Deserialize, Hash, Clone, Debug, PartialEq, Eq)]
pub enum Val {
    /// object id number n (1 or 2): resolved through `ids` in the spec
    Id(u8),
    Sym(String),
}
#[derive(Serialize, Deserialize, Hash, Clone, Debug, PartialEq, Eq)]
pub enum Exp {
    Any,
    MustExist,
    MustNotExist,
    MustMatch(Val),
    ExistingMustMatch(Val),
}
#[derive(Serialize, Deserialize, Hash, Clone, Debug, PartialEq, Eq)]
pub struct Ed {
    pub name: String,
    /// None = delete
    pub new: Option<Val>,
    pub exp: Exp,
    pub deref: bool,
    pub log_only: bool,
}
#[derive(Serialize, Deserialize, Hash, Clone, Debug, PartialEq, Eq)]
pub struct Tx {
    /// initial store: 0 = all loose, 1 = packed (pack-refs --all), 2 = packed + a loose ref shadowing its packed value
    pub init: u8,
    pub edits: Vec<Ed>,
    /// 0 DeletionsOnly, 1 DeletionsAndNonSymbolicUpdates, 2 ...RemoveLooseSourceReference
    pub packed: u8,
}
#[derive(Serialize, Deserialize, Clone, Debug)]
pub struct WorkerSpec {
    pub git_dir: String,
    pub ids: Vec<String>,
    pub tx: Tx,
    /// stop right before the transaction (used to count start-up syscalls)
    pub idle: bool,
}
