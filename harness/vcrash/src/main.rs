mod c20;
mod c22;
mod c23;
mod spec;
mod worker;
use vkit::{Check, Level};
fn main() {
    let args: Vec<String> = std::env::args().collect();
    if args.get(1).map(String::as_str) == Some("--worker") {
        worker::main(&args[2]);
    }
    if args.get(1).map(String::as_str) == Some("--tmp-worker") {
        c23::worker(&args[2]);
    }
    if args.get(1).map(String::as_str) == Some("--tmp-lock-worker") {
        c23::lock_worker(&args[2], args[3].parse().unwrap(), args[4].parse().unwrap(), args[5].parse().unwrap());
    }
    if args.get(1).map(String::as_str) == Some("--tmp-churn-worker") {
        c23::churn_worker(&args[2], args[3].parse().unwrap(), args[4].parse().unwrap(), args[5].parse().unwrap());
    }
    if args.get(1).map(String::as_str) == Some("--lock-try") {
        c22::lock_try(&args[2]);
    }
    vkit::main(&[
        Check { id: "C20", level: Level::FaultEnumeration, run: c20::run },
        Check { id: "C22", level: Level::ModelChecking, run: c22::run },
        Check { id: "C23", level: Level::FaultEnumeration, run: c23::run },
    ]);
}
