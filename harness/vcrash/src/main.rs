mod c20;
mod c22;
mod spec;
mod worker;
use vkit::{Check, Level};
fn main() {
    let args: Vec<String> = std::env::args().collect();
    if args.get(1).map(String::as_str) == Some("--worker") {
        worker::main(&args[2]);
    }
    if args.get(1).map(String::as_str) == Some("--lock-try") {
        c22::lock_try(&args[2]);
    }
    vkit::main(&[
        Check { id: "C20", level: Level::FaultEnumeration, run: c20::run },
        Check { id: "C22", level: Level::ModelChecking, run: c22::run },
    ]);
}
