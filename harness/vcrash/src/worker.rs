//! The process that is killed: performs ONE reference transaction on a prepared git dir. Single-threaded.
use crate::spec::*;
use gix_ref::transaction::{Change, LogChange, PreviousValue, RefEdit, RefLog};
use gix_ref::Target;

fn target(v: &Val, ids: &[String]) -> Target {
    match v {
        Val::Id(n) => Target::Object(gix_hash::ObjectId::from_hex(ids[*n as usize - 1].as_bytes()).expect("hex id")),
        Val::Sym(name) => Target::Symbolic(name.as_str().try_into().expect("valid name")),
    }
}
fn prev(e: &Exp, ids: &[String]) -> PreviousValue {
    match e {
        Exp::Any => PreviousValue::Any,
        Exp::MustExist => PreviousValue::MustExist,
        Exp::MustNotExist => PreviousValue::MustNotExist,
        Exp::MustMatch(v) => PreviousValue::MustExistAndMatch(target(v, ids)),
        Exp::ExistingMustMatch(v) => PreviousValue::ExistingMustMatch(target(v, ids)),
    }
}

pub fn edits(tx: &Tx, ids: &[String]) -> Vec<RefEdit> {
    tx.edits
        .iter()
        .map(|e| RefEdit {
            name: e.name.as_str().try_into().expect("valid ref name"),
            deref: e.deref,
            change: match &e.new {
                Some(v) => Change::Update {
                    log: LogChange {
                        mode: if e.log_only { RefLog::Only } else { RefLog::AndReference },
                        force_create_reflog: false,
                        message: "verif".into(),
                    },
                    expected: prev(&e.exp, ids),
                    new: target(v, ids),
                },
                None => Change::Delete { expected: prev(&e.exp, ids), log: if e.log_only { RefLog::Only } else { RefLog::AndReference } },
            },
        })
        .collect()
}

pub fn store(git_dir: &str) -> gix_ref::file::Store {
    gix_ref::file::Store::at(
        git_dir.into(),
        gix_ref::store::init::Options { write_reflog: gix_ref::store::WriteReflog::Always, object_hash: gix_hash::Kind::Sha1, ..Default::default() },
    )
}

pub fn main(spec_path: &str) -> ! {
    let spec: WorkerSpec = serde_json::from_slice(&std::fs::read(spec_path).expect("spec")).expect("spec json");
    let store = store(&spec.git_dir);
    let odb = gix_odb::at(std::path::Path::new(&spec.git_dir).join("objects")).expect("odb");
    let edits = edits(&spec.tx, &spec.ids);
    let committer = gix_actor::Signature {
        name: "C".into(),
        email: "c@x".into(),
        time: gix_date::Time { seconds: 1112911993, offset: 0, sign: gix_date::time::Sign::Plus },
    };
    if spec.idle {
        std::process::exit(0);
    }
    let packed = match spec.tx.packed {
        0 => gix_ref::file::transaction::PackedRefs::DeletionsOnly,
        1 => gix_ref::file::transaction::PackedRefs::DeletionsAndNonSymbolicUpdates(Box::new(odb)),
        _ => gix_ref::file::transaction::PackedRefs::DeletionsAndNonSymbolicUpdatesRemoveLooseSourceReference(Box::new(odb)),
    };
    let t = store.transaction().packed_refs(packed);
    let t = match t.prepare(edits, gix_lock::acquire::Fail::Immediately, gix_lock::acquire::Fail::Immediately) {
        Ok(t) => t,
        Err(e) => {
            eprintln!("prepare failed: {e}");
            std::process::exit(3)
        }
    };
    match t.commit(committer.to_ref()) {
        Ok(_) => std::process::exit(0),
        Err(e) => {
            eprintln!("commit failed: {e}");
            std::process::exit(4)
        }
    }
}
