//! C22 — lock files give exclusive, atomic updates for every resource path.
//! Part 1 (E1): every byte-string file name over a small alphabet, flat and nested below a boundary directory:
//!   lock path == resource bytes + ".lock", commit replaces exactly the resource, drop restores everything.
//! Part 2 (E2): every history (depth-bounded) of acquire/write/commit/drop/close by 3 holders on one resource, on the
//!   real file system, against a reference model (at most one holder; content = last committed value), plus holders in
//!   another process.
use serde::{Deserialize, Serialize};
use std::ffi::OsStr;
use std::io::Write;
use std::os::unix::ffi::OsStrExt;
use std::path::{Path, PathBuf};
use vkit::{bad, ok, ok_trivial, Run, Verdict, B};

#[derive(Serialize, Deserialize, Hash, Clone, Debug)]
struct NameCase {
    name: B,
    /// directories (relative to the boundary) that do not exist yet and must be created for the lock
    nested: Vec<B>,
    kind: String, // "file" | "marker"
    action: String, // "commit" | "drop"
    resource_exists: bool,
    /// how the boundary directory is spelled when handed to gix-lock: 0 plain, 1 with a trailing separator, 2 with an inner "/./"
    #[serde(default)]
    boundary_spelling: u8,
}

fn os(b: &[u8]) -> &OsStr {
    OsStr::from_bytes(b)
}

fn listing(root: &Path) -> Vec<String> {
    vkit::scratch::snapshot(root).into_iter().map(|(p, (k, _, c))| format!("{k}:{p}={}", vkit::bytes::escape(&c))).collect()
}

fn eval_name(c: &NameCase) -> Verdict {
    let d = vkit::scratch::Dir::new("c22n");
    // the boundary is a directory of its own below an otherwise empty parent, so that a cleanup that walks too far is visible
    let boundary = d.path().join("outer").join("bound");
    std::fs::create_dir_all(&boundary).unwrap_or_else(|e| vkit::machinery!("mkdir: {e}"));
    let mut dir = boundary.clone();
    for n in &c.nested {
        dir.push(os(n));
    }
    let resource = dir.join(os(&c.name));
    if c.resource_exists {
        std::fs::create_dir_all(&dir).unwrap_or_else(|e| vkit::machinery!("mkdir: {e}"));
        std::fs::write(&resource, b"old").unwrap_or_else(|e| vkit::machinery!("write resource: {e}"));
    }
    let before = listing(&boundary);
    let mut expected_lock = resource.as_os_str().as_bytes().to_vec();
    expected_lock.extend_from_slice(b".lock");
    let expected_lock = PathBuf::from(os(&expected_lock));
    let spelled_boundary = match c.boundary_spelling {
        0 => boundary.clone(),
        1 => PathBuf::from(format!("{}/", boundary.display())),
        _ => d.path().join("outer").join(".").join("bound"),
    };
    let bdir = if c.nested.is_empty() { None } else { Some(spelled_boundary) };
    let mode = gix_lock::acquire::Fail::Immediately;

    enum Held {
        F(gix_lock::File),
        M(gix_lock::Marker),
    }
    let held = if c.kind == "file" {
        match gix_lock::File::acquire_to_update_resource(&resource, mode, bdir) {
            Ok(f) => Held::F(f),
            Err(e) => return bad("acquire-failed", format!("{e:?}")),
        }
    } else {
        match gix_lock::Marker::acquire_to_hold_resource(&resource, mode, bdir) {
            Ok(m) => Held::M(m),
            Err(e) => return bad("acquire-failed", format!("{e:?}")),
        }
    };
    let (lock_path, resource_path) = match &held {
        Held::F(f) => (f.lock_path().to_owned(), f.resource_path()),
        Held::M(m) => (m.lock_path().to_owned(), m.resource_path()),
    };
    if lock_path.as_os_str().as_bytes() != expected_lock.as_os_str().as_bytes() {
        return bad("lock-path", format!("lock_path() = {:?}, expected {:?}", lock_path, expected_lock));
    }
    if !expected_lock.is_file() {
        return bad("lock-file-missing", format!("no file at {:?} while the lock is held; directory: {:?}", expected_lock, listing(&boundary)));
    }
    if resource_path.as_os_str().as_bytes() != resource.as_os_str().as_bytes() {
        return bad("resource-path", format!("resource_path() = {:?}, expected {:?}", resource_path, resource));
    }
    // a second acquisition must fail while held
    match gix_lock::Marker::acquire_to_hold_resource(&resource, mode, None) {
        Err(gix_lock::acquire::Error::PermanentlyLocked { .. }) => {}
        Err(e) => return bad("second-acquire-error", format!("{e}")),
        Ok(_) => return bad("not-exclusive", "a second lock on the same resource was granted"),
    }
    if c.action == "commit" {
        let res = match held {
            Held::F(mut f) => {
                if let Err(e) = f.write_all(b"new") {
                    return bad("write-failed", e);
                }
                f.commit().map(|(p, _)| p).map_err(|e| e.to_string())
            }
            Held::M(_) => return ok_trivial("marker-cannot-commit"),
        };
        match res {
            Err(e) => return bad("commit-failed", e),
            Ok(p) => {
                if p.as_os_str().as_bytes() != resource.as_os_str().as_bytes() {
                    return bad("commit-path", format!("commit() reports {:?}, expected {:?}", p, resource));
                }
            }
        }
        // exactly the resource was replaced: listing == before with resource=new
        let mut expect: Vec<String> = before.iter().filter(|l| !l.starts_with(&format!("f:{}=", rel(&boundary, &resource)))).cloned().collect();
        // directories created for the lock stay (they now hold the resource)
        let mut cur = boundary.clone();
        for n in &c.nested {
            cur.push(os(n));
            let line = format!("d:{}=", rel(&boundary, &cur));
            if !expect.contains(&line) {
                expect.push(line);
            }
        }
        expect.push(format!("f:{}=new", rel(&boundary, &resource)));
        expect.sort();
        let mut after = listing(&boundary);
        after.sort();
        if after != expect {
            return bad("commit-effect", format!("after commit {:?}, expected {:?}", after, expect));
        }
        ok(if c.nested.is_empty() { "committed" } else { "committed-nested" })
    } else {
        match held {
            Held::F(mut f) => {
                let _ = f.write_all(b"new");
                drop(f)
            }
            Held::M(m) => drop(m),
        }
        if !boundary.is_dir() {
            return bad("boundary-removed", format!("dropping the lock removed the boundary directory itself (spelling {}); left: {:?}", c.boundary_spelling, listing(d.path())));
        }
        let mut after = listing(&boundary);
        after.sort();
        let mut expect = before.clone();
        expect.sort();
        if after != expect {
            return bad("drop-effect", format!("after drop {:?}, expected the initial state {:?}", after, expect));
        }
        ok(if c.nested.is_empty() { "dropped" } else { "dropped-nested" })
    }
}

fn rel(root: &Path, p: &Path) -> String {
    vkit::bytes::escape(p.strip_prefix(root).unwrap().as_os_str().as_bytes())
}

// ---------------------------------------------------------------------------------------------------------------------

#[derive(Serialize, Deserialize, Hash, Clone, Debug, PartialEq, Eq)]
enum Op {
    Acquire(u8),
    AcquireMarker(u8),
    Write(u8),
    Commit(u8),
    Drop(u8),
    /// turn a File into a Marker (close), keeps the lock
    Close(u8),
    /// another process tries to take the lock (and releases it again at once if it got it)
    OtherProcessTry,
}

#[derive(Serialize, Deserialize, Hash, Clone, Debug)]
struct History {
    ops: Vec<Op>,
    resource_exists: bool,
}

enum Slot {
    None,
    File(gix_lock::File, Vec<u8> /*written*/),
    Marker(gix_lock::Marker, bool /*from file*/, Vec<u8> /*written*/),
}

fn eval_history(run: &Run, h: &History) -> Verdict {
    let d = vkit::scratch::Dir::new("c22h");
    let resource = d.join("res.ext");
    let lock = d.join("res.ext.lock");
    if h.resource_exists {
        std::fs::write(&resource, b"init").unwrap_or_else(|e| vkit::machinery!("write: {e}"));
    }
    // model
    let mut holder: Option<u8> = None;
    let mut content: Option<Vec<u8>> = h.resource_exists.then(|| b"init".to_vec());
    let mut slots: Vec<Slot> = (0..3).map(|_| Slot::None).collect();
    let mode = gix_lock::acquire::Fail::Immediately;
    let mut class = String::new();
    for (step, op) in h.ops.iter().enumerate() {
        run.mc_transitions(1);
        let fail = |what: &str, detail: String| bad(what, format!("step {step} {op:?}: {detail}"));
        match op {
            Op::Acquire(i) | Op::AcquireMarker(i) => {
                let i = *i;
                if !matches!(slots[i as usize], Slot::None) {
                    continue; // this actor already holds something: not an operation of the alphabet
                }
                let res: Result<Slot, gix_lock::acquire::Error> = if matches!(op, Op::Acquire(_)) {
                    gix_lock::File::acquire_to_update_resource(&resource, mode, None).map(|f| Slot::File(f, Vec::new()))
                } else {
                    gix_lock::Marker::acquire_to_hold_resource(&resource, mode, None).map(|m| Slot::Marker(m, false, Vec::new()))
                };
                match (res, holder) {
                    (Ok(s), None) => {
                        holder = Some(i);
                        slots[i as usize] = s;
                        class.push('A');
                    }
                    (Ok(_), Some(hd)) => return fail("not-exclusive", format!("lock granted to {i} while {hd} holds it")),
                    (Err(gix_lock::acquire::Error::PermanentlyLocked { .. }), Some(_)) => class.push('r'),
                    (Err(e), _) => return fail("acquire-error", format!("{e} (holder {holder:?})")),
                }
            }
            Op::Write(i) => {
                if let Slot::File(f, written) = &mut slots[*i as usize] {
                    if let Err(e) = f.write_all(format!("v{i}").as_bytes()) {
                        return fail("write-failed", e.to_string());
                    }
                    written.extend_from_slice(format!("v{i}").as_bytes());
                    class.push('w');
                }
            }
            Op::Close(i) => {
                if let Slot::File(..) = &slots[*i as usize] {
                    let Slot::File(f, written) = std::mem::replace(&mut slots[*i as usize], Slot::None) else { unreachable!() };
                    match f.close() {
                        Ok(m) => slots[*i as usize] = Slot::Marker(m, true, written),
                        Err(e) => return fail("close-failed", e.to_string()),
                    }
                    class.push('c');
                }
            }
            Op::Commit(i) => {
                let s = std::mem::replace(&mut slots[*i as usize], Slot::None);
                match s {
                    Slot::None => {}
                    Slot::File(f, written) => match f.commit() {
                        Ok(_) => {
                            holder = None;
                            content = Some(written);
                            class.push('C');
                        }
                        Err(e) => return fail("commit-failed", e.to_string()),
                    },
                    Slot::Marker(m, from_file, written) => match m.commit() {
                        Ok(_) if from_file => {
                            holder = None;
                            content = Some(written);
                            class.push('C');
                        }
                        Ok(_) => return fail("marker-committed", "a marker that never was a file was committed".into()),
                        Err(e) if !from_file => {
                            // refused: the marker is handed back and still holds the lock
                            slots[*i as usize] = Slot::Marker(e.instance, false, Vec::new());
                            class.push('x');
                        }
                        Err(e) => return fail("commit-failed", e.to_string()),
                    },
                }
            }
            Op::Drop(i) => {
                let s = std::mem::replace(&mut slots[*i as usize], Slot::None);
                if !matches!(s, Slot::None) {
                    holder = None;
                    class.push('D');
                }
                drop(s);
            }
            Op::OtherProcessTry => {
                let out = std::process::Command::new(std::env::current_exe().unwrap())
                    .arg("--lock-try")
                    .arg(&resource)
                    .output()
                    .unwrap_or_else(|e| vkit::machinery!("spawn: {e}"));
                match (out.status.code(), holder) {
                    (Some(0), None) => class.push('P'),
                    (Some(7), Some(_)) => class.push('p'),
                    (Some(0), Some(hd)) => return fail("not-exclusive", format!("another process got the lock while {hd} holds it")),
                    (code, _) => return fail("other-process", format!("exit {code:?} with holder {holder:?}: {}", String::from_utf8_lossy(&out.stderr))),
                }
            }
        }
        // invariant after every step
        let lock_exists = lock.exists();
        if lock_exists != holder.is_some() {
            return fail("lock-file-state", format!("lock file exists = {lock_exists}, model holder = {holder:?}"));
        }
        let on_disk = std::fs::read(&resource).ok();
        if on_disk != content {
            return fail(
                "resource-content",
                format!("resource holds {:?}, model says {:?}", on_disk.map(|b| String::from_utf8_lossy(&b).into_owned()), content.as_ref().map(|b| String::from_utf8_lossy(b).into_owned())),
            );
        }
        run.mc_validated(1);
        run.mc_state(vkit::hash_of(&(holder, &content, slots.iter().map(|s| matches!(s, Slot::None)).collect::<Vec<_>>())));
    }
    drop(slots);
    if lock.exists() {
        return bad("lock-file-state", "lock file left behind after all holders were dropped");
    }
    if class.contains('r') || class.contains('p') {
        ok(format!("contended:{}", class.len().min(3)))
    } else if class.is_empty() {
        ok_trivial("no-op")
    } else {
        ok_trivial("uncontended")
    }
}

/// `vcrash --lock-try <resource>`: exit 0 if the lock could be taken (released again), 7 if it is held.
pub fn lock_try(resource: &str) -> ! {
    match gix_lock::Marker::acquire_to_hold_resource(resource, gix_lock::acquire::Fail::Immediately, None) {
        Ok(m) => {
            drop(m);
            std::process::exit(0)
        }
        Err(gix_lock::acquire::Error::PermanentlyLocked { .. }) => std::process::exit(7),
        Err(e) => {
            eprintln!("{e}");
            std::process::exit(9)
        }
    }
}

pub fn run(run: &'static Run) {
    run.rule("names: every byte string of 1..=3 (quick) / 1..=4 (thorough) tokens over {a, '.', ' ', 0xff, 0xc3, 'lock', '.lock', 0xc3 0xa9} that is a valid single path component, \
        as resource in the boundary directory and below 1-2 not yet existing directories (also with non-UTF-8 names), x {File, Marker} x {commit, drop} x resource exists or not; \
        oracle: lock path bytes == resource bytes + '.lock', the lock file exists under exactly that name, resource_path() == resource, a second acquisition is refused, \
        commit replaces exactly the resource, drop restores the exact initial directory listing (lock file and created directories gone); \
        histories: all sequences of <= 4 (quick) / 5 (thorough) operations over {acquire File, acquire Marker, write, close, commit, drop} x 2-3 holders + 'another process tries', \
        on one resource, against the model 'at most one holder; content = last committed value'; non-trivial = a history in which an acquisition was refused");
    run.assume("process-level interleavings inside one acquire (between its syscalls) are not enumerated: exclusivity rests on a single O_EXCL open; histories interleave whole operations");
    run.budget_secs(run.pick(40.0, 600.0));
    let toks: Vec<&[u8]> = vec![b"a", b".", b" ", b"\xff", b"\xc3", b"lock", b".lock", "é".as_bytes()];
    let maxlen = run.pick(3, 4);
    run.sub_with(
        "names",
        vkit::Opts::default().chunk(2048),
        |emit| {
            let mut names: Vec<Vec<u8>> = Vec::new();
            vkit::enumerate::strings(&toks, 1, maxlen, |s| {
                if s != b"." && s != b".." {
                    names.push(s.to_vec());
                }
            });
            names.sort();
            names.dedup();
            names.sort_by_key(|n| n.len());
            let nestings: Vec<Vec<B>> = vec![vec![], vec![B::from("d")], vec![B(b"d\xff.x".to_vec()), B::from("e.lock")]];
            for n in &names {
                for (ni, nested) in nestings.iter().enumerate() {
                    for kind in ["file", "marker"] {
                        for action in ["commit", "drop"] {
                            for exists in [false, true] {
                                if kind == "marker" && action == "commit" {
                                    continue;
                                }
                                if exists && ni == 2 {
                                    continue;
                                }
                                if run.quick() && ni > 0 && n.len() > 3 {
                                    continue;
                                }
                                emit(NameCase { name: B(n.clone()), nested: nested.clone(), kind: kind.into(), action: action.into(), resource_exists: exists, boundary_spelling: 0 });
                                // other spellings of the same boundary directory (short names only: the name plays no role here)
                                if ni > 0 && n.len() <= 2 {
                                    for sp in 1..=2u8 {
                                        emit(NameCase { name: B(n.clone()), nested: nested.clone(), kind: kind.into(), action: action.into(), resource_exists: exists, boundary_spelling: sp });
                                    }
                                }
                            }
                        }
                    }
                }
            }
        },
        eval_name,
    );

    let depth = run.pick(4, 5);
    let mut alphabet: Vec<Op> = Vec::new();
    for i in 0..2u8 {
        alphabet.extend([Op::Acquire(i), Op::Write(i), Op::Commit(i), Op::Drop(i)]);
    }
    alphabet.extend([Op::AcquireMarker(2), Op::Commit(2), Op::Drop(2), Op::Close(0), Op::OtherProcessTry]);
    run.sub_with(
        "histories",
        vkit::Opts::default().chunk(4096),
        |emit| {
            vkit::enumerate::seqs(&alphabet, 1, depth, |ops| {
                // prune histories whose first op is not an acquisition (nothing to do) and those with >1 process probe (slow)
                if !matches!(ops[0], Op::Acquire(_) | Op::AcquireMarker(_)) {
                    return;
                }
                if ops.iter().filter(|o| **o == Op::OtherProcessTry).count() > 1 {
                    return;
                }
                emit(History { ops: ops.to_vec(), resource_exists: ops.len() % 2 == 0 });
            });
        },
        |h: &History| eval_history(run, h),
    );
    run.require("some history had a refused acquisition", run.over_budget() || run.outcome_count("contended:3") > 0);
}
