//! C22 — lock files give exclusive, atomic updates for every resource path.
//! Part 1 (E1): every byte-string file name over a small alphabet, flat and nested below a boundary directory:
//!   lock path == resource bytes + ".lock", commit replaces exactly the resource, drop restores everything.
//! Part 2 (E2): every history (depth-bounded) of acquire/write/commit/drop/close by 3 holders on one resource, on the
//!   real file system, against a reference model (at most one holder; content = last committed value), plus holders in
//!   another process.
use serde::{Deserialize, Serialize};
use std::ffi::OsStr;
use std::io::Write;
use std::os::unix::ffi::OsStrExt;
use std::path::{Path, PathBuf};
use vkit::{bad, ok, ok_trivial, Run, Verdict, B};

#[derive(Serialize, Deserialize, Hash, Clone, Debug)]
struct NameCase {
    name: B,
    /// directories (relative to the boundary) that do not exist yet and must be created for the lock
    nested: Vec<B>,
    kind: String, // "file" | "marker"
    action: String, // "commit" | "drop"
    resource_exists: bool,
    /// how the boundary directory is spelled when handed to gix-lock: 0 plain, 1 with a trailing separator, 2 with an inner "/./"
    #[serde(default)]
    boundary_spelling: u8,
}

fn os(b: &[u8]) -> &OsStr {
    OsStr::from_bytes(b)
}

fn listing(root: &Path) -> Vec<String> {
    vkit::scratch::snapshot(root).into_iter().map(|(p, (k, _, c))| format!("{k}:{p}={}", vkit::bytes::escape(&c))).collect()
}

fn eval_name(c: &NameCase) -> Verdict {
    let d = vkit::scratch::Dir::new("c22n");
    // the boundary is a directory of its own below an otherwise empty parent, so that a cleanup that walks too far is visible
    let boundary = d.path().join("outer").join("bound");
    std::fs::create_dir_all(&boundary).unwrap_or_else(|e| vkit::machinery!("mkdir: {e}"));
    let mut dir = boundary.clone();
    for n in &c.nested {
        dir.push(os(n));
    }
    let resource = dir.join(os(&c.name));
    if c.resource_exists {
        std::fs::create_dir_all(&dir).unwrap_or_else(|e| vkit::machinery!("mkdir: {e}"));
        std::fs::write(&resource, b"old").unwrap_or_else(|e| vkit::machinery!("write resource: {e}"));
    }
    let before = listing(&boundary);
    let mut expected_lock = resource.as_os_str().as_bytes().to_vec();
    expected_lock.extend_from_slice(b".lock");
    let expected_lock = PathBuf::from(os(&expected_lock));
    let spelled_boundary = match c.boundary_spelling {
        0 => boundary.clone(),
        1 => PathBuf::from(format!("{}/", boundary.display())),
        _ => d.path().join("outer").join(".").join("bound"),
    };
    let bdir = if c.nested.is_empty() { None } else { Some(spelled_boundary) };
    let mode = gix_lock::acquire::Fail::Immediately;

    enum Held {
        F(gix_lock::File),
        M(gix_lock::Marker),
    }
    let held = if c.kind == "file" {
        match gix_lock::File::acquire_to_update_resource(&resource, mode, bdir) {
            Ok(f) => Held::F(f),
            Err(e) => return bad("acquire-failed", format!("{e:?}")),
        }
    } else {
        match gix_lock::Marker::acquire_to_hold_resource(&resource, mode, bdir) {
            Ok(m) => Held::M(m),
            Err(e) => return bad("acquire-failed", format!("{e:?}")),
        }
    };
    let (lock_path, resource_path) = match &held {
        Held::F(f) => (f.lock_path().to_owned(), f.resource_path()),
        Held::M(m) => (m.lock_path().to_owned(), m.resource_path()),
    };
    if lock_path.as_os_str().as_bytes() != expected_lock.as_os_str().as_bytes() {
        return bad("lock-path", format!("lock_path() = {:?}, expected {:?}", lock_path, expected_lock));
    }
    if !expected_lock.is_file() {
        return bad("lock-file-missing", format!("no file at {:?} while the lock is held; directory: {:?}", expected_lock, listing(&boundary)));
    }
    if resource_path.as_os_str().as_bytes() != resource.as_os_str().as_bytes() {
        return bad("resource-path", format!("resource_path() = {:?}, expected {:?}", resource_path, resource));
    }
    // a second acquisition must fail while held
    match gix_lock::Marker::acquire_to_hold_resource(&resource, mode, None) {
        Err(gix_lock::acquire::Error::PermanentlyLocked { .. }) => {}
        Err(e) => return bad("second-acquire-error", format!("{e}")),
        Ok(_) => return bad("not-exclusive", "a second lock on the same resource was granted"),
    }
    if c.action == "commit" {
        let res = match held {
            Held::F(mut f) => {
                if let Err(e) = f.write_all(b"new") {
                    return bad("write-failed", e);
                }
                f.commit().map(|(p, _)| p).map_err(|e| e.to_string())
            }
            Held::M(_) => return ok_trivial("marker-cannot-commit"),
        };
        match res {
            Err(e) => return bad("commit-failed", e),
            Ok(p) => {
                if p.as_os_str().as_bytes() != resource.as_os_str().as_bytes() {
                    return bad("commit-path", format!("commit() reports {:?}, expected {:?}", p, resource));
                }
            }
        }
        // exactly the resource was replaced: listing == before with resource=new
        let mut expect: Vec<String> = before.iter().filter(|l| !l.starts_with(&format!("f:{}=", rel(&boundary, &resource)))).cloned().collect();
        // directories created for the lock stay (they now hold the resource)
        let mut cur = boundary.clone();
        for n in &c.nested {
            cur.push(os(n));
            let line = format!("d:{}=", rel(&boundary, &cur));
            if !expect.contains(&line) {
                expect.push(line);
            }
        }
        expect.push(format!("f:{}=new", rel(&boundary, &resource)));
        expect.sort();
        let mut after = listing(&boundary);
        after.sort();
        if after != expect {
            return bad("commit-effect", format!("after commit {:?}, expected {:?}", after, expect));
        }
        ok(if c.nested.is_empty() { "committed" } else { "committed-nested" })
    } else {
        match held {
            Held::F(mut f) => {
                let _ = f.write_all(b"new");
                drop(f)
            }
            Held::M(m) => drop(m),
        }
        if !boundary.is_dir() {
            return bad("boundary-removed", format!("dropping the lock removed the boundary directory itself (spelling {}); left: {:?}", c.boundary_spelling, listing(d.path())));
        }
        let mut after = listing(&boundary);
        after.sort();
        let mut expect = before.clone();
        expect.sort();
        if after != expect {
            return bad("drop-effect", format!("after drop {:?}, expected the initial state {:?}", after, expect));
        }
        ok(if c.nested.is_empty() { "dropped" } else { "dropped-nested" })
    }
}

fn rel(root: &Path, p: &Path) -> String {
    vkit::bytes::escape(p.strip_prefix(root).unwrap().as_os_str().as_bytes())
}

// ---------------------------------------------------------------------------------------------------------------------

#[derive(Serialize, Deserialize, Hash, Clone, Debug, PartialEq, Eq)]
enum Op {
    Acquire(u8),
    AcquireMarker(u8),
    Write(u8),
    Commit(u8),
    Drop(u8),
    /// turn a File into a Marker (close), keeps the lock
    Close(u8),
    /// another process tries to take the lock (and releases it again at once if it got it)
    OtherProcessTry,
}

#[derive(Serialize, Deserialize, Hash, Clone, Debug)]
struct History {
    ops: Vec<Op>,
    resource_exists: bool,
}

enum Slot {
    None,
    File(gix_lock::File, Vec<u8> /*written*/),
    Marker(gix_lock::Marker, bool /*from file*/, Vec<u8> /*written*/),
}

fn eval_history(run: &Run, h: &History) -> Verdict {
    let d = vkit::scratch::Dir::new("c22h");
    let resource = d.join("res.ext");
    let lock = d.join("res.ext.lock");
    if h.resource_exists {
        std::fs::write(&resource, b"init").unwrap_or_else(|e| vkit::machinery!("write: {e}"));
    }
    // model
    let mut holder: Option<u8> = None;
    let mut content: Option<Vec<u8>> = h.resource_exists.then(|| b"init".to_vec());
    let mut slots: Vec<Slot> = (0..3).map(|_| Slot::None).collect();
    let mode = gix_lock::acquire::Fail::Immediately;
    let mut class = String::new();
    for (step, op) in h.ops.iter().enumerate() {
        run.mc_transitions(1);
        let fail = |what: &str, detail: String| bad(what, format!("step {step} {op:?}: {detail}"));
        match op {
            Op::Acquire(i) | Op::AcquireMarker(i) => {
                let i = *i;
                if !matches!(slots[i as usize], Slot::None) {
                    continue; // this actor already holds something: not an operation of the alphabet
                }
                let res: Result<Slot, gix_lock::acquire::Error> = if matches!(op, Op::Acquire(_)) {
                    gix_lock::File::acquire_to_update_resource(&resource, mode, None).map(|f| Slot::File(f, Vec::new()))
                } else {
                    gix_lock::Marker::acquire_to_hold_resource(&resource, mode, None).map(|m| Slot::Marker(m, false, Vec::new()))
                };
                match (res, holder) {
                    (Ok(s), None) => {
                        holder = Some(i);
                        slots[i as usize] = s;
                        class.push('A');
                    }
                    (Ok(_), Some(hd)) => return fail("not-exclusive", format!("lock granted to {i} while {hd} holds it")),
                    (Err(gix_lock::acquire::Error::PermanentlyLocked { .. }), Some(_)) => class.push('r'),
                    (Err(e), _) => return fail("acquire-error", format!("{e} (holder {holder:?})")),
                }
            }
            Op::Write(i) => {
                if let Slot::File(f, written) = &mut slots[*i as usize] {
                    if let Err(e) = f.write_all(format!("v{i}").as_bytes()) {
                        return fail("write-failed", e.to_string());
                    }
                    written.extend_from_slice(format!("v{i}").as_bytes());
                    class.push('w');
                }
            }
            Op::Close(i) => {
                if let Slot::File(..) = &slots[*i as usize] {
                    let Slot::File(f, written) = std::mem::replace(&mut slots[*i as usize], Slot::None) else { unreachable!() };
                    match f.close() {
                        Ok(m) => slots[*i as usize] = Slot::Marker(m, true, written),
                        Err(e) => return fail("close-failed", e.to_string()),
                    }
                    class.push('c');
                }
            }
            Op::Commit(i) => {
                let s = std::mem::replace(&mut slots[*i as usize], Slot::None);
                match s {
                    Slot::None => {}
                    Slot::File(f, written) => match f.commit() {
                        Ok(_) => {
                            holder = None;
                            content = Some(written);
                            class.push('C');
                        }
                        Err(e) => return fail("commit-failed", e.to_string()),
                    },
                    Slot::Marker(m, from_file, written) => match m.commit() {
                        Ok(_) if from_file => {
                            holder = None;
                            content = Some(written);
                            class.push('C');
                        }
                        Ok(_) => return fail("marker-committed", "a marker that never was a file was committed".into()),
                        Err(e) if !from_file => {
                            // refused: the marker is handed back and still holds the lock
                            slots[*i as usize] = Slot::Marker(e.instance, false, Vec::new());
                            class.push('x');
                        }
                        Err(e) => return fail("commit-failed", e.to_string()),
                    },
                }
            }
            Op::Drop(i) => {
                let s = std::mem::replace(&mut slots[*i as usize], Slot::None);
                if !matches!(s, Slot::None) {
                    holder = None;
                    class.push('D');
                }
                drop(s);
            }
            Op::OtherProcessTry => {
                let out = std::process::Command::new(std::env::current_exe().unwrap())
                    .arg("--lock-try")
                    .arg(&resource)
                    .output()
                    .unwrap_or_else(|e| vkit::machinery!("spawn: {e}"));
                match (out.status.code(), holder) {
                    (Some(0), None) => class.push('P'),
                    (Some(7), Some(_)) => class.push('p'),
                    (Some(0), Some(hd)) => return fail("not-exclusive", format!("another process got the lock while {hd} holds it")),
                    (code, _) => return fail("other-process", format!("exit {code:?} with holder {holder:?}: {}", String::from_utf8_lossy(&out.stderr))),
                }
            }
        }
        // invariant after every step
        let lock_exists = lock.exists();
        if lock_exists != holder.is_some() {
            return fail("lock-file-state", format!("lock file exists = {lock_exists}, model holder = {holder:?}"));
        }
        let on_disk = std::fs::read(&resource).ok();
        if on_disk != content {
            return fail(
                "resource-content",
                format!("resource holds {:?}, model says {:?}", on_disk.map(|b| String::from_utf8_lossy(&b).into_owned()), content.as_ref().map(|b| String::from_utf8_lossy(b).into_owned())),
            );
        }
        run.mc_validated(1);
        run.mc_state(vkit::hash_of(&(holder, &content, slots.iter().map(|s| matches!(s, Slot::None)).collect::<Vec<_>>())));
    }
    drop(slots);
    if lock.exists() {
        return bad("lock-file-state", "lock file left behind after all holders were dropped");
    }
    if class.contains('r') || class.contains('p') {
        ok(format!("contended:{}", class.len().min(3)))
    } else if class.is_empty() {
        ok_trivial("no-op")
    } else {
        ok_trivial("uncontended")
    }
}

/// `vcrash --lock-try <resource>`: exit 0 if the lock could be taken (released again), 7 if it is held.
pub fn lock_try(resource: &str) -> ! {
    match gix_lock::Marker::acquire_to_hold_resource(resource, gix_lock::acquire::Fail::Immediately, None) {
        Ok(m) => {
            drop(m);
            std::process::exit(0)
        }
        Err(gix_lock::acquire::Error::PermanentlyLocked { .. }) => std::process::exit(7),
        Err(e) => {
            eprintln!("{e}");
            std::process::exit(9)
        }
    }
}

pub fn run(run: &'static Run) {
    run.rule("names: every byte string of 1..=3 (quick) / 1..=4 (thorough) tokens over {a, '.', ' ', 0xff, 0xc3, 'lock', '.lock', 0xc3 0xa9} that is a valid single path component, \
        as resource in the boundary directory and below 1-2 not yet existing directories (also with non-UTF-8 names), x {File, Marker} x {commit, drop} x resource exists or not; \
        oracle: lock path bytes == resource bytes + '.lock', the lock file exists under exactly that name, resource_path() == resource, a second acquisition is refused, \
        commit replaces exactly the resource, drop restores the exact initial directory listing (lock file and created directories gone); \
        histories: all sequences of <= 4 (quick) / 5 (thorough) operations over {acquire File, acquire Marker, write, close, commit, drop} x 2-3 holders + 'another process tries', \
        on one resource, against the model 'at most one holder; content = last committed value'; non-trivial = a history in which an acquisition was refused");
    run.assume("process-level interleavings inside one acquire (between its syscalls) are not enumerated: exclusivity rests on a single O_EXCL open; histories interleave whole operations");
    run.budget_secs(run.pick(50.0, 1500.0));
    let toks: Vec<&[u8]> = vec![b"a", b".", b" ", b"\xff", b"\xc3", b"lock", b".lock", "é".as_bytes()];
    let maxlen = run.pick(3, 4);
    run.sub_with(
        "names",
        vkit::Opts::default().chunk(2048),
        |emit| {
            let mut names: Vec<Vec<u8>> = Vec::new();
            vkit::enumerate::strings(&toks, 1, maxlen, |s| {
                if s != b"." && s != b".." {
                    names.push(s.to_vec());
                }
            });
            names.sort();
            names.dedup();
            names.sort_by_key(|n| n.len());
            let nestings: Vec<Vec<B>> = vec![vec![], vec![B::from("d")], vec![B(b"d\xff.x".to_vec()), B::from("e.lock")]];
            for n in &names {
                for (ni, nested) in nestings.iter().enumerate() {
                    for kind in ["file", "marker"] {
                        for action in ["commit", "drop"] {
                            for exists in [false, true] {
                                if kind == "marker" && action == "commit" {
                                    continue;
                                }
                                if exists && ni == 2 {
                                    continue;
                                }
                                if run.quick() && ni > 0 && n.len() > 3 {
                                    continue;
                                }
                                emit(NameCase { name: B(n.clone()), nested: nested.clone(), kind: kind.into(), action: action.into(), resource_exists: exists, boundary_spelling: 0 });
                                // other spellings of the same boundary directory (short names only: the name plays no role here)
                                if ni > 0 && n.len() <= 2 {
                                    for sp in 1..=2u8 {
                                        emit(NameCase { name: B(n.clone()), nested: nested.clone(), kind: kind.into(), action: action.into(), resource_exists: exists, boundary_spelling: sp });
                                    }
                                }
                            }
                        }
                    }
                }
            }
        },
        eval_name,
    );

    let depth = run.pick(4, 5);
    let mut alphabet: Vec<Op> = Vec::new();
    for i in 0..2u8 {
        alphabet.extend([Op::Acquire(i), Op::Write(i), Op::Commit(i), Op::Drop(i)]);
    }
    alphabet.extend([Op::AcquireMarker(2), Op::Commit(2), Op::Drop(2), Op::Close(0), Op::OtherProcessTry]);
    run.sub_with(
        "histories",
        vkit::Opts::default().chunk(4096),
        |emit| {
            vkit::enumerate::seqs(&alphabet, 1, depth, |ops| {
                // prune histories whose first op is not an acquisition (nothing to do) and those with >1 process probe (slow)
                if !matches!(ops[0], Op::Acquire(_) | Op::AcquireMarker(_)) {
                    return;
                }
                if ops.iter().filter(|o| **o == Op::OtherProcessTry).count() > 1 {
                    return;
                }
                emit(History { ops: ops.to_vec(), resource_exists: ops.len() % 2 == 0 });
            });
        },
        |h: &History| eval_history(run, h),
    );
    run.require("some history had a refused acquisition", run.over_budget() || run.outcome_count("contended:3") > 0);
    thread_schedules(run);
}

// ---------------------------------------------------------------------------------------------------------------------------
// Part 3 (E3): thread schedules. 2-3 real threads acquire / write / commit / drop locks on one or two resources below not yet
// existing directories, on the controlled scheduler (harness/vsched/src/c22s.rs, built with the scheduler shim): ALL interleavings
// with at most b preemptions. One process per scenario, because gix-tempfile's registry is a process-wide static.

#[derive(Serialize, Deserialize, Hash, Clone, Debug)]
struct SchedCase {
    name: String,
    threads: Vec<Vec<(String, usize)>>,
    sibling: bool,
    depth: usize,
    resource_exists: bool,
    bound: usize,
    secs: u64,
    schedule: Option<Vec<usize>>,
}

#[derive(Deserialize, Debug)]
struct SchedReport {
    executions: u64,
    decisions: u64,
    max_steps: usize,
    complete: bool,
    outcomes: std::collections::BTreeMap<String, u64>,
    failure: Option<(Vec<usize>, String)>,
    per_bound: Vec<(usize, u64)>,
}

static SCHED_PER_CASE: std::sync::Mutex<Vec<String>> = std::sync::Mutex::new(Vec::new());

fn thread_schedules(run: &'static Run) {
    run.rule("thread schedules: 2 threads x 1 operation (every pair over {write+commit, write+close+commit, write+drop, marker+drop, commit without boundary}) and \
        selected 2x2 / 3x1 scenarios, on the same resource, on two resources in one directory and on two resources in sibling directories, 0..2 directories to create, \
        resource existing or not; ALL interleavings with at most b preemptions (b = 0,1,2; thorough 3) of the scheduling points {each directory creation/removal step, lock file creation, \
        rename, removal, every registry mutex operation, the id counter}, bounds iterated 0,1,.. inside one process per scenario; oracle per execution: never two holders of one resource, no lock file left, resource content = \
        value of the last committing holder (or untouched), exact directory listing below the boundary when no acquisition failed with an io error");
    let q = run.quick();
    let secs = run.pick(30, 900) as u64;
    let ops = ["WriteCommit", "WriteCloseCommit", "WriteDrop", "MarkDrop", "NoBoundaryCommit"];
    let mut cases: Vec<SchedCase> = Vec::new();
    let mut add = |name: String, threads: Vec<Vec<(&str, usize)>>, sibling: bool, depth: usize, exists: bool, bound: usize| {
        cases.push(SchedCase {
            name,
            threads: threads.into_iter().map(|t| t.into_iter().map(|(o, r)| (o.to_string(), r)).collect()).collect(),
            sibling,
            depth,
            resource_exists: exists,
            bound,
            secs,
            schedule: None,
        });
    };
    let max_bound = if q { 2 } else { 3 };
    {
        let bound = max_bound;
        for (i, a) in ops.iter().enumerate() {
            for b in &ops[i..] {
                for (r2, sibling) in [(0usize, false), (1, false), (1, true)] {
                    for depth in 0..=2usize {
                        for exists in [false, true] {
                            if sibling && depth == 0 {
                                continue;
                            }
                            // without a boundary nothing is created: the directories must be there
                            if (*a == "NoBoundaryCommit" || *b == "NoBoundaryCommit") && depth > 0 && !exists {
                                continue;
                            }
                            add(format!("{a}|{b}"), vec![vec![(*a, 0)], vec![(*b, r2)]], sibling, depth, exists, bound);
                        }
                    }
                }
            }
        }
    }
    // two operations per thread, and three threads
    let two: Vec<Vec<Vec<(&str, usize)>>> = vec![
        vec![vec![("WriteCommit", 0), ("WriteDrop", 0)], vec![("WriteDrop", 0), ("WriteCloseCommit", 0)]],
        vec![vec![("WriteDrop", 0), ("WriteCommit", 1)], vec![("WriteDrop", 1), ("WriteCommit", 0)]],
        vec![vec![("MarkDrop", 0), ("WriteCommit", 0)], vec![("WriteCommit", 0), ("MarkDrop", 1)]],
        vec![vec![("WriteCommit", 0)], vec![("WriteDrop", 0)], vec![("MarkDrop", 0)]],
        vec![vec![("WriteCommit", 0)], vec![("WriteDrop", 1)], vec![("WriteCloseCommit", 0)]],
        vec![vec![("WriteDrop", 0)], vec![("WriteDrop", 1)], vec![("WriteDrop", 0)]],
    ];
    for (i, t) in two.iter().enumerate() {
        let three = t.len() == 3;
        {
            let bound = if q { if three { 1 } else { 2 } } else { if three { 2 } else { 3 } };
            for sibling in [false, true] {
                add(format!("multi-{i}"), t.clone(), sibling, 2, false, bound);
            }
            if !q {
                add(format!("multi-{i}"), t.clone(), false, 1, true, bound);
            }
        }
    }
    cases.sort_by_key(|c| c.bound);
    run.sub_with("thread-schedules", vkit::Opts::default().chunk(64), |emit| cases.into_iter().for_each(|c| emit(c)), |c: &SchedCase| eval_sched(run, c));
    let mut per = SCHED_PER_CASE.lock().unwrap().clone();
    per.sort();
    run.cov("thread_schedule_explorations", per);
}

fn eval_sched(run: &Run, c: &SchedCase) -> Verdict {
    let bin = std::env::var_os("VERIF_BIN_VSCHED").unwrap_or_else(|| vkit::machinery!("VERIF_BIN_VSCHED is not set (./check builds vsched with the scheduler shim and sets it)"));
    let json = serde_json::to_string(c).unwrap();
    let mut cmd = std::process::Command::new(&bin);
    cmd.arg("--c22-sched").arg(&json).stdin(std::process::Stdio::null()).stderr(std::process::Stdio::piped());
    if c.schedule.is_some() {
        cmd.env("VSCHED_TRACE", "1");
    }
    let out = cmd.output().unwrap_or_else(|e| vkit::machinery!("cannot run {bin:?}: {e}"));
    let stdout = String::from_utf8_lossy(&out.stdout);
    let Some(line) = stdout.lines().find_map(|l| l.strip_prefix("C22S-REPORT ")) else {
        vkit::machinery!("scheduler child gave no report (status {:?}): {}", out.status, String::from_utf8_lossy(&out.stderr).chars().rev().take(1500).collect::<String>().chars().rev().collect::<String>())
    };
    let rep: SchedReport = serde_json::from_str(line).unwrap_or_else(|e| vkit::machinery!("bad report: {e}"));
    run.mc_transitions(rep.decisions);
    run.mc_validated(rep.executions);
    // distinct schedules = executions at the largest bound explored (smaller bounds are subsets of it)
    let distinct = rep.per_bound.last().map_or(0, |x| x.1);
    run.mc_states_bulk((0..distinct).map(|i| vkit::hash_of(&(c, i))));
    for (b, n) in &rep.per_bound {
        run.cov_add(&format!("thread_schedule_executions_bound_{b}"), *n);
    }
    SCHED_PER_CASE.lock().unwrap().push(format!(
        "{} res2={:?} sibling={} depth={} exists={} bounds=0..={}: executions per bound={:?} decisions={} max_steps={} complete={} outcomes={:?}",
        c.name, c.threads.last().and_then(|t| t.last()).map(|o| o.1), c.sibling, c.depth, c.resource_exists, c.bound, rep.per_bound, rep.decisions, rep.max_steps, rep.complete, rep.outcomes.keys().collect::<Vec<_>>()
    ));
    if let Some((schedule, what)) = rep.failure {
        if what.starts_with("MACHINERY") {
            vkit::machinery!("{what}");
        }
        let class = what.split(':').next().unwrap_or("violation").to_string();
        let msg = format!("{what} | threads {:?} depth {} sibling {} exists {} schedule={schedule:?} (choice indices)", c.threads, c.depth, c.sibling, c.resource_exists);
        if c.schedule.is_some() {
            if run.is_replay() {
                eprintln!("{}", String::from_utf8_lossy(&out.stderr));
            }
            return bad(&class, msg);
        }
        let mut with_schedule = c.clone();
        with_schedule.schedule = Some(schedule);
        // evaluate the case again with the schedule fixed: the same schedule must fail the same way (replay is deterministic)
        return match eval_sched(run, &with_schedule) {
            Err(_) => {
                run.violation("thread-schedules", &with_schedule, format!("{class}: {msg}"));
                ok_trivial("sched:violation-recorded")
            }
            Ok(_) => vkit::machinery!("schedule {:?} failed during exploration but not when replayed: {what}", with_schedule.schedule),
        };
    }
    if c.schedule.is_some() {
        return ok("sched:replayed-without-failure");
    }
    if !rep.complete {
        run.cap_hit(format!("thread-schedules {} bound {} not finished within {} s ({} executions done)", c.name, c.bound, c.secs, rep.executions));
        return ok("sched:capped");
    }
    if rep.outcomes.is_empty() {
        return bad("vacuous", "no execution completed");
    }
    let contended = rep.outcomes.keys().any(|k| k.contains("locked"));
    ok(format!("sched:b{}:{}:outcomes={}", c.bound, if contended { "contended" } else { "uncontended" }, rep.outcomes.len().min(6)))
}
