//! C20 — reference updates are crash-consistent (E4: the process is killed before every file-system syscall).
use crate::spec::*;
use serde::{Deserialize, Serialize};
use std::collections::{BTreeMap, BTreeSet};
use std::path::{Path, PathBuf};
use std::process::Command;
use std::sync::Mutex;
use vkit::{bad, ok, ok_trivial, Run, Verdict};

/// file-system syscalls that are kill points. `openat` cannot be filtered by flags, so read-only opens are points too
/// (they only duplicate states).
const SYSCALLS: &[&str] = &[
    "openat", "open", "creat", "write", "pwrite64", "writev", "rename", "renameat", "renameat2", "unlink", "unlinkat", "rmdir", "mkdir",
    "mkdirat", "link", "linkat", "symlink", "symlinkat", "ftruncate", "truncate", "fchmod", "chmod", "fchmodat", "utimensat", "fsync", "fdatasync",
];

const NAMES: &[&str] = &["HEAD", "refs/heads/a", "refs/heads/b", "refs/heads/sym", "refs/heads/new", "refs/tags/t", "refs/heads/a/x"];

struct Base {
    dir: PathBuf,
    ids: Vec<String>,
    /// ref name -> value as seen by git before the transaction
    old: BTreeMap<String, String>,
    packed_old: Option<Vec<u8>>,
    files_old: BTreeSet<String>,
}

fn worker_exe() -> PathBuf {
    std::env::current_exe().unwrap_or_else(|e| vkit::machinery!("current_exe: {e}"))
}

/// ref values the way git sees them: name -> "id:<hex>" | "sym:<target>"; broken refs are reported in `Err`.
fn git_view(git_dir: &Path) -> Result<BTreeMap<String, String>, String> {
    // git's answer depends only on HEAD, refs/ and packed-refs (objects never change): ask once per distinct content
    static MEMO: Mutex<BTreeMap<u64, Result<BTreeMap<String, String>, String>>> = Mutex::new(BTreeMap::new());
    let key = {
        let mut parts: Vec<(String, (char, u32, Vec<u8>))> = vkit::scratch::snapshot(&git_dir.join("refs")).into_iter().collect();
        parts.push(("HEAD".into(), ('f', 0, std::fs::read(git_dir.join("HEAD")).unwrap_or_default())));
        parts.push(("packed-refs".into(), ('f', 0, std::fs::read(git_dir.join("packed-refs")).unwrap_or(b"<none>".to_vec()))));
        vkit::hash_of(&parts)
    };
    if let Some(v) = MEMO.lock().unwrap().get(&key) {
        return v.clone();
    }
    let v = git_view_uncached(git_dir);
    MEMO.lock().unwrap().insert(key, v.clone());
    v
}

fn git_view_uncached(git_dir: &Path) -> Result<BTreeMap<String, String>, String> {
    let out = vkit::git::try_git(git_dir, &["for-each-ref", "--format=%(refname) %(objectname) %(symref)"]);
    if !out.ok || !out.stderr.is_empty() {
        return Err(format!("git for-each-ref: status {:?} stderr {:?}", out.code, out.err_text()));
    }
    let mut m = BTreeMap::new();
    for l in out.text().lines() {
        let mut it = l.split(' ');
        let (name, id, sym) = (it.next().unwrap_or(""), it.next().unwrap_or(""), it.next().unwrap_or(""));
        m.insert(name.to_string(), if sym.is_empty() { format!("id:{id}") } else { format!("sym:{sym}") });
    }
    // for-each-ref silently omits dangling symbolic refs: ask for the possibly symbolic names directly
    for name in ["refs/heads/sym", "refs/heads/new"] {
        if !m.contains_key(name) {
            let o = vkit::git::try_git(git_dir, &["symbolic-ref", "-q", name]);
            if o.ok {
                m.insert(name.to_string(), format!("sym:{}", o.text()));
            }
        }
    }
    let head = vkit::git::try_git(git_dir, &["symbolic-ref", "-q", "HEAD"]);
    if head.ok {
        m.insert("HEAD".into(), format!("sym:{}", head.text()));
    } else {
        let head = vkit::git::try_git(git_dir, &["rev-parse", "--verify", "-q", "HEAD"]);
        if head.ok {
            m.insert("HEAD".into(), format!("id:{}", head.text()));
        } else {
            return Err(format!("git cannot read HEAD: {}", head.err_text()));
        }
    }
    Ok(m)
}

/// ref values the way gitoxide sees them, for the names of the universe.
fn gix_view(git_dir: &Path) -> Result<BTreeMap<String, String>, String> {
    let store = crate::worker::store(git_dir.to_str().unwrap());
    let mut m = BTreeMap::new();
    for name in NAMES {
        match store.try_find(*name) {
            Ok(Some(r)) => {
                m.insert(
                    name.to_string(),
                    match r.target {
                        gix_ref::Target::Object(id) => format!("id:{id}"),
                        gix_ref::Target::Symbolic(n) => format!("sym:{}", n.as_bstr()),
                    },
                );
            }
            Ok(None) => {}
            // a name below an existing loose ref *file* (directory/file conflict) cannot exist: reading it fails with ENOTDIR
            Err(_) if Path::new(name).ancestors().skip(1).any(|a| !a.as_os_str().is_empty() && git_dir.join(a).is_file()) => {}
            Err(e) => return Err(format!("gitoxide cannot read {name}: {e}")),
        }
    }
    // iteration must work too
    match store.iter() {
        Ok(p) => match p.all() {
            Ok(it) => {
                for r in it {
                    if let Err(e) = r {
                        return Err(format!("gitoxide iteration fails: {e}"));
                    }
                }
            }
            Err(e) => return Err(format!("gitoxide iteration fails: {e}")),
        },
        Err(e) => return Err(format!("gitoxide cannot open packed-refs: {e}")),
    }
    Ok(m)
}

fn files_of(git_dir: &Path) -> BTreeSet<String> {
    vkit::scratch::snapshot(git_dir)
        .into_iter()
        .filter(|(p, (kind, _, _))| *kind != 'd' && !p.starts_with("objects/") && !p.starts_with("hooks/") && !p.starts_with("logs/"))
        .map(|(p, _)| p)
        .collect()
}

fn make_base(root: &Path, init: u8) -> Base {
    let dir = root.join(format!("base{init}"));
    vkit::git::init_bare(&dir);
    let g = |args: &[&str]| vkit::git::git_text(&dir, args);
    let tree = g(&["hash-object", "-w", "-t", "tree", "/dev/null"]);
    let c1 = g(&["commit-tree", "-m", "one", &tree]);
    let c2 = g(&["commit-tree", "-m", "two", "-p", &c1, &tree]);
    g(&["config", "core.logAllRefUpdates", "always"]);
    g(&["update-ref", "refs/heads/a", &c1]);
    g(&["update-ref", "refs/heads/b", &c1]);
    g(&["update-ref", "refs/tags/t", &c1]);
    g(&["symbolic-ref", "HEAD", "refs/heads/a"]);
    g(&["symbolic-ref", "refs/heads/sym", "refs/heads/b"]);
    if init >= 1 {
        g(&["pack-refs", "--all"]);
    }
    if init >= 2 {
        g(&["update-ref", "refs/heads/a", &c2]);
    }
    // the sample hooks and the description are irrelevant and only make every copy and snapshot slower
    let _ = std::fs::remove_dir_all(dir.join("hooks"));
    let _ = std::fs::remove_file(dir.join("description"));
    let old = git_view(&dir).unwrap_or_else(|e| vkit::machinery!("base store unreadable: {e}"));
    Base { packed_old: std::fs::read(dir.join("packed-refs")).ok(), files_old: files_of(&dir), dir, ids: vec![c1, c2], old }
}

fn spec_file(dir: &Path, git_dir: &Path, base: &Base, tx: &Tx, idle: bool) -> PathBuf {
    let p = dir.join("spec.json");
    let spec = WorkerSpec { git_dir: git_dir.display().to_string(), ids: base.ids.clone(), tx: tx.clone(), idle };
    std::fs::write(&p, serde_json::to_vec(&spec).unwrap()).unwrap_or_else(|e| vkit::machinery!("write spec: {e}"));
    p
}

/// run the worker under strace, tracing SYSCALLS; `inject` = Some((syscall, nth)) kills it right before that call.
/// Returns (exit code or None if killed, ordered list of traced syscall names)
fn run_worker(spec: &Path, log: Option<&Path>, inject: Option<(&str, usize)>) -> (Option<i32>, Vec<String>) {
    let mut c = Command::new("strace");
    c.arg("-qq").arg("-o").arg(log.map(|p| p.display().to_string()).unwrap_or("/dev/null".into()));
    match inject {
        // only the injected syscall needs to be traced for a crash run: fewer ptrace stops
        Some((name, nth)) => {
            c.arg("-e").arg(format!("trace={name}"));
            c.arg("-e").arg(format!("inject={name}:error=EIO:signal=KILL:when={nth}"));
        }
        None => {
            c.arg("-e").arg(format!("trace={}", SYSCALLS.join(",")));
        }
    }
    c.arg(worker_exe()).arg("--worker").arg(spec);
    c.env("RUST_BACKTRACE", "0");
    c.stdout(std::process::Stdio::null()).stderr(std::process::Stdio::null());
    let st = c.status().unwrap_or_else(|e| vkit::machinery!("cannot run strace: {e}"));
    let mut calls = Vec::new();
    if let Some(log) = log {
        for l in std::fs::read_to_string(log).unwrap_or_default().lines() {
            if let Some(p) = l.find('(') {
                let name = l[..p].trim();
                if SYSCALLS.contains(&name) {
                    // a read-only open changes nothing on disk: a crash before it equals a crash before the next mutating call
                    let read_only = name.starts_with("open") && l.contains("O_RDONLY");
                    calls.push(if read_only { format!("{name}:ro") } else { name.to_string() });
                }
            }
        }
    }
    (st.code(), calls)
}

#[derive(Serialize, Deserialize, Hash, Clone, Debug)]
struct CrashCase {
    tx: Tx,
    /// kill right before the nth invocation of this syscall (None = uninterrupted run)
    point: Option<(String, usize)>,
    /// position of the point in the transaction's syscall sequence (informational)
    index: usize,
}

struct Plan {
    /// per transaction: the syscalls after start-up, as (name, ordinal-of-that-syscall)
    points: Vec<(String, usize)>,
    new: BTreeMap<String, String>,
    packed_new: Option<Vec<u8>>,
    files_new: BTreeSet<String>,
    snap_new: u64,
    exit: Option<i32>,
}

fn snap_hash(git_dir: &Path) -> u64 {
    let s: Vec<_> = vkit::scratch::snapshot(git_dir).into_iter().filter(|(p, _)| !p.starts_with("objects/") && !p.starts_with("hooks/")).collect();
    vkit::hash_of(&s)
}

fn alphabet(run: &Run) -> Vec<Tx> {
    let q = run.quick();
    let mut txs = Vec::new();
    let upd = |name: &str, new: Val, exp: Exp, deref: bool| Ed { name: name.into(), new: Some(new), exp, deref, log_only: false };
    let del = |name: &str, exp: Exp, deref: bool| Ed { name: name.into(), new: None, exp, deref, log_only: false };
    // the richest initial store (packed refs + a loose ref shadowing a stale packed value) first: a capped run covers it first
    for init in [2u8, 1, 0] {
        let a_old = if init == 2 { Val::Id(2) } else { Val::Id(1) };
        for packed in 0..3u8 {
            let mut singles: Vec<Ed> = vec![
                upd("refs/heads/a", Val::Id(2), Exp::Any, false),
                upd("refs/heads/a", Val::Id(1), Exp::MustMatch(a_old.clone()), false),
                upd("refs/heads/b", Val::Id(2), Exp::MustMatch(Val::Id(1)), false),
                upd("refs/heads/new", Val::Id(2), Exp::MustNotExist, false),
                upd("refs/heads/new", Val::Sym("refs/heads/b".into()), Exp::Any, false),
                upd("HEAD", Val::Id(2), Exp::Any, true),
                upd("HEAD", Val::Id(2), Exp::Any, false),
                upd("HEAD", Val::Sym("refs/heads/b".into()), Exp::Any, false),
                upd("refs/heads/sym", Val::Id(2), Exp::Any, true),
                del("refs/heads/a", Exp::Any, false),
                del("refs/heads/b", Exp::MustMatch(Val::Id(1)), false),
                del("refs/tags/t", Exp::Any, false),
                del("refs/heads/sym", Exp::Any, false),
                del("refs/heads/sym", Exp::Any, true),
                upd("refs/heads/a/x", Val::Id(2), Exp::Any, false),
            ];
            if !q {
                singles.extend([
                    upd("refs/tags/t", Val::Id(2), Exp::ExistingMustMatch(Val::Id(1)), false),
                    upd("refs/heads/b", Val::Id(2), Exp::MustMatch(Val::Id(2)), false), // fails in prepare
                    upd("refs/heads/new", Val::Id(1), Exp::MustExist, false),          // fails in prepare
                    del("refs/heads/new", Exp::Any, false),
                    Ed { name: "refs/heads/a".into(), new: Some(Val::Id(2)), exp: Exp::Any, deref: false, log_only: true },
                ]);
            }
            for (ei, e) in singles.into_iter().enumerate() {
                // quick: the full single-edit alphabet on store 2 only; on the simpler stores a representative third
                // (update a, delete a, create new, HEAD through deref, delete tag) with two packed-refs modes
                if q && (init != 2 && !(matches!(ei, 0 | 3 | 9) && packed == 2 - init) || init == 2 && packed == 1 && !matches!(ei, 0 | 5 | 9 | 13)) {
                    continue;
                }
                txs.push(Tx { init, edits: vec![e], packed });
            }
            // two-edit transactions
            let mut pairs = vec![
                vec![upd("refs/heads/a", Val::Id(2), Exp::Any, false), upd("refs/heads/b", Val::Id(2), Exp::Any, false)],
                vec![del("refs/heads/a", Exp::Any, false), upd("refs/heads/new", Val::Id(2), Exp::MustNotExist, false)],
                vec![upd("HEAD", Val::Id(2), Exp::Any, true), del("refs/tags/t", Exp::Any, false)],
            ];
            if !q {
                pairs.push(vec![del("refs/heads/a", Exp::Any, false), del("refs/heads/b", Exp::Any, false), del("refs/tags/t", Exp::Any, false)]);
                pairs.push(vec![upd("refs/heads/sym", Val::Id(2), Exp::Any, true), upd("refs/heads/new", Val::Sym("refs/heads/a".into()), Exp::Any, false)]);
            }
            for p in pairs {
                if q && (packed == 1 || init != 2) {
                    continue;
                }
                txs.push(Tx { init, edits: p, packed });
            }
        }
    }
    txs
}

pub fn run(run: &'static Run) {
    run.rule("reference transactions (1-3 edits: update to id / symbolic, create, delete, through symbolic refs (deref), with CAS expectations, incl. a D/F conflict and failing expectations) \
        x 3 packed-refs modes x 3 initial stores (loose / packed / packed with a shadowing loose ref); for each transaction the worker process is killed (SIGKILL) right before EVERY \
        file-system syscall it issues after start-up (open*/write/rename/unlink/mkdir/rmdir/link/fsync/...: strace fault injection, no hooks), then the store is read by gitoxide and git; \
        non-trivial = (transaction, crash point) whose on-disk state differs from both the initial and the completed state");
    run.assume("crash = process death with an intact kernel page cache (power loss / unsynced data is not modelled)");
    run.assume("trusted: strace 6.1 syscall tampering kills the tracee before the selected call executes; git 2.39.5 for-each-ref/symbolic-ref as second reader");
    run.budget_secs(run.pick(45.0, 900.0));
    let root = vkit::scratch::Dir::new("c20");
    let bases: Vec<Base> = (0..3).map(|i| make_base(root.path(), i)).collect();

    // start-up syscalls: counted once with an idle worker
    let idle_counts: BTreeMap<String, usize> = {
        let d = vkit::scratch::Dir::new("idle");
        let gd = d.join("repo.git");
        vkit::scratch::copy_tree(&bases[0].dir, &gd).unwrap_or_else(|e| vkit::machinery!("copy: {e}"));
        let tx = Tx { init: 0, edits: vec![], packed: 0 };
        let spec = spec_file(d.path(), &gd, &bases[0], &tx, true);
        let log = d.join("log");
        let (code, calls) = run_worker(&spec, Some(&log), None);
        if code != Some(0) {
            vkit::machinery!("idle worker failed: {code:?}");
        }
        let mut m = BTreeMap::new();
        for c in calls {
            *m.entry(c.trim_end_matches(":ro").to_string()).or_default() += 1;
        }
        m
    };
    run.cov("startup_syscalls_skipped", &idle_counts);

    // phase 1: uninterrupted run of every transaction -> its syscall sequence and final state
    let plans: Mutex<BTreeMap<u64, Plan>> = Mutex::new(BTreeMap::new());
    let mut txs = if run.is_replay() { Vec::new() } else { alphabet(run) };
    if let Some(n) = std::env::var("VERIF_C20_MAX_TX").ok().and_then(|s| s.parse::<usize>().ok()) {
        // development aid only: look at a slice of the alphabet (reported as a cap)
        let step = (txs.len() / n.max(1)).max(1);
        txs = txs.into_iter().step_by(step).collect();
        run.cap_hit("VERIF_C20_MAX_TX set: only a slice of the transaction alphabet was explored");
    }
    let plan_for = |tx: &Tx| -> Plan {
        let base = &bases[tx.init as usize];
        let d = vkit::scratch::Dir::new("plan");
        let gd = d.join("repo.git");
        vkit::scratch::copy_tree(&base.dir, &gd).unwrap_or_else(|e| vkit::machinery!("copy: {e}"));
        let spec = spec_file(d.path(), &gd, base, tx, false);
        let log = d.join("log");
        let (code, calls) = run_worker(&spec, Some(&log), None);
        let mut seen: BTreeMap<String, usize> = BTreeMap::new();
        let mut points = Vec::new();
        for c in calls {
            let read_only = c.ends_with(":ro");
            let c = c.trim_end_matches(":ro").to_string();
            let n = seen.entry(c.clone()).or_default();
            *n += 1;
            if *n > idle_counts.get(&c).copied().unwrap_or(0) && !read_only {
                points.push((c, *n));
            }
        }
        let new = git_view(&gd).unwrap_or_else(|e| vkit::machinery!("store unreadable after an uninterrupted transaction {tx:?}: {e}"));
        Plan { points, new, packed_new: std::fs::read(gd.join("packed-refs")).ok(), files_new: files_of(&gd), snap_new: snap_hash(&gd), exit: code }
    };
    run.sub_with(
        "uninterrupted",
        vkit::Opts::default().chunk(64),
        |emit| txs.iter().for_each(|t| emit(t.clone())),
        |tx: &Tx| -> Verdict {
            let p = plan_for(tx);
            let class = match p.exit {
                Some(0) => "committed",
                Some(3) => "prepare-refused",
                Some(4) => "commit-failed",
                _ => return bad("worker-died", format!("worker exit {:?} without fault injection", p.exit)),
            };
            // a refused transaction must leave everything as it was, and no lock files
            if p.exit != Some(0) {
                let base = &bases[tx.init as usize];
                if p.new != base.old || p.files_new != base.files_old {
                    return bad("refused-but-changed", format!("refs {:?} -> {:?}, files added {:?}", base.old, p.new, p.files_new.difference(&base.files_old).collect::<Vec<_>>()));
                }
            }
            plans.lock().unwrap().insert(vkit::hash_of(tx), p);
            if class == "committed" { ok(class) } else { ok_trivial(class) }
        },
    );

    // phase 2: every crash point of every transaction
    let total_points: usize = plans.lock().unwrap().values().map(|p| p.points.len()).sum();
    run.cov("syscalls_counted", total_points);
    let eval = |c: &CrashCase| -> Verdict {
        let base = &bases[c.tx.init as usize];
        let plan_owned;
        let guard = plans.lock().unwrap();
        let plan: &Plan = match guard.get(&vkit::hash_of(&c.tx)) {
            Some(p) => p,
            None => {
                drop(guard);
                plan_owned = plan_for(&c.tx);
                return check_crash(base, &plan_owned, c);
            }
        };
        // copy what we need and release the lock before running processes
        let plan_copy = Plan {
            points: Vec::new(),
            new: plan.new.clone(),
            packed_new: plan.packed_new.clone(),
            files_new: plan.files_new.clone(),
            snap_new: plan.snap_new,
            exit: plan.exit,
        };
        drop(guard);
        check_crash(base, &plan_copy, c)
    };
    let cases: Vec<CrashCase> = {
        let g = plans.lock().unwrap();
        let mut v = Vec::new();
        for tx in &txs {
            if let Some(p) = g.get(&vkit::hash_of(tx)) {
                for (i, (name, nth)) in p.points.iter().enumerate() {
                    v.push(CrashCase { tx: tx.clone(), point: Some((name.clone(), *nth)), index: i });
                }
            }
        }
        v
    };
    let n_cases = cases.len();
    run.sub_with("crash", vkit::Opts::default().chunk(256), |emit| cases.into_iter().for_each(|c| emit(c)), eval);
    run.cov("syscalls_injected", run.sub_evaluations("crash"));
    run.cov("phase_seconds_copy_strace_gitview_gixview", T_US.iter().map(|a| a.load(std::sync::atomic::Ordering::Relaxed) as f64 / 1e6).collect::<Vec<_>>());
    run.require("every counted syscall was used as a crash point", run.over_budget() || run.sub_evaluations("crash") as usize == n_cases);
    run.require("some crash left a genuinely intermediate state", run.outcome_count("intermediate-state") > 0);
}

static T_US: [std::sync::atomic::AtomicU64; 5] = [const { std::sync::atomic::AtomicU64::new(0) }; 5];
fn lap(i: usize, t: &mut std::time::Instant) {
    T_US[i].fetch_add(t.elapsed().as_micros() as u64, std::sync::atomic::Ordering::Relaxed);
    *t = std::time::Instant::now();
}

fn check_crash(base: &Base, plan: &Plan, c: &CrashCase) -> Verdict {
    let mut t = std::time::Instant::now();
    let d = vkit::scratch::Dir::new("crash");
    let gd = d.join("repo.git");
    vkit::scratch::copy_tree(&base.dir, &gd).unwrap_or_else(|e| vkit::machinery!("copy: {e}"));
    let spec = spec_file(d.path(), &gd, base, &c.tx, false);
    let snap_old = snap_hash(&gd);
    let inject = c.point.as_ref().map(|(n, k)| (n.as_str(), *k));
    lap(0, &mut t);
    let (code, _) = run_worker(&spec, None, inject);
    lap(1, &mut t);
    if inject.is_some() && code.is_some() {
        // the injection point was not reached (the run is deterministic, so this is a machinery problem)
        vkit::machinery!("fault injection at {:?} did not kill the worker (exit {code:?}) for {:?}", c.point, c.tx);
    }
    // ---- recovery oracle ----
    let allowed = |name: &str, v: Option<&String>| -> bool { v == base.old.get(name) || v == plan.new.get(name) };
    let gv = match git_view(&gd) {
        Ok(v) => v,
        Err(e) => return bad("git-cannot-read", e),
    };
    let names: BTreeSet<&String> = base.old.keys().chain(plan.new.keys()).chain(gv.keys()).collect();
    for n in &names {
        if !allowed(n, gv.get(*n)) {
            return bad("ref-neither-old-nor-new", format!("git reads {n} = {:?}; old {:?} new {:?}", gv.get(*n), base.old.get(*n), plan.new.get(*n)));
        }
    }
    lap(2, &mut t);
    let xv = match gix_view(&gd) {
        Ok(v) => v,
        Err(e) => return bad("gitoxide-cannot-read", e),
    };
    for n in NAMES {
        let n = n.to_string();
        if !allowed(&n, xv.get(&n)) {
            return bad("ref-neither-old-nor-new", format!("gitoxide reads {n} = {:?}; old {:?} new {:?}", xv.get(&n), base.old.get(&n), plan.new.get(&n)));
        }
        if xv.get(&n) != gv.get(&n) {
            return bad("readers-disagree", format!("{n}: gitoxide {:?} git {:?}", xv.get(&n), gv.get(&n)));
        }
    }
    lap(3, &mut t);
    let packed = std::fs::read(gd.join("packed-refs")).ok();
    if packed != base.packed_old && packed != plan.packed_new {
        return bad("packed-refs-torn", format!("packed-refs is neither the old nor the new file: {:?}", packed.map(|b| String::from_utf8_lossy(&b).into_owned())));
    }
    let files = files_of(&gd);
    for f in &files {
        if !base.files_old.contains(f) && !plan.files_new.contains(f) && !f.ends_with(".lock") {
            return bad("leftover", format!("leftover file {f} is not a lock file"));
        }
    }
    let snap = snap_hash(&gd);
    if snap != snap_old && snap != plan.snap_new {
        ok("intermediate-state")
    } else if snap == snap_old {
        ok_trivial("state-unchanged")
    } else {
        ok_trivial("state-complete")
    }
}
