//! C23 — registered tempfiles are removed when the process is told to terminate.
//! E4: a worker performs a sequence of tempfile operations; a termination signal is delivered right after EVERY syscall it
//! issues after start-up (strace `inject=<syscall>:signal=<SIG>:when=<n>`, one run per point), then the directory is
//! inspected in the parent. Plus: signals raised inside a forked child at every operation boundary (owning-pid filter).
use serde::{Deserialize, Serialize};
use std::collections::{BTreeMap, BTreeSet};
use std::io::Write;
use std::path::{Path, PathBuf};
use std::process::Command;
use std::sync::Mutex;
use vkit::{bad, ok, ok_trivial, Run, Verdict};

#[derive(Serialize, Deserialize, Hash, Clone, Debug, PartialEq, Eq)]
pub enum TOp {
    /// tempfile with a generated name in the directory
    New(u8),
    /// tempfile at <dir>/t<i>.tmp
    At(u8),
    /// closed marker tempfile at <dir>/t<i>.tmp
    Mark(u8),
    Write(u8),
    Close(u8),
    /// persist to <dir>/p<i>
    Persist(u8),
    Drop(u8),
    /// take ownership away from the registry (the caller keeps the file until it exits)
    Take(u8),
}

#[derive(Serialize, Deserialize, Clone, Debug)]
pub struct TSpec {
    pub dir: String,
    pub log: String,
    pub ops: Vec<TOp>,
    pub idle: bool,
    /// fork after this many operations; the child raises `signal` on itself after `child_ops` further operations of its own
    pub fork_after: Option<usize>,
    pub child_ops: Vec<TOp>,
    pub child_signal_after: usize,
    pub signal: i32,
}

enum H {
    W(gix_tempfile::Handle<gix_tempfile::handle::Writable>),
    C(gix_tempfile::Handle<gix_tempfile::handle::Closed>),
}

fn apply(dir: &Path, slots: &mut BTreeMap<u8, H>, taken: &mut Vec<Box<dyn std::any::Any>>, op: &TOp) {
    use gix_tempfile::{AutoRemove, ContainingDirectory};
    match op {
        TOp::New(i) => {
            slots.insert(*i, H::W(gix_tempfile::new(dir, ContainingDirectory::Exists, AutoRemove::Tempfile).expect("new")));
        }
        TOp::At(i) => {
            slots.insert(*i, H::W(gix_tempfile::writable_at(dir.join(format!("t{i}.tmp")), ContainingDirectory::Exists, AutoRemove::Tempfile).expect("at")));
        }
        TOp::Mark(i) => {
            slots.insert(*i, H::C(gix_tempfile::mark_at(dir.join(format!("t{i}.tmp")), ContainingDirectory::Exists, AutoRemove::Tempfile).expect("mark")));
        }
        TOp::Write(i) => {
            if let Some(H::W(h)) = slots.get_mut(i) {
                h.write_all(format!("v{i}").as_bytes()).expect("write");
            }
        }
        TOp::Close(i) => {
            if let Some(H::W(h)) = slots.remove(i) {
                slots.insert(*i, H::C(h.close().expect("close")));
            }
        }
        TOp::Persist(i) => match slots.remove(i) {
            Some(H::W(h)) => {
                h.persist(dir.join(format!("p{i}"))).expect("persist");
            }
            Some(H::C(h)) => {
                h.persist(dir.join(format!("p{i}"))).expect("persist");
            }
            None => {}
        },
        TOp::Drop(i) => {
            slots.remove(i);
        }
        TOp::Take(i) => match slots.remove(i) {
            Some(H::W(h)) => taken.push(Box::new(h.take())),
            Some(H::C(h)) => taken.push(Box::new(h.take())),
            None => {}
        },
    }
}

/// `vcrash --tmp-worker <spec.json>`
pub fn worker(spec_path: &str) -> ! {
    let spec: TSpec = serde_json::from_slice(&std::fs::read(spec_path).expect("spec")).expect("spec json");
    gix_tempfile::signal::setup(gix_tempfile::signal::handler::Mode::DeleteTempfilesOnTerminationAndRestoreDefaultBehaviour);
    let dir = PathBuf::from(&spec.dir);
    let mut log = std::fs::OpenOptions::new().append(true).create(true).open(&spec.log).expect("log");
    // force creation of the registry (and the signal handlers) before the measured part
    drop(gix_tempfile::new(&dir, gix_tempfile::ContainingDirectory::Exists, gix_tempfile::AutoRemove::Tempfile).expect("warm-up"));
    if spec.idle {
        std::process::exit(0);
    }
    let mut slots = BTreeMap::new();
    let mut taken: Vec<Box<dyn std::any::Any>> = Vec::new();
    let mut names: BTreeMap<u8, String> = BTreeMap::new();
    for (j, op) in spec.ops.iter().enumerate() {
        if spec.fork_after == Some(j) {
            // SAFETY-free: libc::fork in a single-threaded process
            let pid = unsafe { libc::fork() };
            if pid == 0 {
                // child: its own operations, then a signal to itself
                let mut cslots = BTreeMap::new();
                let mut ctaken = Vec::new();
                for (k, cop) in spec.child_ops.iter().enumerate() {
                    if k == spec.child_signal_after {
                        unsafe { libc::raise(spec.signal) };
                    }
                    apply(&dir, &mut cslots, &mut ctaken, cop);
                }
                if spec.child_signal_after >= spec.child_ops.len() {
                    unsafe { libc::raise(spec.signal) };
                }
                // the handler terminates us; if we get here the signal did not kill the child
                std::process::exit(42);
            }
            let mut status = 0;
            unsafe { libc::waitpid(pid, &mut status, 0) };
            writeln!(log, "CHILD {}", status).ok();
            // the child's signal handler must not have touched the files this process owns
            for (i, name) in &names {
                if !dir.join(name).is_file() {
                    writeln!(log, "MISSING {i} {name}").ok();
                }
            }
        }
        writeln!(log, "S {j}").ok();
        match op {
            TOp::At(i) | TOp::Mark(i) => {
                names.insert(*i, format!("t{i}.tmp"));
            }
            TOp::Persist(i) | TOp::Drop(i) | TOp::Take(i) => {
                names.remove(i);
            }
            _ => {}
        }
        apply(&dir, &mut slots, &mut taken, op);
        writeln!(log, "E {j}").ok();
    }
    writeln!(log, "DONE").ok();
    drop(slots);
    drop(taken);
    std::process::exit(0)
}

/// `vcrash --tmp-lock-worker <dir> <n> <k> <signal>`: n idle marker tempfiles; a second thread holds the registry lock of entry k
/// (as a thread in the middle of a registry mutation would) while the signal arrives in the main thread.
pub fn lock_worker(dir: &str, n: usize, k: usize, signal: i32) -> ! {
    use gix_tempfile::{AutoRemove, ContainingDirectory};
    gix_tempfile::signal::setup(gix_tempfile::signal::handler::Mode::DeleteTempfilesOnTerminationAndRestoreDefaultBehaviour);
    let dir = PathBuf::from(dir);
    drop(gix_tempfile::new(&dir, ContainingDirectory::Exists, AutoRemove::Tempfile).expect("warm-up"));
    let base = gix_tempfile::registry::verif::next_index();
    let handles: Vec<_> = (0..n).map(|i| gix_tempfile::mark_at(dir.join(format!("m{i}.tmp")), ContainingDirectory::Exists, AutoRemove::Tempfile).expect("mark")).collect();
    let (tx, rx) = std::sync::mpsc::channel();
    std::thread::spawn(move || {
        let guard = gix_tempfile::registry::verif::lock_entry(base + k);
        tx.send(guard.is_some()).ok();
        loop {
            std::thread::park();
        }
    });
    if !rx.recv().unwrap_or(false) {
        std::process::exit(43);
    }
    let locked: Vec<usize> = (0..n).filter(|i| gix_tempfile::registry::verif::entry_is_locked(base + i)).collect();
    std::fs::write(dir.join("LOCKED"), locked.iter().map(|i| i.to_string()).collect::<Vec<_>>().join(" ")).expect("write");
    unsafe { libc::raise(signal) };
    drop(handles);
    std::process::exit(42)
}

/// `vcrash --tmp-churn-worker <dir> <churn> <style> <signal>`: three registered tempfiles of different kinds are created FIRST and kept,
/// then `churn` short-lived tempfiles come and go (style 0: dropped, 1: persisted, 2: every second one kept alive), then the signal arrives.
pub fn churn_worker(dir: &str, churn: usize, style: usize, signal: i32) -> ! {
    use gix_tempfile::{AutoRemove, ContainingDirectory};
    use std::io::Write;
    gix_tempfile::signal::setup(gix_tempfile::signal::handler::Mode::DeleteTempfilesOnTerminationAndRestoreDefaultBehaviour);
    let dir = PathBuf::from(dir);
    let mut w = gix_tempfile::writable_at(dir.join("old-writable.lock"), ContainingDirectory::Exists, AutoRemove::Tempfile).expect("writable");
    w.write_all(b"x").expect("write");
    let m = gix_tempfile::mark_at(dir.join("old-marker.lock"), ContainingDirectory::Exists, AutoRemove::Tempfile).expect("mark");
    let sub = dir.join("old-dir");
    std::fs::create_dir(&sub).expect("mkdir");
    let n = gix_tempfile::new(&sub, ContainingDirectory::Exists, AutoRemove::Tempfile).expect("new");
    let churn_dir = dir.join("churn");
    std::fs::create_dir(&churn_dir).expect("mkdir");
    let mut kept = Vec::new();
    for i in 0..churn {
        let t = gix_tempfile::mark_at(churn_dir.join(format!("c{i}.tmp")), ContainingDirectory::Exists, AutoRemove::Tempfile).expect("churn");
        match style {
            0 => drop(t),
            1 => {
                t.persist(churn_dir.join(format!("p{i}"))).expect("persist");
            }
            _ => {
                if i % 2 == 0 {
                    kept.push(t)
                } else {
                    drop(t)
                }
            }
        }
    }
    std::fs::write(dir.join("READY"), b"").expect("write");
    unsafe { libc::raise(signal) };
    drop((w, m, n, kept));
    std::process::exit(42)
}

// ---------------------------------------------------------------------------------------------------------------------

fn exe() -> PathBuf {
    std::env::current_exe().unwrap_or_else(|e| vkit::machinery!("current_exe: {e}"))
}

/// run the worker under strace; `inject` = deliver `signal` right after the nth invocation of the named syscall.
fn run_worker(spec: &Path, log: Option<&Path>, inject: Option<(&str, usize, i32)>) -> (Option<i32>, Vec<String>) {
    let mut c = Command::new("strace");
    c.arg("-qq").arg("-o").arg(log.map(|p| p.display().to_string()).unwrap_or("/dev/null".into()));
    match inject {
        Some((name, nth, sig)) => {
            c.arg("-e").arg(format!("trace={name}"));
            c.arg("-e").arg(format!("inject={name}:signal={sig}:when={nth}"));
        }
        None => {
            c.arg("-e").arg("trace=all");
        }
    }
    c.arg(exe()).arg("--tmp-worker").arg(spec);
    c.env("RUST_BACKTRACE", "0");
    c.stdout(std::process::Stdio::null()).stderr(std::process::Stdio::null());
    let st = c.status().unwrap_or_else(|e| vkit::machinery!("cannot run strace: {e}"));
    let mut calls = Vec::new();
    if let Some(log) = log {
        for l in std::fs::read_to_string(log).unwrap_or_default().lines() {
            if let Some(p) = l.find('(') {
                let name = l[..p].trim();
                if !name.is_empty() && name.chars().all(|c| c.is_ascii_alphanumeric() || c == '_') {
                    calls.push(name.to_string());
                }
            }
        }
    }
    (st.code(), calls)
}

#[derive(Serialize, Deserialize, Hash, Clone, Debug)]
struct SigCase {
    ops: Vec<TOp>,
    /// signal right after the nth invocation of this syscall; None = no signal
    point: Option<(String, usize)>,
    index: usize,
    signal: i32,
}

#[derive(Serialize, Deserialize, Hash, Clone, Debug)]
struct ForkCase {
    ops: Vec<TOp>,
    fork_after: usize,
    child_ops: Vec<TOp>,
    child_signal_after: usize,
    signal: i32,
}

/// model of what may / must be in the directory, derived from the worker's own progress log
struct Expect {
    /// files that may legitimately remain (persisted targets, taken files)
    may: BTreeSet<String>,
    /// files that must exist with this content
    must: BTreeMap<String, Vec<u8>>,
    /// kind of the operation that was in flight when the process died (None = between operations / finished)
    in_flight: Option<String>,
    finished: bool,
}

fn kind_of(op: &TOp) -> &'static str {
    match op {
        TOp::New(_) => "new",
        TOp::At(_) => "at",
        TOp::Mark(_) => "mark",
        TOp::Write(_) => "write",
        TOp::Close(_) => "close",
        TOp::Persist(_) => "persist",
        TOp::Drop(_) => "drop",
        TOp::Take(_) => "take",
    }
}

fn expectation(ops: &[TOp], log: &str) -> Expect {
    let mut started = BTreeSet::new();
    let mut ended = BTreeSet::new();
    let mut finished = false;
    for l in log.lines() {
        if let Some(n) = l.strip_prefix("S ") {
            started.insert(n.trim().parse::<usize>().unwrap_or(usize::MAX));
        } else if let Some(n) = l.strip_prefix("E ") {
            ended.insert(n.trim().parse::<usize>().unwrap_or(usize::MAX));
        } else if l.starts_with("DONE") {
            finished = true;
        }
    }
    let mut may = BTreeSet::new();
    let mut must = BTreeMap::new();
    let mut written: BTreeMap<u8, Vec<u8>> = BTreeMap::new();
    let mut exists: BTreeSet<u8> = BTreeSet::new();
    let mut in_flight = None;
    for (j, op) in ops.iter().enumerate() {
        let done = ended.contains(&j);
        let running = started.contains(&j) && !done;
        if !done && !running {
            break;
        }
        if running {
            in_flight = Some(kind_of(op).to_string());
        }
        match op {
            TOp::New(i) | TOp::At(i) | TOp::Mark(i) => {
                if done {
                    exists.insert(*i);
                    written.insert(*i, Vec::new());
                }
            }
            TOp::Write(i) => {
                if exists.contains(i) {
                    // a write in flight may or may not have reached the file
                    if done {
                        written.entry(*i).or_default().extend_from_slice(format!("v{i}").as_bytes());
                    }
                }
            }
            TOp::Persist(i) => {
                if exists.contains(i) {
                    may.insert(format!("p{i}"));
                    if done {
                        must.insert(format!("p{i}"), written.get(i).cloned().unwrap_or_default());
                        exists.remove(i);
                    }
                }
            }
            TOp::Take(i) => {
                if exists.contains(i) {
                    // a taken file is the caller's: it stays until the caller drops it (which our worker does only at exit)
                    may.insert(format!("t{i}.tmp"));
                    may.insert("<generated>".into());
                    if done {
                        exists.remove(i);
                    }
                }
            }
            TOp::Drop(i) => {
                if done {
                    exists.remove(i);
                }
            }
            TOp::Close(_) => {}
        }
    }
    Expect { may, must, in_flight, finished }
}

fn inspect(dir: &Path, e: &Expect, died_by_signal: bool) -> Verdict {
    let mut leftovers = Vec::new();
    for ent in std::fs::read_dir(dir).unwrap_or_else(|e| vkit::machinery!("read_dir: {e}")).flatten() {
        let name = ent.file_name().to_string_lossy().into_owned();
        let generated = name.starts_with(".tmp");
        let allowed = e.may.contains(&name) || (generated && e.may.contains("<generated>"));
        if !allowed {
            leftovers.push(name);
        }
    }
    for (name, content) in &e.must {
        match std::fs::read(dir.join(name)) {
            Ok(c) if &c == content => {}
            Ok(c) => return bad("persisted-content", format!("{name} holds {:?}, expected {:?}", String::from_utf8_lossy(&c), String::from_utf8_lossy(content))),
            Err(_) => return bad("persisted-removed", format!("{name} was persisted before the signal but is gone")),
        }
    }
    if !leftovers.is_empty() {
        leftovers.sort();
        let class = match (&e.in_flight, e.finished) {
            (Some(k), _) => format!("leak-during-{k}"),
            (None, true) => "leak-after-exit".to_string(),
            (None, false) => "leak-between-operations".to_string(),
        };
        // a tempfile that is being created is not registered yet: outside the property ("registered tempfiles")
        if matches!(e.in_flight.as_deref(), Some("new" | "at" | "mark")) {
            return ok_trivial("signal-during-creation-before-registration");
        }
        return bad(&class, format!("files left behind: {leftovers:?}"));
    }
    if died_by_signal {
        ok(match &e.in_flight {
            Some(k) => format!("clean-during-{k}"),
            None => "clean-between-operations".into(),
        })
    } else {
        ok_trivial("no-signal-delivered")
    }
}

fn sequences(max_len: usize) -> Vec<Vec<TOp>> {
    // valid operation sequences over two handles, generated from a small state machine: state per handle = none|writable|closed
    #[derive(Clone, Copy, PartialEq)]
    enum S {
        None,
        W,
        C,
    }
    fn rec(cur: &mut Vec<TOp>, st: [S; 2], max_len: usize, out: &mut Vec<Vec<TOp>>) {
        if !cur.is_empty() {
            out.push(cur.clone());
        }
        if cur.len() == max_len {
            return;
        }
        for i in 0..2u8 {
            let s = st[i as usize];
            let mut next: Vec<(TOp, S)> = Vec::new();
            match s {
                S::None => {
                    if i == 0 {
                        next.push((TOp::New(0), S::W));
                        next.push((TOp::At(0), S::W));
                    } else if st[0] != S::None || cur.is_empty() {
                        next.push((TOp::At(1), S::W));
                        next.push((TOp::Mark(1), S::C));
                    }
                }
                S::W => {
                    next.push((TOp::Write(i), S::W));
                    next.push((TOp::Close(i), S::C));
                    next.push((TOp::Persist(i), S::None));
                    next.push((TOp::Drop(i), S::None));
                    next.push((TOp::Take(i), S::None));
                }
                S::C => {
                    next.push((TOp::Persist(i), S::None));
                    next.push((TOp::Drop(i), S::None));
                    next.push((TOp::Take(i), S::None));
                }
            }
            for (op, ns) in next {
                // never re-create a handle in the same sequence (keeps names unique)
                if matches!(op, TOp::New(_) | TOp::At(_) | TOp::Mark(_)) && cur.iter().any(|o| matches!(o, TOp::New(j) | TOp::At(j) | TOp::Mark(j) if *j == i)) {
                    continue;
                }
                let mut st2 = st;
                st2[i as usize] = ns;
                cur.push(op);
                rec(cur, st2, max_len, out);
                cur.pop();
            }
        }
    }
    let mut out = Vec::new();
    rec(&mut Vec::new(), [S::None, S::None], max_len, &mut out);
    out.sort_by_key(|s| s.len());
    out
}

fn write_spec(d: &Path, spec: &TSpec) -> PathBuf {
    let p = d.join("spec.json");
    std::fs::write(&p, serde_json::to_vec(spec).unwrap()).unwrap_or_else(|e| vkit::machinery!("write spec: {e}"));
    p
}

pub fn run(run: &'static Run) {
    run.rule("worker = every valid sequence of <= 3 (quick) / 4 (thorough) operations over {new, at(path), mark(path), write, close, persist, drop, take} on two handles; \
        a termination signal (SIGTERM; thorough also SIGINT, SIGQUIT) is delivered right after EVERY syscall the worker issues after start-up (one run per (sequence, syscall occurrence)); \
        oracle in the parent after the worker is gone: no tempfile of a live, not persisted/taken handle remains; files persisted before the signal exist with the written content; \
        fork cases: the worker forks at every position, the child performs 0-2 operations of its own and raises the signal on itself at every operation boundary: \
        the parent's tempfiles must survive and the parent must complete normally; non-trivial = the signal killed the worker and the directory was inspected");
    run.assume("signal points are syscall boundaries (a signal between two syscalls is handled when the next one returns to user space at the latest; user-space-only windows inside dashmap shard locks are not enumerable)");
    run.assume("a tempfile whose creation is in flight is not registered yet and is outside the property; trusted: strace 6.1 signal injection");
    run.budget_secs(run.pick(45.0, 1200.0));
    let root = vkit::scratch::Dir::new("c23");

    // start-up syscalls of an idle worker (handler installation, registry creation, warm-up tempfile)
    let idle_counts: BTreeMap<String, usize> = {
        let d = root.join("idle");
        std::fs::create_dir_all(d.join("work")).unwrap();
        let spec = TSpec { dir: d.join("work").display().to_string(), log: d.join("log").display().to_string(), ops: vec![], idle: true, fork_after: None, child_ops: vec![], child_signal_after: 0, signal: 15 };
        let sp = write_spec(&d, &spec);
        let (code, calls) = run_worker(&sp, Some(&d.join("strace")), None);
        if code != Some(0) {
            vkit::machinery!("idle tempfile worker failed: {code:?}");
        }
        let mut m = BTreeMap::new();
        for c in calls {
            *m.entry(c).or_default() += 1;
        }
        m
    };

    let mut seqs = if run.is_replay() { Vec::new() } else { sequences(run.pick(3, 4)) };
    if run.quick() {
        // quick: all sequences of <= 2 operations, and of the 3-operation ones those that end in an operation with a registry window
        seqs.retain(|s| s.len() <= 2 || matches!(s.last(), Some(TOp::Persist(_) | TOp::Close(_) | TOp::Take(_))) && matches!(s[0], TOp::At(0)));
    }
    let signals: Vec<i32> = if run.quick() { vec![15] } else { vec![15, 2, 3] };
    // phase 1: uninterrupted run of every sequence: its syscall points; it must leave only persisted files
    let points: Mutex<BTreeMap<u64, Vec<(String, usize)>>> = Mutex::new(BTreeMap::new());
    let plan = |ops: &[TOp]| -> Result<Vec<(String, usize)>, String> {
        let d = vkit::scratch::Dir::new("c23p");
        std::fs::create_dir_all(d.join("work")).unwrap();
        let spec = TSpec { dir: d.join("work").display().to_string(), log: d.join("log").display().to_string(), ops: ops.to_vec(), idle: false, fork_after: None, child_ops: vec![], child_signal_after: 0, signal: 15 };
        let sp = write_spec(d.path(), &spec);
        let (code, calls) = run_worker(&sp, Some(&d.join("strace")), None);
        if code != Some(0) {
            return Err(format!("worker-failed: exit {code:?} without any signal"));
        }
        let log = std::fs::read_to_string(d.join("log")).unwrap_or_default();
        let mut e = expectation(ops, &log);
        e.may.remove("<generated>");
        e.may.retain(|n| !n.ends_with(".tmp")); // taken files are dropped by the worker at exit
        if let Err(m) = inspect(&d.join("work"), &e, false) {
            return Err(m);
        }
        let mut seen: BTreeMap<String, usize> = BTreeMap::new();
        let mut pts = Vec::new();
        for c in calls {
            let n = seen.entry(c.clone()).or_default();
            *n += 1;
            if *n > idle_counts.get(&c).copied().unwrap_or(0) && c != "exit_group" {
                pts.push((c, *n));
            }
        }
        Ok(pts)
    };
    run.sub_with(
        "uninterrupted",
        vkit::Opts::default().chunk(64),
        |emit| seqs.iter().for_each(|s| emit(s.clone())),
        |ops: &Vec<TOp>| -> Verdict {
            match plan(ops) {
                Ok(p) => {
                    points.lock().unwrap().insert(vkit::hash_of(ops), p);
                    ok("completed")
                }
                Err(m) => Err(m),
            }
        },
    );
    let cases: Vec<SigCase> = {
        let g = points.lock().unwrap();
        let mut v = Vec::new();
        for ops in &seqs {
            if let Some(p) = g.get(&vkit::hash_of(ops)) {
                for &sig in &signals {
                    // secondary signals only for sequences of <= 2 operations
                    if sig != 15 && ops.len() > 2 {
                        continue;
                    }
                    for (i, (name, nth)) in p.iter().enumerate() {
                        v.push(SigCase { ops: ops.clone(), point: Some((name.clone(), *nth)), index: i, signal: sig });
                    }
                }
            }
        }
        v
    };
    run.cov("syscalls_counted", cases.len());
    run.sub_with(
        "signal",
        vkit::Opts::default().chunk(512),
        |emit| cases.into_iter().for_each(|c| emit(c)),
        |c: &SigCase| -> Verdict {
            let d = vkit::scratch::Dir::new("c23s");
            std::fs::create_dir_all(d.join("work")).unwrap();
            let spec = TSpec { dir: d.join("work").display().to_string(), log: d.join("log").display().to_string(), ops: c.ops.clone(), idle: false, fork_after: None, child_ops: vec![], child_signal_after: 0, signal: c.signal };
            let sp = write_spec(d.path(), &spec);
            let inject = c.point.as_ref().map(|(n, k)| (n.as_str(), *k, c.signal));
            let (code, _) = run_worker(&sp, None, inject);
            let log = std::fs::read_to_string(d.join("log")).unwrap_or_default();
            let e = expectation(&c.ops, &log);
            let died = code.is_none();
            if !died && code != Some(0) {
                return bad("worker-failed", format!("exit {code:?}"));
            }
            if !died && !e.finished {
                return bad("worker-failed", "worker neither finished nor died".to_string());
            }
            let mut e = e;
            if !died {
                e.may.remove("<generated>");
                e.may.retain(|n| !n.ends_with(".tmp"));
            }
            inspect(&d.join("work"), &e, died)
        },
    );
    run.cov("syscalls_injected", run.sub_evaluations("signal"));

    // phase 3: forked child receives the signal; the parent's files are not the child's to remove
    let fork_cases: Vec<ForkCase> = {
        let mut v = Vec::new();
        let child_seqs: Vec<Vec<TOp>> = vec![vec![], vec![TOp::At(1)], vec![TOp::At(1), TOp::Write(1)], vec![TOp::Mark(1)]];
        for ops in sequences(2) {
            if ops.iter().any(|o| matches!(o, TOp::At(1) | TOp::Mark(1) | TOp::Write(1) | TOp::Close(1) | TOp::Persist(1) | TOp::Drop(1) | TOp::Take(1))) {
                continue; // handle 1 belongs to the child in these cases
            }
            for fork_after in 0..ops.len() {
                for child_ops in &child_seqs {
                    for child_signal_after in 0..=child_ops.len() {
                        for &signal in &signals {
                            v.push(ForkCase { ops: ops.clone(), fork_after, child_ops: child_ops.clone(), child_signal_after, signal });
                        }
                    }
                }
            }
        }
        if run.is_replay() {
            v.clear();
        }
        v
    };
    run.sub_with(
        "fork-child-signalled",
        vkit::Opts::default().chunk(256),
        |emit| fork_cases.into_iter().for_each(|c| emit(c)),
        |c: &ForkCase| -> Verdict {
            let d = vkit::scratch::Dir::new("c23f");
            std::fs::create_dir_all(d.join("work")).unwrap();
            let spec = TSpec {
                dir: d.join("work").display().to_string(),
                log: d.join("log").display().to_string(),
                ops: c.ops.clone(),
                idle: false,
                fork_after: Some(c.fork_after),
                child_ops: c.child_ops.clone(),
                child_signal_after: c.child_signal_after,
                signal: c.signal,
            };
            let sp = write_spec(d.path(), &spec);
            let out = Command::new(exe()).arg("--tmp-worker").arg(&sp).output().unwrap_or_else(|e| vkit::machinery!("spawn: {e}"));
            let log = std::fs::read_to_string(d.join("log")).unwrap_or_default();
            if out.status.code() != Some(0) {
                return bad("parent-disturbed", format!("parent exit {:?} stderr {} log {log:?}", out.status.code(), String::from_utf8_lossy(&out.stderr)));
            }
            if let Some(l) = log.lines().find(|l| l.starts_with("MISSING")) {
                return bad("foreign-file-removed", format!("the signalled child removed a tempfile owned by its parent: {l}"));
            }
            let child_status = log.lines().find_map(|l| l.strip_prefix("CHILD ")).and_then(|s| s.trim().parse::<i32>().ok());
            match child_status {
                Some(st) if libc::WIFSIGNALED(st) && libc::WTERMSIG(st) == c.signal => {}
                other => return bad("child-not-terminated", format!("child wait status {other:?}")),
            }
            // after the parent finished normally: only its persisted files remain; the child's own tempfiles must be gone too
            let mut e = expectation(&c.ops, &log);
            e.may.remove("<generated>");
            e.may.retain(|n| !n.ends_with(".tmp"));
            // the child's tempfile that was being created when it raised is not registered: tolerated only in that window
            match inspect(&d.join("work"), &e, true) {
                Ok(_) => ok(format!("parent-intact-child-ops-{}", c.child_ops.len())),
                Err(m) => Err(m),
            }
        },
    );
    // phase 4: another thread holds the lock of one registry entry while the signal arrives (a thread inside a registry mutation)
    #[derive(Serialize, Deserialize, Hash, Clone, Debug)]
    struct LockCase {
        n: usize,
        k: usize,
        signal: i32,
    }
    let n = run.pick(24usize, 64);
    let lock_cases: Vec<LockCase> = if run.is_replay() { Vec::new() } else { signals.iter().flat_map(|&s| (0..n).map(move |k| LockCase { n, k, signal: s })).collect() };
    run.sub_with(
        "entry-locked-by-other-thread",
        vkit::Opts::default().chunk(256),
        |emit| lock_cases.into_iter().for_each(|c| emit(c)),
        |c: &LockCase| -> Verdict {
            let d = vkit::scratch::Dir::new("c23l");
            let out = Command::new(exe())
                .arg("--tmp-lock-worker")
                .arg(d.path())
                .arg(c.n.to_string())
                .arg(c.k.to_string())
                .arg(c.signal.to_string())
                .output()
                .unwrap_or_else(|e| vkit::machinery!("spawn: {e}"));
            use std::os::unix::process::ExitStatusExt;
            if out.status.signal() != Some(c.signal) {
                return bad("not-terminated", format!("worker ended with {:?} instead of dying from signal {}", out.status, c.signal));
            }
            let locked: BTreeSet<usize> = std::fs::read_to_string(d.join("LOCKED")).unwrap_or_default().split_whitespace().filter_map(|x| x.parse().ok()).collect();
            if !locked.contains(&c.k) {
                vkit::machinery!("the held entry {} is not reported as locked: {:?}", c.k, locked);
            }
            let left: BTreeSet<usize> = std::fs::read_dir(d.path())
                .unwrap_or_else(|e| vkit::machinery!("read_dir: {e}"))
                .flatten()
                .filter_map(|e| e.file_name().to_string_lossy().strip_prefix('m').and_then(|r| r.strip_suffix(".tmp")).and_then(|r| r.parse().ok()))
                .collect();
            let outside: Vec<&usize> = left.difference(&locked).collect();
            if !outside.is_empty() {
                return bad("handler-gave-up", format!("tempfiles {outside:?} were left behind although their registry entries were not locked (locked: {locked:?}, held entry {})", c.k));
            }
            if !left.is_empty() {
                return bad("leak-entry-lock-held", format!("tempfiles {left:?} stay behind: their registry lock was held by another thread when the signal arrived"));
            }
            ok("all-removed")
        },
    );
    // phase 5: tempfiles registered long ago: `churn` younger registry entries come and go before the signal arrives (the handler must
    // reach every id ever handed out, whatever the distance between the oldest live entry and the newest id)
    #[derive(Serialize, Deserialize, Hash, Clone, Debug)]
    struct ChurnCase {
        churn: usize,
        style: usize,
        signal: i32,
    }
    let churns: Vec<usize> = if run.quick() {
        vec![0, 1, 2, 63, 64, 65, 255, 256, 257, 1023, 1024, 1025, 4095, 4096, 4097, 5000]
    } else {
        vec![0, 1, 2, 15, 16, 17, 63, 64, 65, 127, 128, 129, 255, 256, 257, 511, 512, 513, 1023, 1024, 1025, 2047, 2048, 2049, 4095, 4096, 4097, 5000, 8191, 8192, 8193, 16384, 32768, 65535, 65536, 65537, 70000]
    };
    let churn_cases: Vec<ChurnCase> = if run.is_replay() {
        Vec::new()
    } else {
        churns.iter().flat_map(|&c| signals.iter().flat_map(move |&s| (0..3).map(move |style| ChurnCase { churn: c, style, signal: s }))).collect()
    };
    run.sub_with(
        "old-entries",
        vkit::Opts::default().chunk(64),
        |emit| churn_cases.into_iter().for_each(|c| emit(c)),
        |c: &ChurnCase| -> Verdict {
            let d = vkit::scratch::Dir::new("c23c");
            let out = Command::new(exe())
                .arg("--tmp-churn-worker")
                .arg(d.path())
                .arg(c.churn.to_string())
                .arg(c.style.to_string())
                .arg(c.signal.to_string())
                .output()
                .unwrap_or_else(|e| vkit::machinery!("spawn: {e}"));
            use std::os::unix::process::ExitStatusExt;
            if !d.join("READY").exists() {
                vkit::machinery!("churn worker did not get ready: {:?} {}", out.status, String::from_utf8_lossy(&out.stderr));
            }
            if out.status.signal() != Some(c.signal) {
                return bad("not-terminated", format!("worker ended with {:?} instead of dying from signal {}", out.status, c.signal));
            }
            let mut left: Vec<String> = Vec::new();
            for name in ["old-writable.lock", "old-marker.lock"] {
                if d.join(name).exists() {
                    left.push(name.to_string());
                }
            }
            for e in std::fs::read_dir(d.join("old-dir")).unwrap_or_else(|e| vkit::machinery!("read_dir: {e}")).flatten() {
                left.push(format!("old-dir/{}", e.file_name().to_string_lossy()));
            }
            let mut persisted = 0;
            for e in std::fs::read_dir(d.join("churn")).unwrap_or_else(|e| vkit::machinery!("read_dir: {e}")).flatten() {
                let n = e.file_name().to_string_lossy().into_owned();
                if n.starts_with('p') {
                    persisted += 1;
                } else {
                    left.push(format!("churn/{n}"));
                }
            }
            if c.style == 1 && persisted != c.churn {
                return bad("persisted-removed", format!("{} of {} persisted files exist after the signal", persisted, c.churn));
            }
            if !left.is_empty() {
                left.truncate(6);
                return bad("old-entry-left", format!("registered tempfiles {left:?} were left behind after signal {} ({} younger entries came and went, style {})", c.signal, c.churn, c.style));
            }
            ok(if c.churn >= 4096 { "old-entries-removed:far" } else if c.churn > 0 { "old-entries-removed:near" } else { "old-entries-removed:none-younger" })
        },
    );
    run.require("signals were delivered and cleaned up", run.over_budget() || run.outcome_count("clean-between-operations") + run.outcome_count("clean-during-write") > 0);
}
