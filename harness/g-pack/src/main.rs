mod c07;
mod c09;
mod c11;
mod util;
use vkit::{Check, Level};
fn main() {
    vkit::main(&[
        Check { id: "C07", level: Level::Exploration, run: c07::run },
        Check { id: "C09", level: Level::Exploration, run: c09::run },
        Check { id: "C11", level: Level::Exploration, run: c11::run },
    ]);
}
