mod c07;
mod util;
use vkit::{Check, Level};
fn main() {
    vkit::main(&[Check { id: "C07", level: Level::Exploration, run: c07::run }]);
}
