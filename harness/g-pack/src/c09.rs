//! C09 — pack index and multi-pack index lookups agree with a linear scan (E1: bounded-exhaustive inputs).
//!
//! Sub-checks
//! * `idx-v2`     all subsets of a universe of edge-case ids x offset rotations x 64-bit-table order, written by the harness's own
//!                idx-v2 writer; gitoxide's encoder (hook H3 `index::verif_encode_v2`) must produce the identical bytes; every
//!                universe id and extra absent ids are looked up in full and by every prefix length 4..=40 (with/without candidates).
//! * `idx-v1`     the same through an independent idx-v1 writer (32-bit offsets, no crc).
//! * `midx-gix`   every assignment of 6 ids to {absent, idx0, idx1, idx2, idx0+idx1} x offset rotations: index files by the harness
//!                writer, multi-pack-index by `multi_index::File::write_from_index_paths`, checked by gitoxide's reader AND an
//!                independent multi-pack-index parser.
//! * `git-idx`    real packs of blobs whose ids were searched to hit buckets 00/ff and shared 4/5-digit prefixes; indices written by
//!                `git index-pack` as v2, v1 and v2 with a forced 64-bit offset table.
//! * `git-midx`   the same objects spread over 1..3 packs (with a duplicate), `git multi-pack-index write`.
use crate::util::*;
use gix_hash::{ObjectId, Prefix};
use gix_pack::{index, multi_index};
use serde::{Deserialize, Serialize};
use std::collections::BTreeMap;
use std::ops::Range;
use std::path::{Path, PathBuf};
use std::sync::atomic::{AtomicBool, AtomicU64, Ordering};
use vkit::{bad, git, ok, ok_trivial, scratch, Run, Verdict};

// ------------------------------------------------------------------------------------------------ model / oracle
#[derive(Clone, Debug, PartialEq, Eq)]
struct Loc {
    pack: u32,
    offset: u64,
    crc: Option<u32>,
}
/// what the file is supposed to contain for one id (several locations only for multi-pack duplicates)
#[derive(Clone, Debug)]
struct Expect {
    id: ObjectId,
    locs: Vec<Loc>,
}

trait Api {
    fn num(&self) -> u32;
    fn lookup(&self, id: &gix_hash::oid) -> Option<u32>;
    fn lookup_prefix(&self, p: Prefix, c: Option<&mut Range<u32>>) -> Option<Result<u32, ()>>;
    fn oid_at(&self, i: u32) -> ObjectId;
    fn loc_at(&self, i: u32) -> Loc;
    fn iter_all(&self) -> Vec<(ObjectId, Loc)>;
}
impl Api for index::File {
    fn num(&self) -> u32 {
        self.num_objects()
    }
    fn lookup(&self, id: &gix_hash::oid) -> Option<u32> {
        index::File::lookup(self, id)
    }
    fn lookup_prefix(&self, p: Prefix, c: Option<&mut Range<u32>>) -> Option<Result<u32, ()>> {
        index::File::lookup_prefix(self, p, c)
    }
    fn oid_at(&self, i: u32) -> ObjectId {
        self.oid_at_index(i).to_owned()
    }
    fn loc_at(&self, i: u32) -> Loc {
        Loc { pack: 0, offset: self.pack_offset_at_index(i), crc: self.crc32_at_index(i) }
    }
    fn iter_all(&self) -> Vec<(ObjectId, Loc)> {
        self.iter().map(|e| (e.oid, Loc { pack: 0, offset: e.pack_offset, crc: e.crc32 })).collect()
    }
}
impl Api for multi_index::File {
    fn num(&self) -> u32 {
        self.num_objects()
    }
    fn lookup(&self, id: &gix_hash::oid) -> Option<u32> {
        multi_index::File::lookup(self, id)
    }
    fn lookup_prefix(&self, p: Prefix, c: Option<&mut Range<u32>>) -> Option<Result<u32, ()>> {
        multi_index::File::lookup_prefix(self, p, c)
    }
    fn oid_at(&self, i: u32) -> ObjectId {
        self.oid_at_index(i).to_owned()
    }
    fn loc_at(&self, i: u32) -> Loc {
        let (pack, offset) = self.pack_id_and_pack_offset_at_index(i);
        Loc { pack, offset, crc: None }
    }
    fn iter_all(&self) -> Vec<(ObjectId, Loc)> {
        self.iter().map(|e| (e.oid, Loc { pack: e.pack_index, offset: e.pack_offset, crc: None })).collect()
    }
}

fn hex_prefix_eq(a: &ObjectId, b: &ObjectId, hex_len: usize) -> bool {
    let hex_len = if oracle_broken("c09-scan") && hex_len % 2 == 1 { hex_len - 1 } else { hex_len };
    let (a, b) = (a.as_slice(), b.as_slice());
    let full = hex_len / 2;
    if a[..full] != b[..full] {
        return false;
    }
    hex_len % 2 == 0 || (a[full] >> 4) == (b[full] >> 4)
}

#[derive(Default)]
struct Stats {
    found: u32,
    absent: u32,
    p_none: u32,
    p_unique: u32,
    p_ambiguous: u32,
}
static PREFIX_AMBIGUOUS: AtomicU64 = AtomicU64::new(0);
static PREFIX_UNIQUE: AtomicU64 = AtomicU64::new(0);
static PREFIX_NONE: AtomicU64 = AtomicU64::new(0);
static LARGE_OFFSETS_READ: AtomicU64 = AtomicU64::new(0);
static QUERIES: AtomicU64 = AtomicU64::new(0);

/// Compare every observable of `api` with a linear scan over `expect` (sorted by id, unique ids).
fn check_all(api: &dyn Api, expect: &[Expect], queries: &[ObjectId], ignore_crc: bool) -> Result<Stats, String> {
    let mut st = Stats::default();
    let loc_ok = |got: &Loc, e: &Expect| e.locs.iter().any(|l| l.pack == got.pack && l.offset == got.offset && (ignore_crc || l.crc == got.crc));
    if api.num() as usize != expect.len() {
        return Err(format!("num-objects: file reports {} objects, {} were written", api.num(), expect.len()));
    }
    // positional access + iteration == the sorted entry list
    let all = vkit::catch(|| api.iter_all()).map_err(|p| format!("iter-panic: {p}"))?;
    if all.len() != expect.len() {
        return Err(format!("iter-len: iter() yields {} entries, {} were written", all.len(), expect.len()));
    }
    for (i, e) in expect.iter().enumerate() {
        let (id, loc) = &all[i];
        if *id != e.id || !loc_ok(loc, e) {
            return Err(format!("iter: entry {i} is ({id}, {loc:?}), written {e:?}"));
        }
        let got = vkit::catch(|| (api.oid_at(i as u32), api.loc_at(i as u32))).map_err(|p| format!("at-index-panic: index {i}: {p}"))?;
        if got.0 != e.id || !loc_ok(&got.1, e) {
            return Err(format!("at-index: index {i} is ({}, {:?}), written {e:?}", got.0, got.1));
        }
        if got.1.offset > 0x7fff_ffff {
            LARGE_OFFSETS_READ.fetch_add(1, Ordering::Relaxed);
        }
    }
    let mut nq = 0u64;
    for q in queries {
        // full id
        let want = expect.iter().position(|e| e.id == *q);
        let got = api.lookup(q);
        nq += 1;
        match (want, got) {
            (None, None) => st.absent += 1,
            (Some(w), Some(g)) if w as u32 == g => {
                st.found += 1;
                let loc = api.loc_at(g);
                if !loc_ok(&loc, &expect[w]) {
                    return Err(format!("lookup-location: {q} found at index {g} with {loc:?}, written {:?}", expect[w]));
                }
            }
            (w, g) => return Err(format!("lookup: {q}: lookup() = {g:?}, linear scan = {w:?}")),
        }
        // every prefix length
        for hex_len in Prefix::MIN_HEX_LEN..=40 {
            let prefix = Prefix::new(q, hex_len).map_err(|e| format!("prefix-new: {e}"))?;
            let matches: Vec<u32> = expect.iter().enumerate().filter(|(_, e)| hex_prefix_eq(&e.id, q, hex_len)).map(|(i, _)| i as u32).collect();
            let (want_res, want_range): (Option<Result<u32, ()>>, Range<u32>) = match matches.len() {
                0 => (None, 0..0),
                1 => (Some(Ok(matches[0])), matches[0]..matches[0] + 1),
                _ => (Some(Err(())), matches[0]..matches[matches.len() - 1] + 1),
            };
            let mut range = 7777..7778;
            // (a panic in here is reported by the driver as class `panic` with message and location)
            let with = api.lookup_prefix(prefix, Some(&mut range));
            let without = api.lookup_prefix(prefix, None);
            nq += 2;
            let same = |got: &Option<Result<u32, ()>>| match (got, &want_res) {
                (None, None) => true,
                (Some(Err(())), Some(Err(()))) => true,
                (Some(Ok(a)), Some(Ok(b))) => a == b,
                _ => false,
            };
            if !same(&without) {
                return Err(format!("lookup_prefix: {q} len {hex_len}: got {without:?}, linear scan says {want_res:?} (matching indices {matches:?})"));
            }
            if !same(&with) {
                return Err(format!("lookup_prefix-candidates-result: {q} len {hex_len}: got {with:?}, linear scan says {want_res:?} (matching indices {matches:?})"));
            }
            if range != want_range {
                return Err(format!("lookup_prefix-candidates-range: {q} len {hex_len}: candidates {range:?}, linear scan says {want_range:?}"));
            }
            match matches.len() {
                0 => st.p_none += 1,
                1 => st.p_unique += 1,
                _ => st.p_ambiguous += 1,
            }
        }
    }
    QUERIES.fetch_add(nq, Ordering::Relaxed);
    PREFIX_AMBIGUOUS.fetch_add(u64::from(st.p_ambiguous), Ordering::Relaxed);
    PREFIX_UNIQUE.fetch_add(u64::from(st.p_unique), Ordering::Relaxed);
    PREFIX_NONE.fetch_add(u64::from(st.p_none), Ordering::Relaxed);
    Ok(st)
}

thread_local! {
    /// one scratch directory per worker thread, reused by all cases (creating a directory per case contends on the parent)
    static TDIR: scratch::Dir = scratch::Dir::new("c09t");
}
fn tdir() -> PathBuf {
    TDIR.with(|d| d.path().to_path_buf())
}

// ------------------------------------------------------------------------------------------------ independent writers / parser
type Entry = (ObjectId, u64, u32);

fn fanout_of(ids: impl Iterator<Item = u8>) -> [u32; 256] {
    let mut counts = [0u32; 256];
    for b in ids {
        counts[b as usize] += 1;
    }
    let mut fan = [0u32; 256];
    let mut acc = 0;
    for i in 0..256 {
        acc += counts[i];
        fan[i] = acc;
    }
    fan
}

/// Independent idx-v2 writer (pack-format.txt). `rev64`: hand out the slots of the 64-bit table in reverse order.
fn write_idx_v2(sorted: &[Entry], pack_hash: &ObjectId, rev64: bool) -> Vec<u8> {
    let mut out = Vec::new();
    out.extend_from_slice(&[0xff, b't', b'O', b'c']);
    out.extend_from_slice(&2u32.to_be_bytes());
    for f in fanout_of(sorted.iter().map(|e| e.0.as_slice()[0])) {
        out.extend_from_slice(&f.to_be_bytes());
    }
    for e in sorted {
        out.extend_from_slice(e.0.as_slice());
    }
    for e in sorted {
        out.extend_from_slice(&e.2.to_be_bytes());
    }
    let n_large = sorted.iter().filter(|e| e.1 > 0x7fff_ffff).count();
    let mut table = vec![0u64; n_large];
    let mut k = 0usize;
    for e in sorted {
        if e.1 > 0x7fff_ffff {
            let slot = if rev64 { n_large - 1 - k } else { k };
            table[slot] = e.1;
            out.extend_from_slice(&(0x8000_0000u32 | slot as u32).to_be_bytes());
            k += 1;
        } else {
            out.extend_from_slice(&(e.1 as u32).to_be_bytes());
        }
    }
    for t in table {
        out.extend_from_slice(&t.to_be_bytes());
    }
    out.extend_from_slice(pack_hash.as_slice());
    let h = sha1(&out);
    out.extend_from_slice(h.as_slice());
    out
}

/// Independent idx-v1 writer.
fn write_idx_v1(sorted: &[Entry], pack_hash: &ObjectId) -> Vec<u8> {
    let mut out = Vec::new();
    for f in fanout_of(sorted.iter().map(|e| e.0.as_slice()[0])) {
        out.extend_from_slice(&f.to_be_bytes());
    }
    for e in sorted {
        out.extend_from_slice(&(e.1 as u32).to_be_bytes());
        out.extend_from_slice(e.0.as_slice());
    }
    out.extend_from_slice(pack_hash.as_slice());
    let h = sha1(&out);
    out.extend_from_slice(h.as_slice());
    out
}

struct MidxParsed {
    names: Vec<String>,
    entries: Vec<(ObjectId, u32, u64)>,
    has_loff: bool,
}
/// Independent multi-pack-index parser following Documentation/gitformat-pack.txt.
fn parse_midx(d: &[u8]) -> Result<MidxParsed, String> {
    let be32 = |o: usize| -> Result<u32, String> { d.get(o..o + 4).map(|b| u32::from_be_bytes(b.try_into().unwrap())).ok_or_else(|| "short file".to_string()) };
    let be64 = |o: usize| -> Result<u64, String> { d.get(o..o + 8).map(|b| u64::from_be_bytes(b.try_into().unwrap())).ok_or_else(|| "short file".to_string()) };
    if d.len() < 12 + 20 || &d[..4] != b"MIDX" {
        return Err("bad signature".into());
    }
    if d[4] != 1 || d[5] != 1 {
        return Err(format!("version {} hash {}", d[4], d[5]));
    }
    let n_chunks = d[6] as usize;
    let n_packs = be32(8)? as usize;
    let mut chunks: BTreeMap<[u8; 4], (usize, usize)> = BTreeMap::new();
    for i in 0..n_chunks {
        let o = 12 + i * 12;
        let id: [u8; 4] = d.get(o..o + 4).ok_or("short toc")?.try_into().unwrap();
        let start = be64(o + 4)? as usize;
        let end = be64(o + 16)? as usize;
        if start > end || end > d.len() {
            return Err(format!("chunk {:?} range {start}..{end} invalid", String::from_utf8_lossy(&id)));
        }
        chunks.insert(id, (start, end));
    }
    let last = 12 + n_chunks * 12;
    if d.get(last..last + 4) != Some(&[0, 0, 0, 0][..]) {
        return Err("toc not terminated".into());
    }
    if be64(last + 4)? as usize != d.len() - 20 {
        return Err("terminating toc offset is not the checksum position".into());
    }
    if sha1(&d[..d.len() - 20]).as_slice() != &d[d.len() - 20..] {
        return Err("trailing checksum wrong".into());
    }
    let get = |id: &[u8; 4]| chunks.get(id).copied().ok_or_else(|| format!("chunk {} missing", String::from_utf8_lossy(id)));
    let (ps, pe) = get(b"PNAM")?;
    let mut names = Vec::new();
    let mut p = ps;
    for _ in 0..n_packs {
        let z = d[p..pe].iter().position(|&c| c == 0).ok_or("PNAM: missing NUL")?;
        names.push(String::from_utf8_lossy(&d[p..p + z]).into_owned());
        p += z + 1;
    }
    if (pe - ps) % 4 != 0 || d[p..pe].iter().any(|&c| c != 0) {
        return Err("PNAM padding".into());
    }
    let (fs, fe) = get(b"OIDF")?;
    if fe - fs != 1024 {
        return Err("OIDF size".into());
    }
    let n = be32(fs + 255 * 4)? as usize;
    let (ls, le) = get(b"OIDL")?;
    if le - ls != n * 20 {
        return Err(format!("OIDL size {} for {n} objects", le - ls));
    }
    let (os, oe) = get(b"OOFF")?;
    if oe - os != n * 8 {
        return Err("OOFF size".into());
    }
    let loff = chunks.get(b"LOFF").copied();
    let mut entries = Vec::new();
    let mut counts = [0u32; 256];
    for i in 0..n {
        let id = ObjectId::from_bytes_or_panic(&d[ls + i * 20..ls + i * 20 + 20]);
        counts[id.as_slice()[0] as usize] += 1;
        let pack = be32(os + i * 8)?;
        let raw = be32(os + i * 8 + 4)?;
        let offset = match loff {
            Some((s, e)) if raw & 0x8000_0000 != 0 => {
                let k = (raw & 0x7fff_ffff) as usize;
                if s + k * 8 + 8 > e {
                    return Err(format!("LOFF slot {k} out of range"));
                }
                be64(s + k * 8)?
            }
            _ => u64::from(raw),
        };
        entries.push((id, pack, offset));
    }
    let mut acc = 0;
    for b in 0..256 {
        acc += counts[b];
        if be32(fs + b * 4)? != acc {
            return Err(format!("OIDF[{b}] = {} but {acc} ids have a first byte <= {b}", be32(fs + b * 4)?));
        }
    }
    if entries.windows(2).any(|w| w[0].0 >= w[1].0) {
        return Err("OIDL not strictly sorted".into());
    }
    Ok(MidxParsed { names, entries, has_loff: loff.is_some() })
}

// ------------------------------------------------------------------------------------------------ universes
fn oid(hex: &str) -> ObjectId {
    ObjectId::from_hex(hex.as_bytes()).unwrap_or_else(|e| vkit::machinery!("bad hex {hex}: {e}"))
}
fn pad(prefix: &str, fill: char) -> ObjectId {
    let mut s = prefix.to_string();
    while s.len() < 40 {
        s.push(fill);
    }
    oid(&s)
}
/// ids in the fan-out edge buckets, ids differing only in the last nibble, ids sharing 4 / 5 / 39 hex digits, three ids
/// in one bucket, neighbours of the edge buckets and both sides of the 0x7f|0x80 bucket boundary
fn universe(n: usize) -> Vec<ObjectId> {
    let all = vec![
        pad("", '0'),                                        // 00..00 smallest possible id
        oid("0000000000000000000000000000000000000001"),     // shares 39 digits with it
        pad("", 'f'),                                        // ff..ff largest possible id
        pad("abcde0", '0'),                                  // \
        pad("abcde1", '0'),                                  //  } 5 digits shared
        pad("abcd7", '0'),                                   // 4 digits shared with both
        pad("ab", '0'),                                      // same bucket only
        oid("fffffffffffffffffffffffffffffffffffffffe"),     // differs from ff..ff in the last nibble
        pad("7f", 'f'),                                      // last id of bucket 7f
        pad("80", '0'),                                      // first id of bucket 80
        pad("01", '0'),                                      // neighbour bucket of 00
        pad("fe", 'f'),                                      // neighbour bucket of ff
    ];
    all[..n].to_vec()
}
fn extra_queries() -> Vec<ObjectId> {
    vec![
        pad("abcde08", '0'),                             // sorts between abcde0.. and abcde1.., shares 6 digits with the first
        oid("0000000000000000000000000000000000000002"), // shares 39 digits with two members of bucket 00
        pad("abcdf", '0'),                               // shares 4 digits
        pad("55", '5'),                                  // empty bucket
        pad("ff", '0'),                                  // bucket ff, below its members
    ]
}
const OFFSETS_V2: [u64; 6] = [12, 0x7fff_ffff, 0x8000_0000, 0xffff_ffff, 0x1_0000_0005, (1 << 63) - 1];
const OFFSETS_V1: [u64; 4] = [12, 0x7fff_ffff, 0x8000_0000, 0xffff_ffff];

fn crc_of(id: &ObjectId) -> u32 {
    let b = id.as_slice();
    u32::from_be_bytes([b[0] ^ 0xa5, b[19], b[1], b[18] ^ 0x5a])
}

#[derive(Serialize, Deserialize, Hash, Clone, Debug)]
struct IdxCase {
    /// bit i = universe id i is in the index
    members: u32,
    /// id i gets offset OFFSETS[(i + rot) % len]
    rot: u8,
    /// 64-bit table slots handed out in reverse (v2 only)
    rev64: bool,
    universe: u8,
}

fn entries_of(c: &IdxCase, offsets: &[u64]) -> Vec<Entry> {
    let u = universe(c.universe as usize);
    let mut v: Vec<Entry> = u
        .iter()
        .enumerate()
        .filter(|(i, _)| c.members & (1 << i) != 0)
        .map(|(i, id)| (*id, offsets[(i + c.rot as usize) % offsets.len()], crc_of(id)))
        .collect();
    v.sort();
    v
}
fn expect_of(entries: &[Entry], with_crc: bool) -> Vec<Expect> {
    entries.iter().map(|e| Expect { id: e.0, locs: vec![Loc { pack: 0, offset: e.1, crc: with_crc.then_some(e.2) }] }).collect()
}
fn queries_for(universe_len: usize) -> Vec<ObjectId> {
    let mut q = universe(universe_len);
    q.extend(extra_queries());
    q
}
fn open_index(path: &Path) -> Result<index::File, String> {
    match vkit::catch(|| index::File::at(path, SHA1)) {
        Ok(Ok(f)) => Ok(f),
        Ok(Err(e)) => Err(format!("open-index: {e}")),
        Err(p) => Err(format!("open-index-panic: {p}")),
    }
}
fn class_of(prefix: &str, n: usize, large: usize, st: &Stats) -> String {
    let bucket = |n: usize| match n {
        0 => "0",
        1 => "1",
        2..=3 => "2-3",
        _ => "4+",
    };
    format!(
        "{prefix}:entries={}:large-offsets={}:prefix-ambiguous={}",
        bucket(n),
        bucket(large),
        if st.p_ambiguous > 0 { "yes" } else { "no" }
    )
}

fn eval_idx(c: &IdxCase, v1: bool) -> Verdict {
    let offsets: &[u64] = if v1 { &OFFSETS_V1 } else { &OFFSETS_V2 };
    let entries = entries_of(c, offsets);
    let pack_hash = pad("c0ffee", '1');
    let bytes = if v1 { write_idx_v1(&entries, &pack_hash) } else { write_idx_v2(&entries, &pack_hash, c.rev64) };
    let mut encoder = "";
    if !v1 && !c.rev64 {
        // gitoxide's own encoder must produce the canonical file
        let mut out = Vec::new();
        match vkit::catch(|| index::verif_encode_v2(&mut out, entries.clone(), &pack_hash)) {
            Ok(Ok(h)) => {
                if out != bytes {
                    let at = out.iter().zip(&bytes).position(|(a, b)| a != b).unwrap_or(out.len().min(bytes.len()));
                    return bad(
                        "encoder-bytes",
                        format!("gitoxide's index encoder differs from the reference writer at byte {at} (lengths {} vs {}) for {} entries", out.len(), bytes.len(), entries.len()),
                    );
                }
                if h.as_slice() != &bytes[bytes.len() - 20..] {
                    return bad("encoder-hash", "returned index hash is not the trailer");
                }
                encoder = "+encoder";
            }
            Ok(Err(e)) => return bad("encoder-error", e),
            Err(p) => return bad("encoder-panic", p),
        }
    }
    let dir = tdir();
    let path = dir.join("pack-x.idx");
    write_file(&path, &bytes);
    let file = open_index(&path)?;
    let want_version = if v1 { index::Version::V1 } else { index::Version::V2 };
    if file.version() != want_version {
        return bad("version", format!("{:?}", file.version()));
    }
    let expect = expect_of(&entries, !v1);
    let st = check_all(&file, &expect, &queries_for(c.universe as usize), false)?;
    let mut so: Vec<u64> = entries.iter().map(|e| e.1).collect();
    so.sort_unstable();
    match vkit::catch(|| file.sorted_offsets()) {
        Ok(v) if v == so => {}
        other => return bad("sorted_offsets", format!("{other:?} want {so:?}")),
    }
    let large = entries.iter().filter(|e| e.1 > 0x7fff_ffff).count();
    let prefix = format!("{}{}{}", if v1 { "v1" } else { "v2" }, if c.rev64 { "-rev64" } else { "" }, encoder);
    if entries.is_empty() {
        return ok_trivial(class_of(&prefix, 0, 0, &st));
    }
    ok(class_of(&prefix, entries.len(), large, &st))
}

// ------------------------------------------------------------------------------------------------ multi-index through gitoxide's writer
#[derive(Serialize, Deserialize, Hash, Clone, Debug)]
struct MidxCase {
    /// per universe id: 0 absent, 1..=3 in index a/b/c, 4 in a and b (duplicate, different offsets)
    assign: Vec<u8>,
    rot: u8,
}
const MIDX_NAMES: [&str; 3] = ["pack-a.idx", "pack-b.idx", "pack-c.idx"];

fn eval_midx(c: &MidxCase) -> Verdict {
    let u = universe(c.assign.len());
    let mut per: [Vec<Entry>; 3] = Default::default();
    for (i, (&a, id)) in c.assign.iter().zip(&u).enumerate() {
        let off = OFFSETS_V2[(i + c.rot as usize) % OFFSETS_V2.len()];
        match a {
            0 => {}
            1..=3 => per[a as usize - 1].push((*id, off, crc_of(id))),
            _ => {
                per[0].push((*id, off, crc_of(id)));
                // the duplicate lives at another offset in the second pack
                per[1].push((*id, OFFSETS_V2[(i + c.rot as usize + 3) % OFFSETS_V2.len()], crc_of(id)));
            }
        }
    }
    let dir = tdir();
    for n in MIDX_NAMES {
        let _ = std::fs::remove_file(dir.join(n));
    }
    let mut paths: Vec<PathBuf> = Vec::new();
    let mut used: Vec<usize> = Vec::new();
    for (k, e) in per.iter_mut().enumerate() {
        // for half of the assignments index c is also written when it is empty (an index without objects is legal)
        if e.is_empty() && !(k == 2 && c.assign.iter().map(|&a| u32::from(a)).sum::<u32>() % 2 == 1) {
            continue;
        }
        e.sort();
        let p = dir.join(MIDX_NAMES[k]);
        write_file(&p, &write_idx_v2(e, &pad("c0ffee", '1'), false));
        paths.push(p);
        used.push(k);
    }
    if paths.is_empty() {
        return ok_trivial("no-index");
    }
    // expected: pack position = rank of the file name among the given ones
    let mut map: BTreeMap<ObjectId, Vec<Loc>> = BTreeMap::new();
    for (pos, &k) in used.iter().enumerate() {
        for e in &per[k] {
            map.entry(e.0).or_default().push(Loc { pack: pos as u32, offset: e.1, crc: None });
        }
    }
    let expect: Vec<Expect> = map.into_iter().map(|(id, locs)| Expect { id, locs }).collect();
    let mut out = Vec::new();
    // hand the paths over in reverse order: the writer must sort them
    let mut given = paths.clone();
    given.reverse();
    let res = vkit::catch(|| {
        multi_index::File::write_from_index_paths(
            given,
            &mut out,
            &mut gix_features::progress::Discard,
            &AtomicBool::new(false),
            multi_index::write::Options { object_hash: SHA1 },
        )
    });
    let outcome = match res {
        Ok(Ok(o)) => o,
        Ok(Err(e)) => return bad("midx-write-error", e),
        Err(p) => return bad("midx-write-panic", p),
    };
    if out.len() < 20 || outcome.multi_index_checksum.as_slice() != &out[out.len() - 20..] {
        return bad("midx-checksum", "returned checksum is not the trailer");
    }
    // independent parser
    let parsed = match parse_midx(&out) {
        Ok(p) => p,
        Err(e) => return bad("midx-format", format!("independent parser rejects gitoxide's multi-pack-index: {e}")),
    };
    let want_names: Vec<String> = used.iter().map(|&k| MIDX_NAMES[k].to_string()).collect();
    if parsed.names != want_names {
        return bad("midx-names", format!("{:?} want {want_names:?}", parsed.names));
    }
    if parsed.entries.len() != expect.len() {
        return bad("midx-format-count", format!("{} entries parsed, {} expected", parsed.entries.len(), expect.len()));
    }
    for (p, e) in parsed.entries.iter().zip(&expect) {
        if p.0 != e.id || !e.locs.iter().any(|l| l.pack == p.1 && l.offset == p.2) {
            return bad("midx-format-entry", format!("independent parser reads ({}, pack {}, offset {}), written {e:?}", p.0, p.1, p.2));
        }
    }
    if expect.is_empty() {
        // A multi-pack-index without any object is degenerate: git's `multi-pack-index verify` rejects it ("the midx contains no oid")
        // and gitoxide's reader refuses its zero-length chunks with a clean error. Only the writer + independent parser are checked.
        return ok_trivial("midx:no-objects");
    }
    let path = dir.join("multi-pack-index");
    write_file(&path, &out);
    let file = match vkit::catch(|| multi_index::File::at(&path)) {
        Ok(Ok(f)) => f,
        Ok(Err(e)) => return bad("midx-open", e),
        Err(p) => return bad("midx-open-panic", p),
    };
    let names: Vec<String> = file.index_names().iter().map(|p| p.display().to_string()).collect();
    if names != want_names || file.num_indices() as usize != want_names.len() {
        return bad("midx-index-names", format!("{names:?} / {} want {want_names:?}", file.num_indices()));
    }
    let mut queries = u.clone();
    queries.extend(extra_queries());
    let st = check_all(&file, &expect, &queries, true)?;
    let large = expect.iter().filter(|e| e.locs.iter().any(|l| l.offset > 0x7fff_ffff)).count();
    let dup = c.assign.iter().any(|&a| a == 4);
    ok(format!(
        "{}:indices={}:loff-chunk={}{}",
        class_of("midx", expect.len(), large, &st),
        used.len(),
        if parsed.has_loff { "yes" } else { "no" },
        if dup { ":duplicate" } else { "" }
    ))
}

// ------------------------------------------------------------------------------------------------ git-written files
struct GitFix {
    repo: PathBuf,
    /// (role, blob id hex, content)
    objects: Vec<(String, String, Vec<u8>)>,
}

/// search blob contents `c09-<n>` for ids in the edge buckets and with shared prefixes
fn find_population() -> Vec<(String, Vec<u8>)> {
    let mut by_prefix5: BTreeMap<String, Vec<(usize, String)>> = BTreeMap::new();
    let mut by_prefix4: BTreeMap<String, Vec<(usize, String)>> = BTreeMap::new();
    let mut by_byte: BTreeMap<String, Vec<(usize, String)>> = BTreeMap::new();
    let content = |n: usize| format!("c09-{n}\n").into_bytes();
    const N: usize = 6000;
    for n in 0..N {
        let id = gix_object::compute_hash(SHA1, gix_object::Kind::Blob, &content(n)).to_string();
        by_prefix5.entry(id[..5].to_string()).or_default().push((n, id.clone()));
        by_prefix4.entry(id[..4].to_string()).or_default().push((n, id.clone()));
        by_byte.entry(id[..2].to_string()).or_default().push((n, id));
    }
    let mut out: Vec<(String, usize)> = Vec::new();
    let mut take = |role: &str, n: usize| {
        if !out.iter().any(|(_, m)| *m == n) {
            out.push((role.to_string(), n));
        }
    };
    for (b, role) in [("00", "bucket-00"), ("ff", "bucket-ff"), ("7f", "bucket-7f"), ("80", "bucket-80")] {
        let v = by_byte.get(b).unwrap_or_else(|| vkit::machinery!("no blob id in bucket {b} among {N} candidates"));
        for (n, _) in v.iter().take(2) {
            take(role, *n);
        }
    }
    let p5 = by_prefix5.values().find(|v| v.len() >= 2).unwrap_or_else(|| vkit::machinery!("no 5-digit prefix collision among {N} candidates"));
    take("share-5", p5[0].0);
    take("share-5", p5[1].0);
    let p4 = by_prefix4
        .values()
        .find(|v| v.len() >= 3 && v.iter().any(|(_, id)| id[..5] != v[0].1[..5]))
        .or_else(|| by_prefix4.values().find(|v| v.len() >= 2 && v[0].1[..5] != v[1].1[..5]))
        .unwrap_or_else(|| vkit::machinery!("no 4-digit prefix collision"));
    for (n, _) in p4.iter().take(3) {
        take("share-4", *n);
    }
    out.into_iter().map(|(r, n)| (r, content(n))).collect()
}

fn build_git_fixture() -> GitFix {
    let dir = scratch::Dir::new("c09git").keep();
    let repo = dir.join("r.git");
    git::init_bare(&repo);
    let pop = find_population();
    let mut paths = String::new();
    for (i, (_, c)) in pop.iter().enumerate() {
        let p = dir.join(format!("b{i}"));
        write_file(&p, c);
        paths.push_str(&format!("{}\n", p.display()));
    }
    let out = git::git_in(&repo, &["hash-object", "-w", "--stdin-paths"], paths.as_bytes());
    let ids: Vec<String> = String::from_utf8_lossy(&out).lines().map(str::to_string).collect();
    if ids.len() != pop.len() {
        vkit::machinery!("hash-object answered {} of {}", ids.len(), pop.len());
    }
    let objects = pop.into_iter().zip(ids).map(|((r, c), id)| (r, id, c)).collect();
    GitFix { repo, objects }
}

#[derive(Serialize, Deserialize, Hash, Clone, Debug)]
struct GitIdxCase {
    /// indices into the population
    members: Vec<usize>,
    /// "v2" | "v1" | "v2-all64" | "v2-some64"
    variant: String,
}

/// `git show-index` on a v2 index: (offset, id, crc)
fn show_index(repo: &Path, idx: &Path) -> Vec<Entry> {
    let data = std::fs::read(idx).unwrap_or_else(|e| vkit::machinery!("read {}: {e}", idx.display()));
    let out = git::git_in(repo, &["show-index"], &data);
    let mut v = Vec::new();
    for line in String::from_utf8_lossy(&out).lines() {
        let parts: Vec<&str> = line.split_whitespace().collect();
        if parts.len() < 2 {
            vkit::machinery!("show-index line {line:?}");
        }
        let off: u64 = parts[0].parse().unwrap_or_else(|_| vkit::machinery!("show-index offset {line:?}"));
        let crc = parts.get(2).map(|c| u32::from_str_radix(c.trim_matches(|ch| ch == '(' || ch == ')'), 16).unwrap_or_else(|_| vkit::machinery!("show-index crc {line:?}")));
        v.push((oid(parts[1]), off, crc.unwrap_or(0)));
    }
    v.sort();
    v
}

fn pack_of(fix: &GitFix, dir: &Path, stem: &str, members: &[usize]) -> (PathBuf, PathBuf) {
    let stdin: String = members.iter().map(|&i| format!("{}\n", fix.objects[i].1)).collect();
    let prefix = dir.join(stem);
    let out = git::git_in(&fix.repo, &["-c".as_ref(), "pack.threads=1".as_ref(), "pack-objects".as_ref(), "-q".as_ref(), prefix.as_os_str()], stdin.as_bytes());
    let hash = String::from_utf8_lossy(&out).trim().to_string();
    (dir.join(format!("{stem}-{hash}.pack")), dir.join(format!("{stem}-{hash}.idx")))
}

fn eval_git_idx(fix: &GitFix, c: &GitIdxCase) -> Verdict {
    let dir = scratch::Dir::new("c09g");
    let (pack, idx_default) = pack_of(fix, dir.path(), "pack", &c.members);
    let truth = show_index(&fix.repo, &idx_default);
    if truth.len() != c.members.len() {
        vkit::machinery!("git packed {} objects for {} requested", truth.len(), c.members.len());
    }
    let idx = match c.variant.as_str() {
        "v2" => idx_default.clone(),
        v => {
            let arg = match v {
                "v1" => "--index-version=1".to_string(),
                "v2-all64" => "--index-version=2,0".to_string(),
                // offsets above the middle one go to the 64-bit table
                _ => {
                    let mut o: Vec<u64> = truth.iter().map(|e| e.1).collect();
                    o.sort_unstable();
                    format!("--index-version=2,{}", o[o.len() / 2])
                }
            };
            let out = dir.join("alt.idx");
            git::git(&fix.repo, &["index-pack".as_ref(), arg.as_ref(), "-o".as_ref(), out.as_os_str(), pack.as_os_str()]);
            out
        }
    };
    let file = open_index(&idx)?;
    let v1 = c.variant == "v1";
    if (file.version() == index::Version::V1) != v1 {
        return bad("version", format!("{:?} for variant {}", file.version(), c.variant));
    }
    let raw = std::fs::read(&idx).unwrap_or_else(|e| vkit::machinery!("read idx: {e}"));
    let n64 = if v1 { 0 } else { (raw.len() - (8 + 1024 + truth.len() * 28 + 40)) / 8 };
    let expect = expect_of(&truth, !v1);
    let mut queries: Vec<ObjectId> = fix.objects.iter().map(|o| oid(&o.1)).collect();
    queries.extend(extra_queries());
    let st = check_all(&file, &expect, &queries, false)?;
    ok(format!("git-{}:entries={}:table64-slots={}:prefix-ambiguous={}", c.variant, truth.len().min(4), n64.min(3), if st.p_ambiguous > 0 { "yes" } else { "no" }))
}

#[derive(Serialize, Deserialize, Hash, Clone, Debug)]
struct GitMidxCase {
    /// one list of population indices per pack
    packs: Vec<Vec<usize>>,
}

fn eval_git_midx(fix: &GitFix, c: &GitMidxCase) -> Verdict {
    let dir = scratch::Dir::new("c09gm");
    let repo = dir.join("r.git");
    let pack_dir = repo.join("objects/pack");
    for d in ["objects/pack", "refs/heads"] {
        if let Err(e) = std::fs::create_dir_all(repo.join(d)) {
            vkit::machinery!("mkdir: {e}");
        }
    }
    write_file(&repo.join("HEAD"), b"ref: refs/heads/main\n");
    let mut idx_files = Vec::new();
    for members in &c.packs {
        let (_p, i) = pack_of(fix, &pack_dir, "pack", members);
        idx_files.push(i);
    }
    idx_files.sort();
    idx_files.dedup();
    let o = git::try_git(&repo, &["multi-pack-index", "write"]);
    if !o.ok {
        vkit::machinery!("git multi-pack-index write failed: {}", o.err_text());
    }
    let mut map: BTreeMap<ObjectId, Vec<Loc>> = BTreeMap::new();
    for (pos, idx) in idx_files.iter().enumerate() {
        for e in show_index(&fix.repo, idx) {
            map.entry(e.0).or_default().push(Loc { pack: pos as u32, offset: e.1, crc: None });
        }
    }
    let expect: Vec<Expect> = map.into_iter().map(|(id, locs)| Expect { id, locs }).collect();
    let path = pack_dir.join("multi-pack-index");
    let raw = std::fs::read(&path).unwrap_or_else(|e| vkit::machinery!("git wrote no multi-pack-index: {e}"));
    let parsed = parse_midx(&raw).unwrap_or_else(|e| vkit::machinery!("independent parser rejects git's multi-pack-index: {e}"));
    if parsed.entries.len() != expect.len() {
        vkit::machinery!("independent parser reads {} entries from git's multi-pack-index, expected {}", parsed.entries.len(), expect.len());
    }
    let file = match vkit::catch(|| multi_index::File::at(&path)) {
        Ok(Ok(f)) => f,
        Ok(Err(e)) => return bad("midx-open", e),
        Err(p) => return bad("midx-open-panic", p),
    };
    let names: Vec<String> = file.index_names().iter().map(|p| p.display().to_string()).collect();
    let want_names: Vec<String> = idx_files.iter().map(|p| p.file_name().unwrap().to_string_lossy().into_owned()).collect();
    if names != want_names {
        return bad("midx-index-names", format!("{names:?} want {want_names:?}"));
    }
    let mut queries: Vec<ObjectId> = fix.objects.iter().map(|o| oid(&o.1)).collect();
    queries.extend(extra_queries());
    let st = check_all(&file, &expect, &queries, true)?;
    let dup = expect.iter().any(|e| e.locs.len() > 1);
    ok(format!("git-midx:packs={}:entries={}{}:prefix-ambiguous={}", idx_files.len(), expect.len().min(4), if dup { ":duplicate" } else { "" }, if st.p_ambiguous > 0 { "yes" } else { "no" }))
}

pub fn run(run: &'static Run) {
    let un = run.pick(10usize, 12);
    run.rule(format!(
        "idx-v2 / idx-v1: all subsets of a universe of {un} ids (00..00, 00..01, ff..ff, ff..fe, abcde0/abcde1/abcd7/ab (shared 5/4/2 digits), 7fff../8000.., 01.., feff..) \
         x offset rotation (id i gets OFFSETS[(i+rot)%len], OFFSETS v2 = {{12, 2^31-1, 2^31, 2^32-1, 2^32+5, 2^63-1}}, v1 = the four 32-bit ones; quick: v1 rotations 0 and 2) x {{canonical, reversed}} 64-bit table order (quick: reversed only for rotation 2); \
         queries: every universe id + 5 never-present ids, full lookup and every prefix length 4..=40 with and without candidate range; oracle = linear scan over the written entry list; \
         for canonical v2 files gitoxide's encoder (hook H3) must emit byte-identical output to the independent writer; \
         midx-gix: all assignments of 5 ids x rotation 2 (quick: 5^5) / 6 ids x rotations 0..5 (thorough: 6*5^6) to {{absent, a, b, c, a+b duplicate}}, written by write_from_index_paths, read by gitoxide and by an independent parser; \
         git-idx: subsets (size 1, all, all-but-one; thorough also size 2) of ~13 searched blobs in buckets 00/ff/7f/80 and with shared 4/5-digit prefixes, index by git index-pack as v2, v1, v2 with forced 64-bit table (all / upper half); \
         git-midx: those blobs spread over 1..3 packs incl. a duplicate, git multi-pack-index write; \
         non-trivial = non-empty file whose every observable matched the linear scan"
    ));
    run.assume("git 2.39.5 (pack-objects, index-pack, show-index, multi-pack-index write) as oracle for git-written files; the harness idx writers and multi-pack-index parser follow gitformat-pack.txt and are trusted (cross-checked against git's files in git-idx / git-midx)");
    run.assume("a multi-pack-index without any object is outside the domain (git's verify rejects it, gitoxide's reader refuses its empty chunks with an error); the writer's output is still parsed independently");
    run.assume("for an id present in several packs of a multi-pack-index any of its recorded (pack, offset) pairs is a correct answer");
    run.budget_secs(run.pick(38.0, 580.0));

    let t0 = std::time::Instant::now();
    let lap = |name: &str| run.cov(&format!("wall_s_until_after_{name}"), (t0.elapsed().as_secs_f64() * 10.0).round() / 10.0);
    run.sub(
        "idx-v2",
        |emit| {
            for members in 0..(1u32 << un) {
                for rot in 0..OFFSETS_V2.len() as u8 {
                    for rev64 in [false, true] {
                        // quick: the reversed 64-bit table only for one rotation
                        if rev64 && run.quick() && rot != 2 {
                            continue;
                        }
                        emit(IdxCase { members, rot, rev64, universe: un as u8 });
                    }
                }
            }
        },
        |c| eval_idx(c, false),
    );
    lap("idx-v2");
    run.sub(
        "idx-v1",
        |emit| {
            for members in 0..(1u32 << un) {
                for rot in 0..OFFSETS_V1.len() as u8 {
                    if run.quick() && rot % 2 == 1 {
                        continue;
                    }
                    emit(IdxCase { members, rot, rev64: false, universe: un as u8 });
                }
            }
        },
        |c| eval_idx(c, true),
    );
    lap("idx-v1");
    run.sub(
        "midx-gix",
        |emit| {
            let rots: &[u8] = if run.quick() { &[2] } else { &[0, 1, 2, 3, 4, 5] };
            let n_ids = run.pick(5, 6);
            vkit::enumerate::seqs(&[0u8, 1, 2, 3, 4], n_ids, n_ids, |a| {
                for &rot in rots {
                    emit(MidxCase { assign: a.to_vec(), rot });
                }
            });
        },
        eval_midx,
    );
    lap("midx-gix");

    let fix = build_git_fixture();
    let fix = &fix;
    let n = fix.objects.len();
    run.cov("git_population", fix.objects.iter().map(|o| format!("{} {}", o.0, o.1)).collect::<Vec<_>>());
    run.sub_with(
        "git-idx",
        vkit::Opts::default().chunk(64),
        |emit| {
            let all: Vec<usize> = (0..n).collect();
            let mut sets: Vec<Vec<usize>> = Vec::new();
            vkit::enumerate::subsets(&all, 1, run.pick(1, 2), |s| sets.push(s.to_vec()));
            sets.push(all.clone());
            for skip in 0..n {
                sets.push(all.iter().copied().filter(|&i| i != skip).collect());
            }
            for members in sets {
                for variant in ["v2", "v1", "v2-all64", "v2-some64"] {
                    emit(GitIdxCase { members: members.clone(), variant: variant.into() });
                }
            }
        },
        |c| eval_git_idx(fix, c),
    );
    lap("git-idx");
    run.sub_with(
        "git-midx",
        vkit::Opts::default().chunk(16),
        |emit| {
            let all: Vec<usize> = (0..n).collect();
            emit(GitMidxCase { packs: vec![all.clone()] });
            for k in [2usize, 3] {
                // round-robin and contiguous splits
                emit(GitMidxCase { packs: (0..k).map(|r| all.iter().copied().filter(|i| i % k == r).collect()).collect() });
                let per = n.div_ceil(k);
                emit(GitMidxCase { packs: all.chunks(per).map(<[usize]>::to_vec).collect() });
                // with object 0 (bucket 00) and the last object duplicated into the last pack
                let mut packs: Vec<Vec<usize>> = (0..k).map(|r| all.iter().copied().filter(|i| i % k == r).collect()).collect();
                packs[k - 1].push(0);
                if !packs[0].contains(&(n - 1)) {
                    packs[0].push(n - 1);
                }
                emit(GitMidxCase { packs });
            }
            // single-object packs
            emit(GitMidxCase { packs: vec![vec![0], vec![1], vec![2]] });
        },
        |c| eval_git_midx(fix, c),
    );
    run.cov("queries_evaluated", QUERIES.load(Ordering::Relaxed));
    run.cov("prefix_queries_ambiguous", PREFIX_AMBIGUOUS.load(Ordering::Relaxed));
    run.cov("prefix_queries_unique", PREFIX_UNIQUE.load(Ordering::Relaxed));
    run.cov("prefix_queries_no_match", PREFIX_NONE.load(Ordering::Relaxed));
    run.cov("entries_read_with_offset_above_31_bits", LARGE_OFFSETS_READ.load(Ordering::Relaxed));
    if !run.over_budget() {
        run.require("ambiguous prefix lookups were evaluated", PREFIX_AMBIGUOUS.load(Ordering::Relaxed) > 0);
        run.require("unique prefix lookups were evaluated", PREFIX_UNIQUE.load(Ordering::Relaxed) > 0);
        run.require("entries with offsets beyond 31 bits were read back", LARGE_OFFSETS_READ.load(Ordering::Relaxed) > 0);
        run.require("a multi-pack-index with a large-offset chunk was checked", run.outcome_count_prefix_contains("loff-chunk=yes"));
    }
}

trait OutcomeContains {
    fn outcome_count_prefix_contains(&self, needle: &str) -> bool;
}
impl OutcomeContains for Run {
    fn outcome_count_prefix_contains(&self, needle: &str) -> bool {
        // classes are enumerable: probe the combinations that can carry the needle
        for entries in ["1", "2-3", "4+"] {
            for large in ["0", "1", "2-3", "4+"] {
                for amb in ["yes", "no"] {
                    for indices in 1..=3 {
                        for dup in ["", ":duplicate"] {
                            let cls = format!("midx:entries={entries}:large-offsets={large}:prefix-ambiguous={amb}:indices={indices}:{needle}{dup}");
                            if self.outcome_count(&cls) > 0 {
                                return true;
                            }
                        }
                    }
                }
            }
        }
        false
    }
}
