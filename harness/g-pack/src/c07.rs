//! C07 — pack entry headers and deltas encode and decode losslessly (E1: bounded-exhaustive inputs).
//!
//! Sub-checks
//! * `header`            every header kind x size boundary x distance boundary x trailing bytes x pack offset:
//!                       `Header::write_to`/`size` vs an independent reference encoder, `Entry::from_bytes` and `Entry::from_read`
//!                       (one byte per read call) vs the inputs, exact consumption, every truncation is an error for the stream reader.
//! * `decode-agreement`  all short byte strings over a header-byte alphabet: `from_bytes` == `from_read` == closed-form reference.
//! * `git-reads-ours`    hand-assembled packs whose entry headers were written by gitoxide: `git index-pack` + `git cat-file --batch`
//!                       must read exactly the intended objects (sizes / ofs distances at the width boundaries git can be shown).
//! * `git-delta-thin`    every ordered (base,target) pair of block texts: git makes a thin pack with target as REF_DELTA on base;
//!                       `data::File::decode_entry` must reproduce the target (id + bytes), == reference delta interpreter.
//! * `git-delta-full`    every unordered pair x {ofs-delta, ref-delta}: self-contained pack read through its index.
//! * `git-delta-chain`   all texts in one pack for several window/depth settings (delta chains).
use crate::util::*;
use gix_hash::ObjectId;
use gix_object::Kind;
use gix_pack::data::{self, entry::Header};
use serde::{Deserialize, Serialize};
use std::collections::{BTreeSet, HashMap};
use std::path::{Path, PathBuf};
use std::sync::atomic::{AtomicU64, Ordering};
use vkit::{bad, enumerate, git, ok, ok_trivial, scratch, Run, Verdict, B};

const KIND_NAMES: [&str; 6] = ["commit", "tree", "blob", "tag", "ofs", "ref"];
const TYPE_IDS: [u8; 6] = [1, 2, 3, 4, 6, 7];

fn base_id(i: u8) -> ObjectId {
    let mut b = [0u8; 20];
    match i {
        0 => {}
        1 => b = [0xff; 20],
        2 => b = [0x80; 20],
        _ => {
            for (k, x) in b.iter_mut().enumerate() {
                *x = (k as u8).wrapping_mul(13).wrapping_add(1);
            }
        }
    }
    ObjectId::from(b)
}

fn header_of(kind: u8, distance: u64, base: u8) -> Header {
    match kind {
        0 => Header::Commit,
        1 => Header::Tree,
        2 => Header::Blob,
        3 => Header::Tag,
        4 => Header::OfsDelta { base_distance: distance },
        _ => Header::RefDelta { base_id: base_id(base) },
    }
}

fn sizes() -> Vec<u64> {
    let mut v = enumerate::boundaries_u64();
    for k in 0..9u32 {
        let s = 4 + 7 * k;
        // one 7-bit group all ones / one bit in the middle of the group, everything else zero
        v.push(((0x7fu128 << s) & u128::from(u64::MAX)) as u64);
        v.push(((0x40u128 << s) & u128::from(u64::MAX)) as u64);
        // all groups up to k full, plus the low nibble empty
        v.push((((1u128 << (s + 7)) - 1) & u128::from(u64::MAX) & !0xf) as u64);
    }
    v.extend([0x5555_5555_5555_5555, 0xaaaa_aaaa_aaaa_aaaa, 0x0123_4567_89ab_cdef, 0xfedc_ba98_7654_3210]);
    v.sort_unstable();
    v.dedup();
    v
}

/// B_k = sum_{i=1..k} 128^i : the smallest distance that needs k+1 bytes in the offset encoding.
fn leb_width_boundaries() -> Vec<u64> {
    let mut out = Vec::new();
    let mut b: u128 = 0;
    for k in 1..=9u32 {
        b += 1u128 << (7 * k);
        out.push(b as u64);
    }
    out
}

fn distances() -> Vec<u64> {
    let mut v = enumerate::boundaries_u64();
    for b in leb_width_boundaries() {
        v.extend([b - 2, b - 1, b, b + 1, b + 127, b + 128]);
    }
    for k in 0..10u32 {
        let s = 7 * k;
        v.push(((0x7fu128 << s) & u128::from(u64::MAX)) as u64);
        v.push(((0x40u128 << s) & u128::from(u64::MAX)) as u64);
    }
    v.extend([0x5555_5555_5555_5555, 0xaaaa_aaaa_aaaa_aaaa, 0x0123_4567_89ab_cdef, 0xfedc_ba98_7654_3210]);
    v.sort_unstable();
    v.dedup();
    v
}

const TRAILERS: [&[u8]; 5] = [
    b"",
    b"\x00",
    b"\xff\xff\xff\xff\xff\xff\xff\xff\xff\xff\xff\xff\xff\xff\xff\xff\xff\xff\xff\xff\xff\xff\xff\xff",
    b"\x80\x80\x80\x80\x80\x80\x80\x80\x80\x80\x80\x80\x80\x80\x80\x80\x80\x80\x80\x80\x80\x80\x80\x80",
    b"\x78\x9c\x03\x00\x00\x00\x00\x01",
];
const PACK_OFFSETS: [u64; 3] = [12, (1 << 32) + 5, 1 << 63];

#[derive(Serialize, Deserialize, Hash, Clone, Debug)]
struct HdrCase {
    kind: u8,
    size: u64,
    distance: u64,
    base: u8,
    pack_offset: u64,
    trailer: u8,
}

/// hands out one byte per `read` call and counts what it handed out
struct OneByte<'a> {
    d: &'a [u8],
    pos: usize,
}
impl std::io::Read for OneByte<'_> {
    fn read(&mut self, buf: &mut [u8]) -> std::io::Result<usize> {
        if buf.is_empty() || self.pos >= self.d.len() {
            return Ok(0);
        }
        buf[0] = self.d[self.pos];
        self.pos += 1;
        Ok(1)
    }
}

fn eval_header(c: &HdrCase) -> Verdict {
    let header = header_of(c.kind, c.distance, c.base);
    let type_id = TYPE_IDS[c.kind as usize];
    let mut bytes = Vec::new();
    let n = match header.write_to(c.size, &mut bytes) {
        Ok(n) => n,
        Err(e) => return bad("write_to-error", e),
    };
    if n != bytes.len() {
        return bad("written-count", format!("write_to returned {n} but wrote {} bytes", bytes.len()));
    }
    let sz = match vkit::catch(|| header.size(c.size)) {
        Ok(s) => s,
        Err(p) => return bad("size-panic", p),
    };
    if sz != n {
        return bad("size", format!("Header::size() = {sz}, write_to wrote {n}"));
    }
    // independent reference encoding
    let mut expect = ref_encode_size(type_id, c.size);
    match c.kind {
        4 => expect.extend(ref_encode_ofs(c.distance)),
        5 => expect.extend_from_slice(base_id(c.base).as_slice()),
        _ => {}
    }
    if bytes != expect {
        return bad("encode", format!("wrote {} but git's encoding is {}", vkit::bytes::escape(&bytes), vkit::bytes::escape(&expect)));
    }
    // closed-form reference decoder must invert the reference encoder (harness sanity)
    {
        let (t, s, used) = ref_decode_size(&expect).unwrap_or_else(|| vkit::machinery!("reference decoder: incomplete"));
        if t != type_id || s != u128::from(c.size) {
            vkit::machinery!("reference size decoder disagrees with reference encoder for {c:?}");
        }
        if c.kind == 4 {
            let (d, u2) = ref_decode_ofs(&expect[used..]).unwrap_or_else(|| vkit::machinery!("reference ofs decoder: incomplete"));
            if d != u128::from(c.distance) || used + u2 != expect.len() {
                vkit::machinery!("reference ofs decoder disagrees with reference encoder for {c:?}");
            }
        }
    }
    let mut buf = bytes.clone();
    buf.extend_from_slice(TRAILERS[c.trailer as usize]);
    let want = data::Entry { header, decompressed_size: c.size, data_offset: c.pack_offset + n as u64 };

    // from memory
    let got = match vkit::catch(|| data::Entry::from_bytes(&buf, c.pack_offset, 20)) {
        Ok(Ok(e)) => e,
        Ok(Err(e)) => return bad("from_bytes-error", e),
        Err(p) => return bad("from_bytes-panic", p),
    };
    if got != want {
        return bad("from_bytes", format!("decoded {got:?}, written {want:?} (bytes {})", vkit::bytes::escape(&bytes)));
    }
    // from a stream, one byte per read call
    let mut rd = OneByte { d: &buf, pos: 0 };
    let got_r = match vkit::catch(|| data::Entry::from_read(&mut rd, c.pack_offset, 20)) {
        Ok(Ok(e)) => e,
        Ok(Err(e)) => return bad("from_read-error", e),
        Err(p) => return bad("from_read-panic", p),
    };
    if got_r != want {
        return bad("from_read", format!("decoded {got_r:?}, written {want:?} (bytes {})", vkit::bytes::escape(&bytes)));
    }
    if rd.pos != n {
        return bad("from_read-consumed", format!("stream reader took {} bytes, header has {n}", rd.pos));
    }
    // from a stream that hands out everything at once
    let mut cur = std::io::Cursor::new(&buf);
    match vkit::catch(|| data::Entry::from_read(&mut cur, c.pack_offset, 20)) {
        Ok(Ok(e)) if e == want && cur.position() == n as u64 => {}
        other => return bad("from_read-cursor", format!("{other:?} position {} want {want:?}", cur.position())),
    }
    // derived accessors
    match vkit::catch(|| (got.header_size(), got.pack_offset())) {
        Ok((hs, po)) if hs == n && po == c.pack_offset => {}
        other => return bad("accessors", format!("header_size/pack_offset = {other:?}, want ({n}, {})", c.pack_offset)),
    }
    if c.kind == 4 && c.distance >= 1 && c.distance <= c.pack_offset {
        match vkit::catch(|| got.base_pack_offset(c.distance)) {
            Ok(b) if b == c.pack_offset - c.distance => {}
            other => return bad("base_pack_offset", format!("{other:?}, want {}", c.pack_offset - c.distance)),
        }
        if Header::verified_base_pack_offset(c.pack_offset, c.distance) != Some(c.pack_offset - c.distance) {
            return bad("verified_base_pack_offset", "wrong");
        }
    }
    // every strict prefix of the written header is an error for the stream reader (never a shorter header)
    for k in 0..n {
        let mut rd = OneByte { d: &bytes[..k], pos: 0 };
        if let Ok(e) = data::Entry::from_read(&mut rd, c.pack_offset, 20) {
            return bad("truncated-accepted", format!("prefix of {k}/{n} bytes decoded as {e:?}"));
        }
    }
    let size_bytes = ref_encode_size(type_id, c.size).len();
    let extra = n - size_bytes;
    if c.kind == 4 {
        ok(format!("ofs/distance-bytes={extra}"))
    } else {
        ok(format!("{}/size-bytes={}", KIND_NAMES[c.kind as usize], size_bytes))
    }
}

// ---------------------------------------------------------------------------------------------------------------
#[derive(Serialize, Deserialize, Hash, Clone, Debug)]
struct BytesCase {
    bytes: B,
}

fn eval_agreement(c: &BytesCase) -> Verdict {
    let s = &c.bytes.0;
    let Some((ty, size, used)) = ref_decode_size(s) else {
        // header continues past the input: only the stream reader has a defined answer (from_bytes documents a panic)
        let mut rd = OneByte { d: s, pos: 0 };
        return match vkit::catch(|| data::Entry::from_read(&mut rd, 12, 20)) {
            Ok(Err(_)) => ok_trivial("incomplete-size:stream-error"),
            Ok(Ok(e)) => bad("incomplete-accepted", format!("{e:?}")),
            Err(p) => bad("incomplete-panic", p),
        };
    };
    let mut buf = s.clone();
    let mut want_header = None;
    let mut consumed = used;
    match ty {
        1 => want_header = Some(Header::Commit),
        2 => want_header = Some(Header::Tree),
        3 => want_header = Some(Header::Blob),
        4 => want_header = Some(Header::Tag),
        6 => match ref_decode_ofs(&s[used..]) {
            Some((d, u2)) => {
                want_header = Some(Header::OfsDelta { base_distance: d as u64 });
                consumed += u2;
            }
            None => {
                let mut rd = OneByte { d: s, pos: 0 };
                return match vkit::catch(|| data::Entry::from_read(&mut rd, 12, 20)) {
                    Ok(Err(_)) => ok_trivial("incomplete-ofs:stream-error"),
                    Ok(Ok(e)) => bad("incomplete-accepted", format!("{e:?}")),
                    Err(p) => bad("incomplete-panic", p),
                };
            }
        },
        7 => {
            // the id follows the size header: use the rest of the string padded with 0xAB to 20 bytes
            while buf.len() < used + 20 {
                buf.push(0xAB);
            }
            want_header = Some(Header::RefDelta { base_id: ObjectId::from_bytes_or_panic(&buf[used..used + 20]) });
            consumed += 20;
        }
        _ => {}
    }
    let mut rd = OneByte { d: &buf, pos: 0 };
    let a = vkit::catch(|| data::Entry::from_bytes(&buf, 12, 20));
    let b = vkit::catch(|| data::Entry::from_read(&mut rd, 12, 20));
    match want_header {
        None => match (a, b) {
            (Ok(Err(_)), Ok(Err(_))) => ok(format!("type{ty}:both-reject")),
            (a, b) => bad("unsupported-type", format!("type {ty}: from_bytes {a:?} from_read {b:?}")),
        },
        Some(h) => {
            let want = data::Entry { header: h, decompressed_size: size as u64, data_offset: 12 + consumed as u64 };
            match (a, b) {
                (Ok(Ok(x)), Ok(Ok(y))) => {
                    if x != want {
                        return bad("from_bytes-vs-reference", format!("{x:?} want {want:?}"));
                    }
                    if y != want {
                        return bad("from_read-vs-reference", format!("{y:?} want {want:?}"));
                    }
                    if rd.pos != consumed {
                        return bad("from_read-consumed", format!("took {} want {consumed}", rd.pos));
                    }
                    ok(format!("type{ty}:size-bytes={used}:extra={}", consumed - used))
                }
                (a, b) => bad("decode-disagreement", format!("from_bytes {a:?} from_read {b:?} want {want:?}")),
            }
        }
    }
}

// ---------------------------------------------------------------------------------------------------------------
#[derive(Serialize, Deserialize, Hash, Clone, Debug)]
struct PackCase {
    /// "base" | "ofs" | "ref"
    shape: String,
    /// object kind index for shape=base (0 commit,1 tree,2 blob,3 tag)
    kind: u8,
    /// object size for shape=base
    size: u64,
    /// ofs-delta distance for shape=ofs
    distance: u64,
    /// exact length of the delta data for ofs/ref (0 = minimal delta)
    delta_len: u64,
}

const EMPTY_TREE: &str = "4b825dc642cb6eb9a060e54bf8d69288fbee4904";

fn content_for(kind: u8, size: usize) -> Option<Vec<u8>> {
    match kind {
        2 => Some((0..size).map(|i| (i.wrapping_mul(31) % 251) as u8).collect()),
        1 => {
            if size == 0 {
                return Some(Vec::new());
            }
            let n = size.checked_sub(28)?;
            if n == 0 {
                return None;
            }
            let mut v = b"100644 ".to_vec();
            v.extend(std::iter::repeat(b'a').take(n));
            v.push(0);
            v.extend_from_slice(&[0x11; 20]);
            Some(v)
        }
        0 => {
            let mut v = format!("tree {EMPTY_TREE}\nauthor A <a@b.c> 0 +0000\ncommitter A <a@b.c> 0 +0000\n\n").into_bytes();
            let pad = size.checked_sub(v.len())?;
            v.extend(std::iter::repeat(b'm').take(pad));
            Some(v)
        }
        _ => {
            let mut v = format!("object {EMPTY_TREE}\ntype tree\ntag t\ntagger A <a@b.c> 0 +0000\n\n").into_bytes();
            let pad = size.checked_sub(v.len())?;
            v.extend(std::iter::repeat(b'm').take(pad));
            Some(v)
        }
    }
}
const KINDS: [Kind; 4] = [Kind::Commit, Kind::Tree, Kind::Blob, Kind::Tag];

fn gix_header_bytes(h: Header, size: u64) -> Vec<u8> {
    let mut v = Vec::new();
    h.write_to(size, &mut v).unwrap_or_else(|e| vkit::machinery!("write_to Vec failed: {e}"));
    v
}

const BASE_CONTENT: &[u8; 20] = b"base-content-0123456";

/// delta against BASE_CONTENT with data of exactly `want_len` bytes (0 = the minimal copy+insert delta); returns (delta, result)
fn make_delta(want_len: usize) -> Option<(Vec<u8>, Vec<u8>)> {
    let build = |use_copy: bool, k: usize| -> (Vec<u8>, Vec<u8>) {
        let mut result = Vec::new();
        let mut cmds = Vec::new();
        if use_copy {
            cmds.extend_from_slice(&[0x90, 10]);
            result.extend_from_slice(&BASE_CONTENT[..10]);
        }
        let ins: Vec<u8> = (0..k).map(|i| b'A' + (i % 26) as u8).collect();
        for ch in ins.chunks(127) {
            cmds.push(ch.len() as u8);
            cmds.extend_from_slice(ch);
        }
        result.extend_from_slice(&ins);
        let mut d = delta_size_varint(20);
        d.extend(delta_size_varint(result.len() as u64));
        d.extend(cmds);
        (d, result)
    };
    if want_len == 0 {
        return Some(build(true, 3));
    }
    for use_copy in [true, false] {
        for k in 0..=want_len {
            if !use_copy && k == 0 {
                continue;
            }
            let (d, r) = build(use_copy, k);
            if d.len() == want_len {
                return Some((d, r));
            }
        }
    }
    None
}

struct Built {
    pack: Vec<u8>,
    /// (offset, kind, content, expected entry header)
    objects: Vec<(u64, Kind, Vec<u8>, Header)>,
}

fn blob_entry(content: &[u8]) -> RawEntry {
    RawEntry { header: gix_header_bytes(Header::Blob, content.len() as u64), body: zlib_stored(content) }
}

/// filler blob lengths whose entries add up to exactly `total` bytes
fn fillers_for(total: u64) -> Option<Vec<usize>> {
    if total == 0 {
        return Some(vec![]);
    }
    let f = |l: usize| (ref_encode_size(3, l as u64).len() + zlib_stored_len(l)) as u64;
    let solve = |r: u64| -> Option<usize> {
        if r < f(0) {
            return None;
        }
        let lo = (r as usize).saturating_sub(r as usize / 65535 * 5 + 64);
        (lo..=r as usize).find(|&l| f(l) == r)
    };
    if let Some(l) = solve(total) {
        return Some(vec![l]);
    }
    for l2 in 0..200usize {
        if let Some(rest) = total.checked_sub(f(l2)) {
            if let Some(l1) = solve(rest) {
                return Some(vec![l1, l2]);
            }
        }
    }
    None
}

fn build_pack_case(c: &PackCase) -> Option<Built> {
    match c.shape.as_str() {
        "base" => {
            let content = content_for(c.kind, c.size as usize)?;
            let kind = KINDS[c.kind as usize];
            let h = header_of(c.kind, 0, 0);
            let (pack, offs) =
                build_pack(&[RawEntry { header: gix_header_bytes(h, content.len() as u64), body: zlib_stored(&content) }]);
            Some(Built { pack, objects: vec![(offs[0], kind, content, h)] })
        }
        "ofs" | "ref" => {
            let (delta, result) = make_delta(c.delta_len as usize)?;
            let mut entries = vec![blob_entry(BASE_CONTENT)];
            let mut objects: Vec<(Kind, Vec<u8>, Header)> = vec![(Kind::Blob, BASE_CONTENT.to_vec(), Header::Blob)];
            let h = if c.shape == "ofs" {
                let base_len = (entries[0].header.len() + entries[0].body.len()) as u64;
                let fill = fillers_for(c.distance.checked_sub(base_len)?)?;
                for (i, l) in fill.iter().enumerate() {
                    let content = vec![i as u8 + 1; *l];
                    entries.push(blob_entry(&content));
                    objects.push((Kind::Blob, content, Header::Blob));
                }
                Header::OfsDelta { base_distance: c.distance }
            } else {
                Header::RefDelta { base_id: gix_object::compute_hash(SHA1, Kind::Blob, BASE_CONTENT) }
            };
            entries.push(RawEntry { header: gix_header_bytes(h, delta.len() as u64), body: zlib_stored(&delta) });
            objects.push((Kind::Blob, result, h));
            let (pack, offs) = build_pack(&entries);
            if c.shape == "ofs" && offs[offs.len() - 1] - offs[0] != c.distance {
                vkit::machinery!("filler computation wrong for distance {}", c.distance);
            }
            Some(Built { pack, objects: offs.into_iter().zip(objects).map(|(o, (k, c, h))| (o, k, c, h)).collect() })
        }
        _ => None,
    }
}

fn open_pack(path: &Path) -> Result<data::File, String> {
    match vkit::catch(|| data::File::at(path, SHA1)) {
        Ok(Ok(p)) => Ok(p),
        Ok(Err(e)) => Err(format!("open-pack: {e}")),
        Err(p) => Err(format!("open-pack-panic: {p}")),
    }
}

/// decode the entry at `offset`; resolve ref-deltas through `resolve`
fn gix_decode(
    pack: &data::File,
    offset: u64,
    resolve: &dyn Fn(&gix_hash::oid, &mut Vec<u8>) -> Option<data::decode::entry::ResolvedBase>,
) -> Result<(data::Entry, Kind, Vec<u8>, data::decode::entry::Outcome), String> {
    let entry = match vkit::catch(|| pack.entry(offset)) {
        Ok(Ok(e)) => e,
        Ok(Err(e)) => return Err(format!("entry-error: at {offset}: {e}")),
        Err(p) => return Err(format!("entry-panic: at {offset}: {p}")),
    };
    let mut out = Vec::new();
    let mut inflate = gix_features::zlib::Inflate::default();
    let e2 = entry.clone();
    let res = vkit::catch(|| pack.decode_entry(e2, &mut out, &mut inflate, resolve, &mut gix_pack::cache::Never));
    match res {
        Ok(Ok(o)) => {
            let k = o.kind;
            Ok((entry, k, out, o))
        }
        Ok(Err(e)) => Err(format!("decode-error: at {offset}: {e}")),
        Err(p) => Err(format!("decode-panic: at {offset}: {p}")),
    }
}

fn eval_pack_case(c: &PackCase) -> Verdict {
    let Some(built) = build_pack_case(c) else { return ok_trivial("not-constructible") };
    let dir = scratch::Dir::new("c07p");
    let repo = dir.join("r.git");
    // a minimal bare repository made by hand (saves one git process per case)
    for d in ["objects/pack", "refs/heads"] {
        if let Err(e) = std::fs::create_dir_all(repo.join(d)) {
            vkit::machinery!("mkdir: {e}");
        }
    }
    write_file(&repo.join("HEAD"), b"ref: refs/heads/main\n");
    let name = sha1(&built.pack[..built.pack.len() - 20]).to_string();
    let pack_path = repo.join(format!("objects/pack/pack-{name}.pack"));
    write_file(&pack_path, &built.pack);
    let o = git::try_git(&repo, &["index-pack".as_ref(), pack_path.as_os_str()]);
    if !o.ok {
        return bad("git-rejects-pack", format!("git index-pack: {}", o.err_text()));
    }
    let ids: Vec<ObjectId> = built.objects.iter().map(|(_, k, c, _)| gix_object::compute_hash(SHA1, *k, c)).collect();
    let stdin: String = ids.iter().map(|i| format!("{i}\n")).collect();
    let out = git::git_in(&repo, &["cat-file", "--batch"], stdin.as_bytes());
    let parsed = parse_cat_file_batch(&out);
    if parsed.len() != ids.len() {
        vkit::machinery!("cat-file --batch answered {} of {} requests", parsed.len(), ids.len());
    }
    for (i, ((off, kind, content, _), got)) in built.objects.iter().zip(&parsed).enumerate() {
        match got {
            None => return bad("git-missing", format!("object #{i} at offset {off} ({}) not found by git", ids[i])),
            Some((t, data)) => {
                if t != kind_name(*kind) || data != content {
                    return bad(
                        "git-reads-different",
                        format!("object #{i} at {off}: git sees {t} of {} bytes, written {} of {} bytes", data.len(), kind_name(*kind), content.len()),
                    );
                }
            }
        }
    }
    // gitoxide reads the same pack
    let pack = match open_pack(&pack_path) {
        Ok(p) => p,
        Err(e) => return Err(e),
    };
    let by_id: HashMap<ObjectId, u64> = ids.iter().cloned().zip(built.objects.iter().map(|o| o.0)).collect();
    let resolve = |id: &gix_hash::oid, _out: &mut Vec<u8>| {
        by_id.get(&id.to_owned()).and_then(|off| pack.entry(*off).ok()).map(data::decode::entry::ResolvedBase::InPack)
    };
    for (off, kind, content, hdr) in &built.objects {
        let (entry, k, data, _o) = gix_decode(&pack, *off, &resolve)?;
        if entry.header != *hdr {
            return bad("gix-header", format!("at {off}: {:?} want {hdr:?}", entry.header));
        }
        if k != *kind || &data != content {
            return bad("gix-reads-different", format!("at {off}: {} of {} bytes, want {} of {}", kind_name(k), data.len(), kind_name(*kind), content.len()));
        }
    }
    let last = built.objects.last().unwrap();
    let hdr_len = gix_header_bytes(last.3, if last.3.is_delta() { c.delta_len.max(1) } else { last.2.len() as u64 }).len();
    ok(format!("{}:{}:header-bytes={}", c.shape, kind_name(last.1), hdr_len))
}

// ---------------------------------------------------------------------------------------------------------------
struct Fix {
    repo: PathBuf,
    names: Vec<String>,
    texts: Vec<Vec<u8>>,
    blob: Vec<String>,
    tree: Vec<String>,
    commit: Vec<String>,
    index: HashMap<String, usize>,
    by_blob: HashMap<String, usize>,
    pair_commit: HashMap<(String, String), String>,
}

fn block(ch: char) -> Vec<u8> {
    match ch {
        'a' => enumerate::lcg_bytes(16, 1),
        'b' => enumerate::lcg_bytes(64, 2),
        'E' => enumerate::lcg_bytes(0x10001, 3),
        'F' => enumerate::lcg_bytes(0xffb0, 4),
        'Z' => enumerate::lcg_bytes(0x100_0000, 5),
        'T' => enumerate::lcg_bytes(0x10_0000, 6),
        _ => vkit::machinery!("unknown block {ch}"),
    }
}

const IDENT: &str = "author A U Thor <author@example.com> 1112911993 +0100\ncommitter C O Mitter <committer@example.com> 1112911993 +0100\n";

/// `git hash-object -w -t <kind> --stdin-paths` over one file per content: ids in order (one git process for all)
fn hash_objects_batch(repo: &Path, dir: &Path, kind: &str, contents: &[Vec<u8>]) -> Vec<String> {
    if contents.is_empty() {
        return Vec::new();
    }
    let mut paths = String::new();
    for (i, t) in contents.iter().enumerate() {
        let p = dir.join(format!("{kind}{i}"));
        write_file(&p, t);
        paths.push_str(&format!("{}\n", p.display()));
    }
    let out = git::git_in(repo, &["hash-object", "-w", "-t", kind, "--stdin-paths"], paths.as_bytes());
    let ids: Vec<String> = String::from_utf8_lossy(&out).lines().map(str::to_string).collect();
    if ids.len() != contents.len() {
        vkit::machinery!("hash-object returned {} ids for {} files", ids.len(), contents.len());
    }
    for i in 0..contents.len() {
        let _ = std::fs::remove_file(dir.join(format!("{kind}{i}")));
    }
    ids
}

/// Build the shared repository: one blob/tree/root-commit per text, and for every ordered pair (base,target) a commit
/// with tree(target) and parent commit(base) so that `pack-objects --thin --revs` sees base's blob as preferred delta base.
fn build_fixture(names: Vec<String>, pairs: &[(String, String)]) -> Fix {
    let dir = scratch::Dir::new("c07fix").keep();
    let repo = dir.join("r.git");
    git::init_bare(&repo);
    let blocks: HashMap<char, Vec<u8>> = "abEFZT".chars().filter(|c| names.iter().any(|n| n.contains(*c))).map(|c| (c, block(c))).collect();
    let texts: Vec<Vec<u8>> = names.iter().map(|n| n.chars().flat_map(|c| blocks[&c].iter().copied()).collect()).collect();
    let blob = hash_objects_batch(&repo, &dir, "blob", &texts);
    for (i, t) in texts.iter().enumerate() {
        if gix_object::compute_hash(SHA1, Kind::Blob, t).to_string() != blob[i] {
            vkit::machinery!("blob id mismatch in fixture for text {}", names[i]);
        }
    }
    let tree_in: String = blob.iter().map(|b| format!("100644 blob {b}\tf\n\n")).collect();
    let out = git::git_in(&repo, &["mktree", "--batch"], tree_in.as_bytes());
    let tree: Vec<String> = String::from_utf8_lossy(&out).lines().map(str::to_string).collect();
    if tree.len() != blob.len() {
        vkit::machinery!("mktree --batch returned {} ids for {} trees", tree.len(), blob.len());
    }
    let commits: Vec<Vec<u8>> = tree.iter().map(|t| format!("tree {t}\n{IDENT}\nbase\n").into_bytes()).collect();
    let commit = hash_objects_batch(&repo, &dir, "commit", &commits);
    let index: HashMap<String, usize> = names.iter().cloned().enumerate().map(|(i, n)| (n, i)).collect();
    let pair_contents: Vec<Vec<u8>> = pairs
        .iter()
        .map(|(b, t)| format!("tree {}\nparent {}\n{IDENT}\npair\n", tree[index[t]], commit[index[b]]).into_bytes())
        .collect();
    let pair_ids = hash_objects_batch(&repo, &dir, "commit", &pair_contents);
    let pair_commit = pairs.iter().cloned().zip(pair_ids).collect();
    let by_blob = blob.iter().cloned().enumerate().map(|(i, n)| (n, i)).collect();
    Fix { repo, names, texts, blob, tree, commit, index, by_blob, pair_commit }
}

#[derive(Serialize, Deserialize, Hash, Clone, Debug)]
struct ThinCase {
    base: String,
    target: String,
}

fn shape_class(prefix: &str, s: &DeltaShape) -> String {
    let m = |set: &BTreeSet<u8>| set.iter().map(|b| format!("{b:x}")).collect::<Vec<_>>().join("");
    format!(
        "{prefix}:copy-ofs-masks={}:copy-size-masks={}:inserts={}",
        m(&s.ofs_masks),
        m(&s.size_masks),
        if s.inserts == 0 { "0".to_string() } else { format!("{}..{}", s.min_insert, s.max_insert) }
    )
}

static DELTAS_SEEN: AtomicU64 = AtomicU64::new(0);
static COPY_64K: AtomicU64 = AtomicU64::new(0);
static CHAIN_GE2: AtomicU64 = AtomicU64::new(0);

/// raw (inflated) delta data of a delta entry, through the public `decompress_entry`
fn delta_data(pack: &data::File, entry: &data::Entry) -> Result<Vec<u8>, String> {
    let mut buf = vec![0u8; entry.decompressed_size as usize];
    let mut inflate = gix_features::zlib::Inflate::default();
    match vkit::catch(|| pack.decompress_entry(entry, &mut inflate, &mut buf)) {
        Ok(Ok(_)) => Ok(buf),
        Ok(Err(e)) => Err(format!("decompress-error: {e}")),
        Err(p) => Err(format!("decompress-panic: {p}")),
    }
}

static GIT_OFS4: AtomicU64 = AtomicU64::new(0);
fn note_shape(s: &DeltaShape) {
    DELTAS_SEEN.fetch_add(1, Ordering::Relaxed);
    if s.size_masks.contains(&0) {
        COPY_64K.fetch_add(1, Ordering::Relaxed);
    }
    if s.ofs_masks.iter().any(|m| m & 0b1000 != 0) {
        // a git-made delta that copies from a base offset >= 2^24 (fourth offset byte present)
        GIT_OFS4.fetch_add(1, Ordering::Relaxed);
    }
}

fn eval_thin(fix: &Fix, c: &ThinCase) -> Verdict {
    let (Some(&b), Some(&t)) = (fix.index.get(&c.base), fix.index.get(&c.target)) else {
        vkit::machinery!("case names texts that are not in the fixture: {c:?}")
    };
    let Some(cpair) = fix.pair_commit.get(&(c.base.clone(), c.target.clone())).cloned() else {
        vkit::machinery!("no pair commit in the fixture for {c:?}")
    };
    let stdin = format!("{cpair}\n^{}\n", fix.commit[b]);
    let pack_bytes = git::git_in(
        &fix.repo,
        &["-c", "pack.threads=1", "pack-objects", "--thin", "--stdout", "--revs", "--window=10", "--depth=50", "-q"],
        stdin.as_bytes(),
    );
    let dir = scratch::Dir::new("c07t");
    let path = dir.join("thin.pack");
    write_file(&path, &pack_bytes);
    let pack = open_pack(&path)?;
    let base_id = ObjectId::from_hex(fix.blob[b].as_bytes()).unwrap_or_else(|e| vkit::machinery!("bad hex from git: {e}"));
    let base_text = &fix.texts[b];
    let resolve = |id: &gix_hash::oid, out: &mut Vec<u8>| {
        (id == base_id.as_ref()).then(|| {
            out.clear();
            out.extend_from_slice(base_text);
            data::decode::entry::ResolvedBase::OutOfPack { kind: Kind::Blob, end: out.len() }
        })
    };
    let mut offset = 12u64;
    let mut class = None;
    let mut seen_target = false;
    for _ in 0..pack.num_objects() {
        let (entry, kind, data, outcome) = gix_decode(&pack, offset, &resolve)?;
        let id = gix_object::compute_hash(SHA1, kind, &data).to_string();
        if kind == Kind::Blob {
            if id != fix.blob[t] || data != fix.texts[t] {
                return bad(
                    "delta-result",
                    format!("blob at {offset} decodes to {} bytes id {id}; git packed {} ({} bytes); header {:?}", data.len(), fix.blob[t], fix.texts[t].len(), entry.header),
                );
            }
            seen_target = true;
            if let Header::RefDelta { base_id: bid } = entry.header {
                if bid != base_id {
                    vkit::machinery!("git chose a base that is not the requested one");
                }
                let dd = delta_data(&pack, &entry)?;
                match ref_apply_delta(base_text, &dd) {
                    Ok((r, shape)) => {
                        if r != fix.texts[t] {
                            vkit::machinery!("reference delta interpreter does not reproduce git's target for {c:?}");
                        }
                        note_shape(&shape);
                        class = Some(shape_class("ref-delta", &shape));
                    }
                    Err(e) => vkit::machinery!("reference delta interpreter rejects git's delta for {c:?}: {e}"),
                }
                // header-only decoding agrees on the object size
                let mut inflate = gix_features::zlib::Inflate::default();
                let hdr = vkit::catch(|| {
                    pack.decode_header(entry.clone(), &mut inflate, &|id| {
                        (id == base_id.as_ref()).then_some(data::decode::header::ResolvedBase::OutOfPack { kind: Kind::Blob, num_deltas: None })
                    })
                });
                match hdr {
                    Ok(Ok(h)) if h.object_size == data.len() as u64 && h.kind == Kind::Blob && h.num_deltas == 1 => {}
                    other => return bad("decode_header", format!("{other:?} for object of {} bytes", data.len())),
                }
            } else if entry.header.is_delta() {
                vkit::machinery!("unexpected ofs-delta in a thin pack of one blob");
            }
        } else if id != cpair && id != fix.tree[t] {
            return bad("non-blob-result", format!("{} at {offset} has id {id}, expected {cpair} or {}", kind_name(kind), fix.tree[t]));
        }
        offset = entry.data_offset + outcome.compressed_size as u64;
    }
    if offset != pack.pack_end() as u64 {
        return bad("traversal-end", format!("entries end at {offset}, pack data ends at {}", pack.pack_end()));
    }
    if !seen_target {
        vkit::machinery!("git did not pack the target blob for {c:?}");
    }
    match class {
        Some(c) => ok(c),
        None => ok_trivial("target-stored-whole"),
    }
}

#[derive(Serialize, Deserialize, Hash, Clone, Debug)]
struct FullCase {
    texts: Vec<String>,
    ref_delta: bool,
    window: u32,
    depth: u32,
}

fn eval_full(fix: &Fix, c: &FullCase) -> Verdict {
    let idxs: Vec<usize> = c
        .texts
        .iter()
        .map(|n| *fix.index.get(n).unwrap_or_else(|| vkit::machinery!("text {n} not in fixture")))
        .collect();
    let dir = scratch::Dir::new("c07f");
    let stdin: String = idxs.iter().map(|&i| format!("{}\n", fix.blob[i])).collect();
    let mut args: Vec<String> = vec!["-c".into(), "pack.threads=1".into(), "pack-objects".into(), "-q".into()];
    args.push(format!("--window={}", c.window));
    args.push(format!("--depth={}", c.depth));
    if !c.ref_delta {
        args.push("--delta-base-offset".into());
    }
    args.push(dir.join("p").display().to_string());
    let out = git::git_in(&fix.repo, &args, stdin.as_bytes());
    let hash = String::from_utf8_lossy(&out).trim().to_string();
    let pack_path = dir.join(format!("p-{hash}.pack"));
    let idx_path = dir.join(format!("p-{hash}.idx"));
    let pack = open_pack(&pack_path)?;
    let index = match vkit::catch(|| gix_pack::index::File::at(&idx_path, SHA1)) {
        Ok(Ok(i)) => i,
        other => return bad("open-index", format!("{:?}", other.map(|r| r.map(|_| ()).map_err(|e| e.to_string())))),
    };
    if index.num_objects() as usize != idxs.len() {
        vkit::machinery!("git packed {} objects, expected {}", index.num_objects(), idxs.len());
    }
    let resolve = |id: &gix_hash::oid, _out: &mut Vec<u8>| {
        index.lookup(id).and_then(|i| pack.entry(index.pack_offset_at_index(i)).ok()).map(data::decode::entry::ResolvedBase::InPack)
    };
    let mut classes = BTreeSet::new();
    let mut max_chain = 0;
    let mut n_delta = 0;
    for ie in index.iter() {
        let Some(&ti) = fix.by_blob.get(&ie.oid.to_string()) else { vkit::machinery!("git packed an unknown object {}", ie.oid) };
        let (entry, kind, data, outcome) = gix_decode(&pack, ie.pack_offset, &resolve)?;
        if kind != Kind::Blob || data != fix.texts[ti] {
            return bad(
                "delta-result",
                format!("object {} ({}) at {} decodes to {} of {} bytes, want blob of {}; header {:?}", ie.oid, fix.names[ti], ie.pack_offset, kind_name(kind), data.len(), fix.texts[ti].len(), entry.header),
            );
        }
        if outcome.object_size != data.len() as u64 {
            return bad("outcome-size", format!("outcome.object_size {} for {} bytes", outcome.object_size, data.len()));
        }
        if entry.header.is_delta() {
            n_delta += 1;
            max_chain = max_chain.max(outcome.num_deltas);
            match (c.ref_delta, entry.header) {
                (true, Header::OfsDelta { .. }) | (false, Header::RefDelta { .. }) => vkit::machinery!("git used the other delta flavour"),
                _ => {}
            }
            // the base as gitoxide resolves it, to run the reference interpreter on this single step
            let base_off = match entry.header {
                Header::OfsDelta { base_distance } => ie.pack_offset.checked_sub(base_distance),
                Header::RefDelta { base_id } => index.lookup(base_id).map(|i| index.pack_offset_at_index(i)),
                _ => None,
            };
            let Some(base_off) = base_off else { return bad("base-unresolvable", format!("{:?} at {}", entry.header, ie.pack_offset)) };
            let (_, _, base_data, _) = gix_decode(&pack, base_off, &resolve)?;
            let dd = delta_data(&pack, &entry)?;
            match ref_apply_delta(&base_data, &dd) {
                Ok((r, shape)) => {
                    if r != data {
                        return bad("reference-interpreter-differs", format!("object {} at {}", ie.oid, ie.pack_offset));
                    }
                    note_shape(&shape);
                    classes.insert(shape_class(if c.ref_delta { "ref" } else { "ofs" }, &shape));
                }
                Err(e) => return bad("base-wrong", format!("reference interpreter cannot apply the delta at {} to the base at {base_off}: {e}", ie.pack_offset)),
            }
            let mut inflate = gix_features::zlib::Inflate::default();
            let hdr = vkit::catch(|| {
                pack.decode_header(entry.clone(), &mut inflate, &|id| {
                    index.lookup(id).and_then(|i| pack.entry(index.pack_offset_at_index(i)).ok()).map(data::decode::header::ResolvedBase::InPack)
                })
            });
            match hdr {
                Ok(Ok(h)) if h.object_size == data.len() as u64 && h.kind == Kind::Blob && h.num_deltas == outcome.num_deltas => {}
                other => return bad("decode_header", format!("{other:?} for object of {} bytes with {} deltas", data.len(), outcome.num_deltas)),
            }
        }
    }
    if max_chain >= 2 {
        CHAIN_GE2.fetch_add(1, Ordering::Relaxed);
    }
    if n_delta == 0 {
        return ok_trivial("no-delta-chosen");
    }
    if idxs.len() > 2 {
        return ok(format!("{}:deltas={}:max-chain={}", if c.ref_delta { "ref" } else { "ofs" }, n_delta, max_chain));
    }
    ok(classes.into_iter().next().unwrap_or_default())
}

fn text_names(alpha: &[char], max_len: usize) -> Vec<String> {
    let mut v = Vec::new();
    enumerate::seqs(alpha, 1, max_len, |s| v.push(s.iter().collect::<String>()));
    v
}


// ---------------------------------------------------------------------------------------------------------------
// Hand-assembled deltas: every copy-offset byte count 1..4 and every copy-size byte count 0..3 at its boundary, against a base
// of 16 MiB + 256 KiB. All deltas live in ONE pack that `git index-pack` resolves; git's result is the oracle.
const HM_BASE_LEN: usize = 0x100_0000 + 0x4_0000;
const HM_OFFSETS: [u32; 13] =
    [0, 1, 0xff, 0x100, 0x101, 0xffff, 0x1_0000, 0x1_0001, 0xff_ffff, 0x100_0000, 0x100_0001, 0x100_0100, 0x101_0101];
const HM_SIZES: [u32; 9] = [1, 0xff, 0x100, 0x101, 0xffff, 0x1_0000, 0x1_0001, 0x2_0000, 0x2_01ff];

#[derive(Serialize, Deserialize, Hash, Clone, Debug, PartialEq, Eq)]
struct HandCase {
    ofs: u32,
    size: u32,
    /// also emit the zero bytes of offset and size (non-minimal but valid encoding; size 0x10000 then has explicit bytes)
    explicit: bool,
    ofs_delta: bool,
}

fn encode_copy(ofs: u32, size: u32, explicit: bool) -> Vec<u8> {
    let mut cmd = 0x80u8;
    let mut args = Vec::new();
    for i in 0..4 {
        let b = (ofs >> (8 * i)) as u8;
        if b != 0 || explicit {
            cmd |= 1 << i;
            args.push(b);
        }
    }
    if !(size == 0x1_0000 && !explicit) {
        for i in 0..3 {
            let b = (size >> (8 * i)) as u8;
            if b != 0 || explicit {
                cmd |= 0x10 << i;
                args.push(b);
            }
        }
    }
    let mut v = vec![cmd];
    v.extend(args);
    v
}

struct HandFix {
    pack: data::File,
    base_off: u64,
    /// per case: (entry offset, result as git reads it, delta has a fourth offset byte)
    entries: HashMap<HandCase, (u64, Vec<u8>, bool)>,
}
static HAND_OFS4: AtomicU64 = AtomicU64::new(0);
static HAND_SIZE_MASKS: AtomicU64 = AtomicU64::new(0);

fn hand_cases(quick: bool) -> Vec<HandCase> {
    let mut v = Vec::new();
    for &ofs in &HM_OFFSETS {
        for &size in &HM_SIZES {
            for explicit in [false, true] {
                for ofs_delta in [false, true] {
                    // quick: minimal encodings as ref-delta, explicit ones as ofs-delta; against the 16 MiB base only 3 sizes
                    if quick && (explicit != ofs_delta || (ofs >= 0xff_ffff && ![1, 0x1_0000, 0x1_0001].contains(&size))) {
                        continue;
                    }
                    v.push(HandCase { ofs, size, explicit, ofs_delta });
                }
            }
        }
    }
    v
}

fn is_big(c: &HandCase) -> bool {
    c.ofs >= 0xff_ffff
}

/// one pack per base: `big` = 16.25 MiB base for offsets around 2^24, otherwise a 256 KiB base
fn build_hand_fixture(cases: &[HandCase], big: bool) -> HandFix {
    let cases: Vec<HandCase> = cases.iter().filter(|c| is_big(c) == big).cloned().collect();
    let cases = &cases[..];
    let base = enumerate::lcg_bytes(if big { HM_BASE_LEN } else { 0x4_0000 }, 9);
    let base_id = gix_object::compute_hash(SHA1, Kind::Blob, &base);
    let mut entries = vec![blob_entry(&base)];
    let mut offset = 12 + (entries[0].header.len() + entries[0].body.len()) as u64;
    let mut meta: Vec<(HandCase, u64, Vec<u8>, bool)> = Vec::new();
    for (n, c) in cases.iter().enumerate() {
        let tag = format!("#{n};").into_bytes();
        let mut result = base[c.ofs as usize..(c.ofs + c.size) as usize].to_vec();
        result.extend_from_slice(&tag);
        let mut delta = delta_size_varint(base.len() as u64);
        delta.extend(delta_size_varint(result.len() as u64));
        delta.extend(encode_copy(c.ofs, c.size, c.explicit));
        delta.push(tag.len() as u8);
        delta.extend_from_slice(&tag);
        // harness sanity: the reference interpreter reproduces the intended result
        let shape = match ref_apply_delta(&base, &delta) {
            Ok((r, shape)) if r == result => shape,
            other => vkit::machinery!("hand-made delta for {c:?} is wrong: {:?}", other.map(|o| o.0.len())),
        };
        let h = if c.ofs_delta { Header::OfsDelta { base_distance: offset - 12 } } else { Header::RefDelta { base_id } };
        let e = RawEntry { header: gix_header_bytes(h, delta.len() as u64), body: zlib_stored(&delta) };
        meta.push((c.clone(), offset, result, shape.ofs_masks.iter().any(|m| m & 0b1000 != 0)));
        offset += (e.header.len() + e.body.len()) as u64;
        entries.push(e);
    }
    let (pack, offs) = build_pack(&entries);
    for (i, m) in meta.iter().enumerate() {
        if offs[i + 1] != m.1 {
            vkit::machinery!("offset bookkeeping wrong for hand-made delta {i}");
        }
    }
    let dir = scratch::Dir::new("c07hand").keep();
    let repo = dir.join("r.git");
    for d in ["objects/pack", "refs/heads"] {
        std::fs::create_dir_all(repo.join(d)).unwrap_or_else(|e| vkit::machinery!("mkdir: {e}"));
    }
    write_file(&repo.join("HEAD"), b"ref: refs/heads/main\n");
    let name = sha1(&pack[..pack.len() - 20]).to_string();
    let pack_path = repo.join(format!("objects/pack/pack-{name}.pack"));
    write_file(&pack_path, &pack);
    // git is the oracle: it must accept the pack and read every delta result as intended by the harness's encoder
    git::git(&repo, &["index-pack".as_ref(), pack_path.as_os_str()]);
    let ids: Vec<String> = meta.iter().map(|m| gix_object::compute_hash(SHA1, Kind::Blob, &m.2).to_string()).collect();
    let stdin: String = ids.iter().map(|i| format!("{i}\n")).collect();
    let out = git::git_in(&repo, &["cat-file", "--batch"], stdin.as_bytes());
    let parsed = parse_cat_file_batch(&out);
    if parsed.len() != meta.len() {
        vkit::machinery!("cat-file answered {} of {} hand-made deltas", parsed.len(), meta.len());
    }
    let mut map = HashMap::new();
    for ((c, off, result, ofs4), got) in meta.into_iter().zip(parsed) {
        match got {
            Some((t, d)) if t == "blob" && d == result => {
                map.insert(c, (off, d, ofs4));
            }
            other => vkit::machinery!("git reads the hand-made delta {c:?} differently than the harness intends: {:?}", other.map(|o| (o.0, o.1.len()))),
        }
    }
    let pack = open_pack(&pack_path).unwrap_or_else(|e| vkit::machinery!("gitoxide cannot open the hand-made pack: {e}"));
    HandFix { pack, base_off: 12, entries: map }
}

fn eval_hand(fix: &HandFix, c: &HandCase) -> Verdict {
    let Some((off, want, ofs4)) = fix.entries.get(c) else { vkit::machinery!("case {c:?} is not in the hand-made pack") };
    let resolve = |_id: &gix_hash::oid, _out: &mut Vec<u8>| fix.pack.entry(fix.base_off).ok().map(data::decode::entry::ResolvedBase::InPack);
    let (entry, kind, data, outcome) = gix_decode(&fix.pack, *off, &resolve)?;
    if c.ofs_delta != matches!(entry.header, Header::OfsDelta { .. }) {
        return bad("hand-header", format!("{:?}", entry.header));
    }
    if kind != Kind::Blob || &data != want {
        let at = data.iter().zip(want.iter()).position(|(a, b)| a != b);
        return bad(
            "delta-result",
            format!("copy(ofs={:#x}, size={:#x}, explicit={}) + insert decodes to {} bytes (first difference at {at:?}), git reads {} bytes", c.ofs, c.size, c.explicit, data.len(), want.len()),
        );
    }
    if outcome.object_size != want.len() as u64 || outcome.num_deltas != 1 {
        return bad("outcome", format!("{outcome:?}"));
    }
    if *ofs4 {
        HAND_OFS4.fetch_add(1, Ordering::Relaxed);
    }
    let enc = encode_copy(c.ofs, c.size, c.explicit);
    HAND_SIZE_MASKS.fetch_or(1 << ((enc[0] >> 4) & 7), Ordering::Relaxed);
    ok(format!("hand:{}:ofs-bytes-mask={:x}:size-bytes-mask={:x}", if c.ofs_delta { "ofs" } else { "ref" }, enc[0] & 0xf, (enc[0] >> 4) & 7))
}

pub fn run(run: &'static Run) {
    run.rule(
        "header: 6 header kinds x sizes {0,1,2^k(+-1) for every k incl. every 7-bit group boundary 2^(4+7j), 10^k(+-1), single-group patterns, MAX} \
         x ofs distances {same boundaries, B_j=sum 128^i (+-2,+-1,+127,+128) for every encoded width 1..10, MAX} / 4 base ids, x 5 trailing-byte variants x 3 pack offsets; \
         decode-agreement: all byte strings = 32 first bytes (type 0..7 x low nibble {0,f} x continuation) followed by <=5 (quick) / <=7 (thorough) bytes over {00,01,7f,80,ff}; \
         git-reads-ours: packs assembled from gitoxide-written headers + stored zlib bodies, object sizes up to 2^18+1 (quick) / 2^25+1 (thorough) and ofs distances at the 1|2, 2|3, 3|4 (thorough: 4|5) byte boundaries; \
         git-delta-*: texts = block sequences over a=16B,b=64B,E=0x10001B,F=0xffb0B: quick length<=3 over {b,E} + length<=2 over {a,b,E,F} (28 texts); thorough length<=3 over {a,b,E} + length<=2 over {a,b,E,F} (47 texts) plus pairs whose base has 16 MiB of filler in front of a shared 1 MiB block (git copies from offsets >= 2^24); handmade-delta: two packs of hand-encoded copy+insert deltas (256 KiB base; 16.25 MiB base for offsets >= ffffff, quick: sizes 1,10000,10001 there), copy offsets {0,1,ff,100,101,ffff,10000,10001,ffffff,1000000,1000001,1000100,1010101} x sizes {1,ff,100,101,ffff,10000,10001,20000,201ff} x {minimal, explicit-zero-bytes} encoding x {ref,ofs} (quick: minimal+ref, explicit+ofs), oracle = git index-pack + cat-file, all ordered pairs (thin, ref-delta forced by git) and all unordered pairs x {ofs,ref} (thorough; quick: ofs only, texts of <=2 blocks); \
         non-trivial = header round-tripped through both decoders / git produced a delta and gitoxide reproduced the target",
    );
    run.assume("git 2.39.5 (index-pack, cat-file, pack-objects) as oracle for pack contents; hand-written stored-zlib streams and pack assembly are trusted harness code (git index-pack validates them)");
    run.assume("from_bytes is only called on complete headers (it documents a panic otherwise); sizes/distances beyond u64 are outside the domain");
    run.budget_secs(run.pick(38.0, 580.0));

    let t0 = std::time::Instant::now();
    let lap = |name: &str| {
        run.cov(&format!("wall_s_until_after_{name}"), (t0.elapsed().as_secs_f64() * 10.0).round() / 10.0);
    };
    // ---- header ----
    let sizes = sizes();
    let dists = distances();
    run.cov("header_sizes", sizes.len());
    run.cov("header_distances", dists.len());
    run.sub(
        "header",
        |emit| {
            for kind in 0..6u8 {
                for &size in &sizes {
                    let ds: &[u64] = if kind == 4 { &dists } else { &[0] };
                    let bases: &[u8] = if kind == 5 { &[0, 1, 2, 3] } else { &[0] };
                    for &distance in ds {
                        for &base in bases {
                            for trailer in 0..TRAILERS.len() as u8 {
                                if kind == 4 {
                                    // ofs: the product size x distance is large; pair each trailer with one pack offset
                                    let pack_offset = PACK_OFFSETS[trailer as usize % 3];
                                    emit(HdrCase { kind, size, distance, base, pack_offset, trailer });
                                } else {
                                    for &pack_offset in &PACK_OFFSETS {
                                        emit(HdrCase { kind, size, distance, base, pack_offset, trailer });
                                    }
                                }
                            }
                        }
                    }
                }
            }
        },
        eval_header,
    );
    lap("header");
    for w in 1..=10 {
        let cls = format!("ofs/distance-bytes={w}");
        run.require(&format!("an ofs-delta distance of encoded width {w} was round-tripped"), run.is_replay() || run.outcome_count(&cls) > 0);
        let cls = format!("blob/size-bytes={w}");
        run.require(&format!("a size of encoded width {w} was round-tripped"), run.is_replay() || run.outcome_count(&cls) > 0);
    }

    // ---- decode-agreement ----
    let tail_max = run.pick(5, 7);
    run.sub(
        "decode-agreement",
        |emit| {
            let tails: [&[u8]; 5] = [b"\x00", b"\x01", b"\x7f", b"\x80", b"\xff"];
            for ty in 0..8u8 {
                for low in [0u8, 0xf] {
                    for cont in [0u8, 0x80] {
                        let first = cont | (ty << 4) | low;
                        enumerate::strings(&tails, 0, tail_max, |t| {
                            let mut v = vec![first];
                            v.extend_from_slice(t);
                            emit(BytesCase { bytes: B(v) });
                        });
                    }
                }
            }
        },
        eval_agreement,
    );
    lap("decode-agreement");

    // ---- git-reads-ours ----
    run.sub_with(
        "git-reads-ours",
        vkit::Opts::default().chunk(16),
        |emit| {
            let mut blob_sizes: Vec<u64> = vec![0, 1, 15, 16, 17, 2047, 2048, 2049, (1 << 18) - 1, 1 << 18, (1 << 18) + 1];
            if !run.quick() {
                blob_sizes.extend([(1 << 25) - 1, 1 << 25, (1 << 25) + 1]);
            }
            for &size in &blob_sizes {
                emit(PackCase { shape: "base".into(), kind: 2, size, distance: 0, delta_len: 0 });
            }
            for kind in [0u8, 1, 3] {
                for size in [0u64, 160, 2047, 2048, 2049, (1 << 18) - 1, 1 << 18, (1 << 18) + 1] {
                    emit(PackCase { shape: "base".into(), kind, size, distance: 0, delta_len: 0 });
                }
            }
            let bs = leb_width_boundaries();
            let nb = run.pick(3, 4);
            let mut ds: Vec<u64> = vec![32, 33, 100];
            for b in &bs[..nb] {
                ds.extend([b - 1, *b, b + 1]);
            }
            for distance in ds {
                emit(PackCase { shape: "ofs".into(), kind: 2, size: 0, distance, delta_len: 0 });
            }
            for delta_len in [0u64, 15, 16, 17, 2047, 2048, 2049] {
                emit(PackCase { shape: "ref".into(), kind: 2, size: 0, distance: 0, delta_len });
                if delta_len != 0 {
                    emit(PackCase { shape: "ofs".into(), kind: 2, size: 0, distance: 129, delta_len });
                }
            }
        },
        eval_pack_case,
    );
    lap("git-reads-ours");

    // ---- hand-assembled deltas with every offset/size byte count ----
    let hcases = hand_cases(run.quick());
    let hfix_small = build_hand_fixture(&hcases, false);
    let hfix_big = build_hand_fixture(&hcases, true);
    let (hfix_small, hfix_big) = (&hfix_small, &hfix_big);
    lap("handmade-fixture");
    run.sub_with(
        "handmade-delta",
        vkit::Opts::default().chunk(64),
        |emit| {
            // the copies from offsets >= 2^24 first
            hcases.iter().filter(|c| is_big(c)).cloned().for_each(&mut *emit);
            hcases.iter().filter(|c| !is_big(c)).cloned().for_each(&mut *emit);
        },
        |c| eval_hand(if is_big(c) { hfix_big } else { hfix_small }, c),
    );
    lap("handmade-delta");

    // ---- deltas made by git ----
    // quick: <=3 blocks over {b,E} plus <=2 blocks over {a,b,E,F} (28 texts); thorough: <=3 blocks over {a,b,E} plus <=2 blocks over {a,b,E,F} (47 texts)
    let mut names = if run.quick() { text_names(&['b', 'E'], 3) } else { text_names(&['a', 'b', 'E'], 3) };
    for n in text_names(&['a', 'b', 'E', 'F'], 2) {
        if !names.contains(&n) {
            names.push(n);
        }
    }
    // Copies from base offsets >= 2^24: Z = 16 MiB of filler in front of the shared 1 MiB block T. The target must be larger than
    // 1/32 of the base or git does not even try a delta (that is why the earlier 64 KiB targets were stored whole).
    let special_list: &[(&str, &str)] =
        if run.quick() { &[("ZT", "Tb")] } else { &[("ZT", "Tb"), ("ZbT", "bT"), ("ZTE", "TE"), ("ZaT", "TEb"), ("ZET", "bTa")] };
    let specials: Vec<(String, String)> = special_list.iter().map(|(a, b)| (a.to_string(), b.to_string())).collect();
    let regular = names.clone();
    for (a, b) in &specials {
        for n in [a, b] {
            if !names.contains(n) {
                names.push(n.clone());
            }
        }
    }
    run.cov("delta_texts", regular.len());
    let mut pairs: Vec<(String, String)> = specials.clone();
    for t in &regular {
        for b in &regular {
            if b != t {
                pairs.push((b.clone(), t.clone()));
            }
        }
    }
    let fix = build_fixture(names, &pairs);
    let fix = &fix;
    lap("fixture");
    run.sub_with(
        "git-delta-thin",
        vkit::Opts::default().chunk(256),
        |emit| {
            for (b, t) in &pairs {
                emit(ThinCase { base: b.clone(), target: t.clone() });
            }
        },
        |c| eval_thin(fix, c),
    );
    lap("git-delta-thin");
    run.sub_with(
        "git-delta-full",
        vkit::Opts::default().chunk(256),
        |emit| {
            for (i, a) in regular.iter().enumerate() {
                for b in &regular[i + 1..] {
                    for ref_delta in [false, true] {
                        // quick: ref-deltas are already covered by the thin packs; ofs-delta packs for texts of <= 2 blocks
                        if run.quick() && (ref_delta || a.len() > 2 || b.len() > 2) {
                            continue;
                        }
                        emit(FullCase { texts: vec![a.clone(), b.clone()], ref_delta, window: 10, depth: 50 });
                    }
                }
            }
        },
        |c| eval_full(fix, c),
    );
    lap("git-delta-full");
    run.sub_with(
        "git-delta-chain",
        vkit::Opts::default().chunk(16),
        |emit| {
            for ref_delta in [false, true] {
                for (window, depth) in [(2u32, 1u32), (2, 50), (10, 2), (10, 50), (250, 50), (250, 4095)] {
                    emit(FullCase { texts: regular.clone(), ref_delta, window, depth });
                }
            }
        },
        |c| eval_full(fix, c),
    );
    run.cov("deltas_applied_and_cross_checked", DELTAS_SEEN.load(Ordering::Relaxed));
    run.cov("deltas_with_64k_copy", COPY_64K.load(Ordering::Relaxed));
    run.cov("git_made_deltas_with_fourth_offset_byte", GIT_OFS4.load(Ordering::Relaxed));
    run.cov("handmade_deltas_with_fourth_offset_byte", HAND_OFS4.load(Ordering::Relaxed));
    run.cov("handmade_copy_size_byte_masks_seen_bitset", HAND_SIZE_MASKS.load(Ordering::Relaxed));
    run.require("hand-made deltas copying from offsets >= 2^24 were decoded", HAND_OFS4.load(Ordering::Relaxed) > 0);
    run.require("hand-made copies with 0 (implicit 0x10000), 1, 2 and 3 size bytes were decoded", {
        let m = HAND_SIZE_MASKS.load(Ordering::Relaxed);
        [0u64, 1, 3, 7, 4, 2].iter().all(|b| m & (1 << b) != 0)
    });
    run.cov("packs_with_chain_ge_2", CHAIN_GE2.load(Ordering::Relaxed));
    if !run.over_budget() {
        run.require("git produced deltas that were applied", DELTAS_SEEN.load(Ordering::Relaxed) > 100);
        run.require("a copy command with implicit size 0x10000 was applied", COPY_64K.load(Ordering::Relaxed) > 0);
        run.require("a delta chain of length >= 2 was resolved", CHAIN_GE2.load(Ordering::Relaxed) > 0);
        run.require("a git-made delta copying from a base offset >= 2^24 (fourth offset byte) was applied", GIT_OFS4.load(Ordering::Relaxed) > 0);
    }
}
