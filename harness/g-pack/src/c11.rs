//! C11 — loose objects written by gitoxide are git objects and read back exactly (E1 inputs + E5 truncation faults).
//!
//! Sub-checks
//! * `write-read`  every (kind, size, fill, write path): the object is written into a fresh objects directory by
//!                 `write_buf`, `write_stream` (4 read chunkings), `write` (typed object) or by `git hash-object -w`
//!                 (loose compression 0 / 1 / default / 9); id == git's id, exactly one file appears at the git path,
//!                 `git cat-file --batch` reads it as the same object, `try_find`/`try_header`/`contains`/`iter` agree.
//! * `overwrite-existing`  a file (intact or damaged as after a crash) already sits at the object's path: every write path must leave
//!                 a file that gitoxide and git read as the object, and nothing else in the objects directory.
//! * `truncate`    for files written by gitoxide and by git: the file is cut at EVERY length below its size (ftruncate, descending);
//!                 `try_find` must answer Err (or None), `try_header` Err or the correct header — never data.
use crate::util::*;
use gix_hash::ObjectId;
use gix_object::Kind;
use gix_odb::{loose, Write};
use serde::{Deserialize, Serialize};
use std::collections::HashMap;
use std::path::{Path, PathBuf};
use std::sync::atomic::{AtomicU64, Ordering};
use vkit::{bad, enumerate, git, ok, ok_trivial, scratch, Run, Verdict};

const KINDS: [Kind; 4] = [Kind::Blob, Kind::Tree, Kind::Commit, Kind::Tag];
const EMPTY_TREE: &str = "4b825dc642cb6eb9a060e54bf8d69288fbee4904";

fn filler(n: usize, fill: u8, printable: bool) -> Vec<u8> {
    match (fill, printable) {
        (0, false) => vec![0u8; n],
        (0, true) => vec![b'a'; n],
        (_, false) => enumerate::lcg_bytes(n, 11),
        (_, true) => enumerate::lcg_bytes(n, 11).into_iter().map(|b| b'!' + b % 90).collect(),
    }
}

/// object bytes of exactly `size` bytes for `kind` (valid object syntax for non-blobs), None if impossible
fn content(kind: Kind, size: usize, fill: u8) -> Option<Vec<u8>> {
    match kind {
        Kind::Blob => Some(filler(size, fill, false)),
        Kind::Tree => {
            if size == 0 {
                return Some(Vec::new());
            }
            let n = size.checked_sub(28)?;
            if n == 0 {
                return None;
            }
            let mut v = b"100644 ".to_vec();
            // file names must not contain '/' or NUL
            v.extend(filler(n, fill, true).into_iter().map(|b| if b == b'/' { b'_' } else { b }));
            v.push(0);
            v.extend_from_slice(&[0x11; 20]);
            Some(v)
        }
        Kind::Commit => {
            let mut v = format!("tree {EMPTY_TREE}\nauthor A <a@b.c> 0 +0000\ncommitter A <a@b.c> 0 +0000\n\n").into_bytes();
            let pad = size.checked_sub(v.len())?;
            v.extend(filler(pad, fill, true));
            Some(v)
        }
        Kind::Tag => {
            let mut v = format!("object {EMPTY_TREE}\ntype tree\ntag t\ntagger A <a@b.c> 0 +0000\n\n").into_bytes();
            let pad = size.checked_sub(v.len())?;
            v.extend(filler(pad, fill, true));
            Some(v)
        }
    }
}

fn header_len(kind: Kind, size: usize) -> usize {
    kind_name(kind).len() + 1 + size.to_string().len() + 1
}

fn sizes_for(kind: Kind, thorough: bool) -> Vec<usize> {
    let mut v: Vec<usize> = vec![0, 1, 2, 3];
    // inflated length (header + body) around the 64-byte header buffer of find_inner
    for total in [62usize, 63, 64, 65, 66] {
        for s in 0..total {
            if header_len(kind, s) + s == total {
                v.push(s);
            }
        }
    }
    if thorough || kind == Kind::Blob {
        let bs: &[usize] = if thorough { &[128, 192, 256, 4096, 8192, 32768, 65536] } else { &[256, 4096, 32768, 65536] };
        for &b in bs {
            v.extend([b - 1, b, b + 1]);
        }
    } else {
        v.extend([256, 4096, 32768]);
    }
    v.push(70_000);
    if thorough {
        v.extend([1024 - 1, 1024, 1025, 16383, 16384, 16385, 131_071, 131_072, 131_073, (1 << 20) - 1, 1 << 20, (1 << 20) + 1]);
    }
    v.sort_unstable();
    v.dedup();
    v
}

/// "buf" | "stream-all" | "stream-1" | "stream-7" | "stream-4096" | "typed" | "git" | "git-l0" | "git-l1" | "git-l9"
const GIX_PATHS: [&str; 6] = ["buf", "stream-all", "stream-1", "stream-7", "stream-4096", "typed"];
const GIT_PATHS: [&str; 4] = ["git", "git-l0", "git-l1", "git-l9"];

#[derive(Serialize, Deserialize, Hash, Clone, Debug, PartialEq, Eq)]
struct ObjCase {
    kind: u8,
    size: usize,
    fill: u8,
    path: String,
}

struct Chunked<'a> {
    d: &'a [u8],
    pos: usize,
    chunk: usize,
}
impl std::io::Read for Chunked<'_> {
    fn read(&mut self, buf: &mut [u8]) -> std::io::Result<usize> {
        let n = buf.len().min(self.chunk).min(self.d.len() - self.pos);
        buf[..n].copy_from_slice(&self.d[self.pos..self.pos + n]);
        self.pos += n;
        Ok(n)
    }
}

fn make_repo(dir: &scratch::Dir) -> (PathBuf, PathBuf) {
    let repo = dir.join("r.git");
    for d in ["objects", "refs/heads"] {
        if let Err(e) = std::fs::create_dir_all(repo.join(d)) {
            vkit::machinery!("mkdir: {e}");
        }
    }
    write_file(&repo.join("HEAD"), b"ref: refs/heads/main\n");
    let objects = repo.join("objects");
    (repo, objects)
}

fn list_files(root: &Path) -> Vec<String> {
    scratch::snapshot(root).into_iter().filter(|(_, v)| v.0 == 'f').map(|(k, _)| k).collect()
}

/// write `data` through the chosen path; returns the id or a violation message
fn write_object(path: &str, repo: &Path, objects: &Path, kind: Kind, data: &[u8]) -> Result<ObjectId, String> {
    let store = loose::Store::at(objects, SHA1);
    let res = match path {
        "buf" => vkit::catch(|| store.write_buf(kind, data)),
        "typed" => {
            let obj = match gix_object::ObjectRef::from_bytes(kind, data) {
                Ok(o) => o.into_owned(),
                Err(e) => vkit::machinery!("harness content for {kind:?} does not parse: {e}"),
            };
            let mut back = Vec::new();
            use gix_object::WriteTo;
            if obj.write_to(&mut back).is_err() || back != data {
                vkit::machinery!("harness content for {kind:?} is not canonical for the typed writer");
            }
            vkit::catch(|| store.write(&obj))
        }
        p if p.starts_with("stream-") => {
            let chunk = match &p[7..] {
                "all" => usize::MAX,
                n => n.parse().unwrap_or_else(|_| vkit::machinery!("bad path {p}")),
            };
            let mut rd = Chunked { d: data, pos: 0, chunk };
            vkit::catch(|| store.write_stream(kind, data.len() as u64, &mut rd))
        }
        p if p.starts_with("git") => {
            let mut args: Vec<String> = Vec::new();
            if let Some(l) = p.strip_prefix("git-l") {
                args.push("-c".into());
                args.push(format!("core.looseCompression={l}"));
            }
            args.extend(["hash-object", "-w", "--literally", "-t", kind_name(kind), "--stdin"].map(String::from));
            let out = git::git_in(repo, &args, data);
            let hex = String::from_utf8_lossy(&out).trim().to_string();
            return Ok(ObjectId::from_hex(hex.as_bytes()).unwrap_or_else(|e| vkit::machinery!("hash-object printed {hex:?}: {e}")));
        }
        p => vkit::machinery!("unknown write path {p}"),
    };
    match res {
        Ok(Ok(id)) => Ok(id),
        Ok(Err(e)) => Err(format!("write-error: {path}: {e}")),
        Err(p) => Err(format!("write-panic: {path}: {p}")),
    }
}

fn size_class(kind: Kind, size: usize) -> &'static str {
    let total = header_len(kind, size) + size;
    match total {
        0..=63 => "inflated<64",
        64 => "inflated=64",
        65..=4096 => "inflated<=4k",
        4097..=32768 => "inflated<=32k",
        _ => "inflated>32k",
    }
}

fn read_checks(store: &loose::Store, id: &ObjectId, kind: Kind, data: &[u8]) -> Result<(), String> {
    let mut buf = vec![0xEE; 3]; // a dirty buffer must not matter
    match vkit::catch(|| store.try_find(id, &mut buf).map(|o| o.map(|d| (d.kind, d.data.to_vec())))) {
        Ok(Ok(Some((k, d)))) => {
            if k != kind || d != data || (oracle_broken("c11-read") && data.len() == 256) {
                return Err(format!("read-back: try_find returns {} of {} bytes, written {} of {} bytes", kind_name(k), d.len(), kind_name(kind), data.len()));
            }
        }
        Ok(Ok(None)) => return Err("read-back-none: try_find does not find the object".to_string()),
        Ok(Err(e)) => return Err(format!("read-back-error: {e}")),
        Err(p) => return Err(format!("read-back-panic: {p}")),
    }
    match vkit::catch(|| store.try_header(id)) {
        Ok(Ok(Some((s, k)))) if s == data.len() as u64 && k == kind => {}
        other => return Err(format!("try_header: {other:?}, want ({}, {kind:?})", data.len())),
    }
    if !store.contains(id) {
        return Err("contains: false for a present object".into());
    }
    let ids: Vec<_> = store.iter().collect();
    if ids.len() != 1 || !matches!(&ids[0], Ok(i) if i == id) {
        return Err(format!("iter: {ids:?}, want exactly {id}"));
    }
    Ok(())
}

struct Ids(HashMap<(u8, usize, u8), String>);

/// ids of all contents as git computes them: one `git hash-object --stdin-paths` per kind
fn git_ids(contents: &[(u8, usize, u8)]) -> Ids {
    let dir = scratch::Dir::new("c11ids");
    let (repo, _) = make_repo(&dir);
    let mut map = HashMap::new();
    for (ki, kind) in KINDS.iter().enumerate() {
        let mine: Vec<&(u8, usize, u8)> = contents.iter().filter(|c| c.0 as usize == ki).collect();
        let mut paths = String::new();
        let mut keys = Vec::new();
        for c in mine {
            let Some(data) = content(*kind, c.1, c.2) else { continue };
            let p = dir.join(format!("o-{}-{}-{}", c.0, c.1, c.2));
            write_file(&p, &data);
            paths.push_str(&format!("{}\n", p.display()));
            keys.push(*c);
        }
        if keys.is_empty() {
            continue;
        }
        let out = git::git_in(&repo, &["hash-object", "--literally", "-t", kind_name(*kind), "--stdin-paths"], paths.as_bytes());
        let ids: Vec<String> = String::from_utf8_lossy(&out).lines().map(str::to_string).collect();
        if ids.len() != keys.len() {
            vkit::machinery!("hash-object answered {} of {}", ids.len(), keys.len());
        }
        for (k, id) in keys.into_iter().zip(ids) {
            map.insert(k, id);
        }
    }
    Ids(map)
}

static GIT_READS: AtomicU64 = AtomicU64::new(0);

/// `git cat-file --batch` must read `hex` from `repo` as exactly (kind, data)
fn git_reads(repo: &Path, hex: &str, kind: Kind, data: &[u8]) -> Result<(), String> {
    GIT_READS.fetch_add(1, Ordering::Relaxed);
    let out = git::try_git_in(repo, &["cat-file", "--batch"], format!("{hex}\n").as_bytes());
    if !out.ok {
        return Err(format!("git-cat-file-fails: {}", out.err_text()));
    }
    match parse_cat_file_batch(&out.stdout).into_iter().next() {
        Some(Some((t, d))) => {
            if t != kind_name(kind) || d != data {
                return Err(format!("git-reads-different: git sees {t} of {} bytes ({}), written {} of {} bytes", d.len(), out.err_text(), kind_name(kind), data.len()));
            }
            Ok(())
        }
        _ => Err(format!("git-missing: git cat-file does not find {hex}: {}", out.err_text())),
    }
}

/// write through one path into a fresh objects directory below `dir` and check everything that needs no git process;
/// returns (repo, bytes of the loose file)
fn write_and_check(dir: &scratch::Dir, path: &str, kind: Kind, data: &[u8], want_id: &str) -> Result<(PathBuf, Vec<u8>), String> {
    let repo = dir.join(format!("{path}.git"));
    for d in ["objects", "refs/heads"] {
        if let Err(e) = std::fs::create_dir_all(repo.join(d)) {
            vkit::machinery!("mkdir: {e}");
        }
    }
    write_file(&repo.join("HEAD"), b"ref: refs/heads/main\n");
    let objects = repo.join("objects");
    let id = write_object(path, &repo, &objects, kind, data)?;
    if id.to_string() != want_id {
        return Err(format!("id: {path} writes the object as {id}, git computes {want_id}"));
    }
    let hex = id.to_string();
    let rel = format!("{}/{}", &hex[..2], &hex[2..]);
    let files = list_files(&objects);
    if files != vec![rel.clone()] {
        return Err(format!("files: objects directory holds {files:?} after {path}, expected only {rel}"));
    }
    let store = loose::Store::at(&objects, SHA1);
    read_checks(&store, &id, kind, data).map_err(|e| format!("{e} [written by {path}]"))?;
    if !path.starts_with("git") {
        // writing the same object again succeeds and changes nothing
        let id2 = write_object(path, &repo, &objects, kind, data)?;
        if id2 != id || list_files(&objects) != vec![rel.clone()] {
            return Err(format!("rewrite: second {path} yields {id2}, files {:?}", list_files(&objects)));
        }
        read_checks(&store, &id, kind, data).map_err(|e| format!("{e} [after second {path}]"))?;
    }
    let bytes = std::fs::read(objects.join(&rel)).unwrap_or_else(|e| vkit::machinery!("read back loose file: {e}"));
    Ok((repo, bytes))
}

fn eval_write_read(ids: &Ids, c: &ObjCase) -> Verdict {
    let kind = KINDS[c.kind as usize];
    let Some(data) = content(kind, c.size, c.fill) else { return ok_trivial("not-constructible") };
    let Some(want_id) = ids.0.get(&(c.kind, c.size, c.fill)) else { vkit::machinery!("no git id precomputed for {c:?}") };
    let dir = scratch::Dir::new("c11w");
    if c.path == "gix-all" {
        // all six gitoxide write paths; git is asked to read every *distinct* file they produce
        let mut seen: Vec<Vec<u8>> = Vec::new();
        for path in GIX_PATHS {
            if path == "stream-1" && c.size > 70_000 {
                continue;
            }
            let (repo, bytes) = write_and_check(&dir, path, kind, &data, want_id)?;
            if !seen.contains(&bytes) {
                git_reads(&repo, want_id, kind, &data).map_err(|e| format!("{e} [written by {path}]"))?;
                seen.push(bytes);
            }
        }
        return ok(format!("gix-all:{}:{}:distinct-files={}", kind_name(kind), size_class(kind, c.size), seen.len()));
    }
    let (repo, _bytes) = write_and_check(&dir, &c.path, kind, &data, want_id)?;
    git_reads(&repo, want_id, kind, &data)?;
    ok(format!("{}:{}:{}", c.path, kind_name(kind), size_class(kind, c.size)))
}

#[derive(Serialize, Deserialize, Hash, Clone, Debug)]
struct TruncCase {
    obj: ObjCase,
    /// this case covers truncation lengths in [len*part/parts, len*(part+1)/parts)
    part: u32,
    parts: u32,
}

static TRUNCATIONS: AtomicU64 = AtomicU64::new(0);
static TRUNC_HEADER_OK: AtomicU64 = AtomicU64::new(0);


// ---------------------------------------------------------------------------------------------------------------
/// A file already sits at the object's path (intact, or damaged as after a crash); writing the object must leave a file that
/// git and gitoxide read as the object.
#[derive(Serialize, Deserialize, Hash, Clone, Debug)]
struct OverCase {
    obj: ObjCase,
    /// "git" | "gix" (intact copies) | "half" | "minus1" | "empty" | "garbage"
    pre: String,
}
static HEALED: AtomicU64 = AtomicU64::new(0);

fn eval_overwrite(ids: &Ids, c: &OverCase) -> Verdict {
    use std::os::unix::fs::PermissionsExt;
    let kind = KINDS[c.obj.kind as usize];
    let Some(data) = content(kind, c.obj.size, c.obj.fill) else { return ok_trivial("not-constructible") };
    let Some(want_id) = ids.0.get(&(c.obj.kind, c.obj.size, c.obj.fill)) else { vkit::machinery!("no git id precomputed for {c:?}") };
    let dir = scratch::Dir::new("c11o");
    let (repo, objects) = make_repo(&dir);
    let rel = format!("{}/{}", &want_id[..2], &want_id[2..]);
    let target = objects.join(&rel);
    // --- pre-state ---
    if c.pre == "git" {
        let id = write_object("git", &repo, &objects, kind, &data)?;
        if id.to_string() != *want_id {
            vkit::machinery!("git wrote {id}, expected {want_id}");
        }
    } else {
        // an intact file as gitoxide writes it (made in a side directory), then damaged as requested
        let side = scratch::Dir::new("c11os");
        let (srepo, sobjects) = make_repo(&side);
        let id = write_object("buf", &srepo, &sobjects, kind, &data)?;
        if id.to_string() != *want_id {
            return bad("id", format!("write_buf writes {id}, git computes {want_id}"));
        }
        let intact = std::fs::read(sobjects.join(&rel)).unwrap_or_else(|e| vkit::machinery!("read side copy: {e}"));
        let pre: Vec<u8> = match c.pre.as_str() {
            "gix" => intact,
            "half" => intact[..intact.len() / 2].to_vec(),
            "minus1" => intact[..intact.len() - 1].to_vec(),
            "empty" => Vec::new(),
            "garbage" => enumerate::lcg_bytes(intact.len(), 77),
            p => vkit::machinery!("unknown pre-state {p}"),
        };
        std::fs::create_dir_all(target.parent().unwrap()).unwrap_or_else(|e| vkit::machinery!("mkdir: {e}"));
        write_file(&target, &pre);
        // object files are read-only
        let _ = std::fs::set_permissions(&target, std::fs::Permissions::from_mode(0o444));
    }
    let store = loose::Store::at(&objects, SHA1);
    let id = ObjectId::from_hex(want_id.as_bytes()).unwrap_or_else(|e| vkit::machinery!("bad hex: {e}"));
    let damaged = !matches!(c.pre.as_str(), "git" | "gix");
    if damaged {
        // harness sanity: the damaged pre-state really is unreadable
        let mut buf = Vec::new();
        if matches!(store.try_find(&id, &mut buf), Ok(Some(_))) {
            vkit::machinery!("pre-state {} of {c:?} reads as an object", c.pre);
        }
    }
    // --- the write ---
    let got = write_object(&c.obj.path, &repo, &objects, kind, &data)?;
    if got != id {
        return bad("id", format!("{} writes the object as {got}, git computes {want_id}", c.obj.path));
    }
    let files = list_files(&objects);
    if files != vec![rel.clone()] {
        return bad("files", format!("objects directory holds {files:?} after {} over a {} file, expected only {rel}", c.obj.path, c.pre));
    }
    read_checks(&store, &id, kind, &data).map_err(|e| format!("{e} [after {} over a pre-existing {} file]", c.obj.path, c.pre))?;
    git_reads(&repo, want_id, kind, &data).map_err(|e| format!("{e} [after {} over a pre-existing {} file]", c.obj.path, c.pre))?;
    if damaged {
        HEALED.fetch_add(1, Ordering::Relaxed);
    }
    ok(format!("over-{}:{}:{}:{}", c.pre, c.obj.path, kind_name(kind), size_class(kind, c.obj.size)))
}

fn eval_truncate(c: &TruncCase) -> Verdict {
    let kind = KINDS[c.obj.kind as usize];
    let Some(data) = content(kind, c.obj.size, c.obj.fill) else { return ok_trivial("not-constructible") };
    let dir = scratch::Dir::new("c11t");
    let (repo, objects) = make_repo(&dir);
    let id = write_object(&c.obj.path, &repo, &objects, kind, &data)?;
    let store = loose::Store::at(&objects, SHA1);
    let path = store.object_path(&id);
    let full = std::fs::read(&path).unwrap_or_else(|e| vkit::machinery!("cannot read the object file just written: {e}"));
    // a private copy that we may cut (object files are read-only)
    let dir2 = scratch::Dir::new("c11t2");
    let (_repo2, objects2) = make_repo(&dir2);
    let store2 = loose::Store::at(&objects2, SHA1);
    let path2 = store2.object_path(&id);
    std::fs::create_dir_all(path2.parent().unwrap()).unwrap_or_else(|e| vkit::machinery!("mkdir: {e}"));
    let len = full.len() as u64;
    let lo = len * u64::from(c.part) / u64::from(c.parts);
    let hi = len * (u64::from(c.part) + 1) / u64::from(c.parts);
    // start from the prefix of length `hi`, then cut downwards with ftruncate
    write_file(&path2, &full[..hi as usize]);
    let f = std::fs::OpenOptions::new().write(true).open(&path2).unwrap_or_else(|e| vkit::machinery!("open copy: {e}"));
    if c.part + 1 == c.parts {
        // sanity: the complete copy reads back
        read_checks(&store2, &id, kind, &data).map_err(|e| format!("untruncated-copy-{e}"))?;
    }
    let mut buf = Vec::new();
    let mut header_ok = 0u64;
    let mut l = hi;
    while l > lo {
        l -= 1;
        if l >= len {
            continue;
        }
        f.set_len(l).unwrap_or_else(|e| vkit::machinery!("ftruncate: {e}"));
        match vkit::catch(|| store2.try_find(&id, &mut buf).map(|o| o.map(|d| (d.kind, d.data.len(), d.data == &data[..])))) {
            Ok(Err(_)) | Ok(Ok(None)) => {}
            Ok(Ok(Some((k, n, same)))) => {
                let class = if same && k == kind {
                    "truncated-file-read-as-complete"
                } else if n < data.len() {
                    "truncated-file-read-as-shorter-data"
                } else {
                    "truncated-file-read-as-wrong-data"
                };
                return bad(class, format!("file of {len} bytes cut to {l} bytes: try_find returns Ok({} of {n} bytes), object has {} bytes", kind_name(k), data.len()));
            }
            Err(p) => return bad("truncated-panic", format!("file of {len} bytes cut to {l}: {p}")),
        }
        match vkit::catch(|| store2.try_header(&id)) {
            Ok(Err(_)) => {}
            Ok(Ok(Some((s, k)))) if s == data.len() as u64 && k == kind => header_ok += 1,
            Ok(Ok(other)) => return bad("truncated-header-wrong", format!("file of {len} bytes cut to {l}: try_header = {other:?}, object is ({}, {kind:?})", data.len())),
            Err(p) => return bad("truncated-header-panic", format!("file of {len} bytes cut to {l}: {p}")),
        }
    }
    TRUNCATIONS.fetch_add(hi.min(len) - lo, Ordering::Relaxed);
    TRUNC_HEADER_OK.fetch_add(header_ok, Ordering::Relaxed);
    if hi == lo {
        return ok_trivial("empty-range");
    }
    ok(format!("cut:{}:{}:{}", c.obj.path, kind_name(kind), size_class(kind, c.obj.size)))
}

pub fn run(run: &'static Run) {
    let thorough = !run.quick();
    run.rule(
        "write-read: kinds {blob,tree,commit,tag} x sizes {0,1,2,3, every size with header+body in 62..66 (64-byte header buffer), 70000, and quick: blobs 2^k-1/2^k/2^k+1 for 256,4096,32768,65536, other kinds 256,4096,32768; \
         thorough: all kinds 2^k(+-1) for 128,192,256,1024,4096,8192,16384,32768,65536,131072,2^20} x fill {compressible (zeros / 'a'), incompressible LCG bytes (printable for non-blobs)} \
         x write path {write_buf, write_stream with reads of all/1/7/4096 bytes (1-byte reads up to 70000 bytes), write(typed object) — one case runs all six and lets git read every distinct file they produce —, \
         git hash-object -w with core.looseCompression default/0 (quick) + 1/9 (thorough)}; \
         overwrite-existing: reduced contents (blobs of 0, header+body==64, 4096, 70000 bytes and a 256-byte commit; thorough also 256/32768-byte blobs, a tree, a tag) x write path {write_buf, write_stream all/1 (thorough also 7/4096), typed} \
         x file already at the object path {intact by git, intact by gitoxide, cut at len/2, cut by 1 byte, empty, garbage of the same length}: after the write the id is git's, only that file exists, try_find/try_header/contains/iter and git cat-file read the object; \
         truncate: for the files written by write_buf, git (default) and git level 0: EVERY length 0..file_len-1 (files of objects > 9000 bytes that do not compress are split into 16 ranges; such big files are cut at every length for all blob sizes <= 131073 and for trees/commits/tags of 32768 and 70000 bytes in thorough, only for blobs of 32768 and 70000 bytes written by write_buf/git in quick; skipped above 140000 bytes); \
         non-trivial = object written, id == git's, read back by git and gitoxide / a non-empty range of truncations all refused",
    );
    run.assume("git 2.39.5 hash-object --literally (id oracle), cat-file --batch (reader oracle); non-blob contents are syntactically valid objects padded to the wanted size");
    run.assume("write_stream is given the true length of its stream");
    run.budget_secs(run.pick(38.0, 580.0));

    let mut contents: Vec<(u8, usize, u8)> = Vec::new();
    for (ki, kind) in KINDS.iter().enumerate() {
        for size in sizes_for(*kind, thorough) {
            for fill in [0u8, 1] {
                if content(*kind, size, fill).is_some() {
                    contents.push((ki as u8, size, fill));
                }
            }
        }
    }
    run.cov("distinct_contents", contents.len());
    let ids = git_ids(&contents);
    let ids = &ids;
    let t0 = std::time::Instant::now();
    let lap = |name: &str| run.cov(&format!("wall_s_until_after_{name}"), (t0.elapsed().as_secs_f64() * 10.0).round() / 10.0);
    run.sub_with(
        "write-read",
        vkit::Opts::default().chunk(256),
        |emit| {
            for &(kind, size, fill) in &contents {
                emit(ObjCase { kind, size, fill, path: "gix-all".to_string() });
                for path in GIT_PATHS {
                    // quick: default level and level 0 (stored blocks)
                    if run.quick() && (path == "git-l1" || path == "git-l9") {
                        continue;
                    }
                    emit(ObjCase { kind, size, fill, path: path.to_string() });
                }
            }
        },
        |c| eval_write_read(ids, c),
    );
    lap("write-read");
    // reduced content set for the pre-existing-file sub-check: blobs of 0 / header+body==64 / 4096 / 70000 bytes, one commit
    // (thorough: also 256 and 32768 bytes and a tree and a tag)
    let hb = sizes_for(Kind::Blob, false).into_iter().find(|&sz| header_len(Kind::Blob, sz) + sz == 64).unwrap_or(57);
    let mut over: Vec<(u8, usize, u8)> = Vec::new();
    for &(kind, size, fill) in &contents {
        let blob_sizes: &[usize] = if thorough { &[0, 256, 4096, 32768, 70_000] } else { &[0, 4096, 70_000] };
        let keep = match kind {
            0 => (size == hb || blob_sizes.contains(&size)) && !(size == 0 && fill == 1),
            2 => size == 256 && fill == 1,
            _ => thorough && size == 256 && fill == 1,
        };
        if keep {
            over.push((kind, size, fill));
        }
    }
    run.cov("overwrite_contents", over.len());
    run.sub_with(
        "overwrite-existing",
        vkit::Opts::default().chunk(128),
        |emit| {
            // damaged pre-states first
            for pre in ["half", "minus1", "empty", "garbage", "gix", "git"] {
                for &(kind, size, fill) in &over {
                    for path in GIX_PATHS {
                        if run.quick() && (path == "stream-7" || path == "stream-4096") {
                            continue;
                        }
                        emit(OverCase { obj: ObjCase { kind, size, fill, path: path.to_string() }, pre: pre.to_string() });
                    }
                }
            }
        },
        |c| eval_overwrite(ids, c),
    );
    lap("overwrite-existing");
    run.cov("damaged_files_replaced_by_a_write", HEALED.load(Ordering::Relaxed));
    run.require("writes over damaged pre-existing files were evaluated", HEALED.load(Ordering::Relaxed) > 0);
    run.sub_with(
        "truncate",
        vkit::Opts::default().chunk(128),
        |emit| {
            for &(kind, size, fill) in &contents {
                for path in ["buf", "git", "git-l0"] {
                    // is the file on disk about as large as the object (incompressible content or stored blocks)?
                    let file_big = (fill == 1 || path == "git-l0") && size > 9000;
                    if file_big && size > 140_000 {
                        // megabyte-sized files: every length would mean 10^6 inflations of up to 1 MiB each (not covered)
                        continue;
                    }
                    // quick: every-length truncation of big files only for the blobs of 32768 and 70000 bytes written by write_buf and git
                    if file_big && run.quick() && (kind != 0 || path == "git-l0" || (size != 32768 && size != 70_000)) {
                        continue;
                    }
                    // thorough: big files of trees/commits/tags only for 32768 and 70000 bytes (written by write_buf and git)
                    if file_big && kind != 0 && (path == "git-l0" || (size != 32768 && size != 70_000)) {
                        continue;
                    }
                    let parts = if file_big { 16 } else { 1 };
                    for part in 0..parts {
                        emit(TruncCase { obj: ObjCase { kind, size, fill, path: path.to_string() }, part, parts });
                    }
                }
            }
        },
        eval_truncate,
    );
    run.cov("git_cat_file_reads", GIT_READS.load(Ordering::Relaxed));
    run.cov("truncation_lengths_evaluated", TRUNCATIONS.load(Ordering::Relaxed));
    run.cov("truncations_where_header_still_readable", TRUNC_HEADER_OK.load(Ordering::Relaxed));
    if !run.over_budget() {
        run.require("truncations were evaluated", TRUNCATIONS.load(Ordering::Relaxed) > 1000);
        run.require(
            "an object with header+body == 64 bytes was written and read",
            run.outcome_count("gix-all:blob:inflated=64:distinct-files=1") + run.outcome_count("gix-all:blob:inflated=64:distinct-files=2") > 0,
        );
        run.require("objects written by git were read", run.outcome_count("git:blob:inflated>32k") > 0);
    }
}
