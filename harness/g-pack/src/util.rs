//! Harness-side helpers shared by the g-pack checks: hand-written zlib "stored" streams, a minimal pack writer,
//! reference (git-transcribed / closed-form) varint codecs and a reference delta interpreter.
#![allow(dead_code)]
use std::path::Path;

pub const SHA1: gix_hash::Kind = gix_hash::Kind::Sha1;

/// Self-test switch: `VERIF_BREAK_ORACLE=<name>` deliberately breaks one reference/oracle of the harness so that the
/// violation + replay machinery can be exercised without touching /repo (see notes/CNN.md). Never set in normal runs.
pub fn oracle_broken(name: &str) -> bool {
    static V: std::sync::OnceLock<Option<String>> = std::sync::OnceLock::new();
    V.get_or_init(|| std::env::var("VERIF_BREAK_ORACLE").ok()).as_deref() == Some(name)
}

pub fn adler32(data: &[u8]) -> u32 {
    let (mut a, mut b) = (1u32, 0u32);
    for chunk in data.chunks(5000) {
        for &x in chunk {
            a += u32::from(x);
            b += a;
        }
        a %= 65521;
        b %= 65521;
    }
    (b << 16) | a
}

/// A valid zlib stream that stores `data` uncompressed: its length is exactly `zlib_stored_len(data.len())`.
pub fn zlib_stored(data: &[u8]) -> Vec<u8> {
    let mut out = Vec::with_capacity(data.len() + 16 + data.len() / 65535 * 5);
    out.extend_from_slice(&[0x78, 0x01]);
    if data.is_empty() {
        out.extend_from_slice(&[1, 0, 0, 0xff, 0xff]);
    } else {
        let n = data.len().div_ceil(65535);
        for (i, c) in data.chunks(65535).enumerate() {
            let l = c.len() as u16;
            out.push(u8::from(i + 1 == n));
            out.extend_from_slice(&l.to_le_bytes());
            out.extend_from_slice(&(!l).to_le_bytes());
            out.extend_from_slice(c);
        }
    }
    out.extend_from_slice(&adler32(data).to_be_bytes());
    out
}
pub fn zlib_stored_len(n: usize) -> usize {
    2 + 5 * n.div_ceil(65535).max(1) + n + 4
}

pub fn sha1(data: &[u8]) -> gix_hash::ObjectId {
    let mut h = gix_features::hash::hasher(SHA1);
    h.update(data);
    gix_hash::ObjectId::from(h.digest())
}

/// Reference encoder for the type+size header, transcribed from git's `encode_in_pack_object_header`.
pub fn ref_encode_size(type_id: u8, mut size: u64) -> Vec<u8> {
    let mut out = Vec::new();
    let mut c = (type_id << 4) | (size & 15) as u8;
    size >>= 4;
    while size != 0 {
        out.push(c | 0x80);
        c = (size & 0x7f) as u8;
        size >>= 7;
    }
    out.push(c);
    out
}
/// Reference encoder for the ofs-delta distance, transcribed from git's builtin/pack-objects.c.
pub fn ref_encode_ofs(mut ofs: u64) -> Vec<u8> {
    let mut buf = [0u8; 10];
    let mut pos = 9;
    buf[pos] = (ofs & 127) as u8;
    loop {
        ofs >>= 7;
        if ofs == 0 {
            break;
        }
        if !oracle_broken("c07-ofs") {
            ofs -= 1;
        }
        pos -= 1;
        buf[pos] = 128 | (ofs & 127) as u8;
    }
    buf[pos..].to_vec()
}
/// Closed-form reference decoder of the type+size header: (type, size, consumed) or None if `d` ends inside the header.
pub fn ref_decode_size(d: &[u8]) -> Option<(u8, u128, usize)> {
    let c = *d.first()?;
    let ty = (c >> 4) & 7;
    let mut size = u128::from(c & 15);
    let mut i = 1;
    let mut cont = c & 0x80 != 0;
    let mut k = 0u32;
    while cont {
        let c = *d.get(i)?;
        i += 1;
        if 4 + 7 * k < 120 {
            size += u128::from(c & 0x7f) << (4 + 7 * k);
        }
        k += 1;
        cont = c & 0x80 != 0;
    }
    Some((ty, size, i))
}
/// Closed-form reference decoder of the ofs-delta distance: value = sum(g_i * 128^(n-1-i)) + sum_{j=1..n-1} 128^j.
pub fn ref_decode_ofs(d: &[u8]) -> Option<(u128, usize)> {
    let mut n = 0;
    loop {
        let c = *d.get(n)?;
        n += 1;
        if c & 0x80 == 0 {
            break;
        }
    }
    if n > 17 {
        return Some((u128::MAX, n));
    }
    let mut v: u128 = 0;
    for (i, c) in d[..n].iter().enumerate() {
        v += u128::from(c & 0x7f) << (7 * (n - 1 - i));
    }
    for j in 1..n {
        v += 1u128 << (7 * j);
    }
    Some((v, n))
}

/// varint used inside delta data (base size, result size)
pub fn delta_size_varint(mut n: u64) -> Vec<u8> {
    let mut out = Vec::new();
    loop {
        let b = (n & 0x7f) as u8;
        n >>= 7;
        if n == 0 {
            out.push(b);
            break;
        }
        out.push(b | 0x80);
    }
    out
}

#[derive(Default, Debug, Clone)]
pub struct DeltaShape {
    pub copies: usize,
    pub inserts: usize,
    /// union of the offset-byte masks (low 4 bits of the command) seen in copy commands
    pub ofs_masks: std::collections::BTreeSet<u8>,
    /// union of size-byte masks (bits 4..6 >> 4)
    pub size_masks: std::collections::BTreeSet<u8>,
    pub max_insert: usize,
    pub min_insert: usize,
}

/// Reference delta interpreter, transcribed from git's patch-delta.c (independent of gix-pack). Err = malformed.
pub fn ref_apply_delta(base: &[u8], delta: &[u8]) -> Result<(Vec<u8>, DeltaShape), String> {
    fn varint(d: &[u8], pos: &mut usize) -> Result<u64, String> {
        let mut v = 0u64;
        let mut s = 0;
        loop {
            let c = *d.get(*pos).ok_or("eof in size")?;
            *pos += 1;
            v |= u64::from(c & 0x7f) << s;
            s += 7;
            if c & 0x80 == 0 {
                return Ok(v);
            }
        }
    }
    let mut shape = DeltaShape { min_insert: usize::MAX, ..Default::default() };
    let mut p = 0;
    let base_size = varint(delta, &mut p)?;
    if base_size != base.len() as u64 {
        return Err(format!("base size {base_size} != {}", base.len()));
    }
    let result_size = varint(delta, &mut p)? as usize;
    let mut out = Vec::with_capacity(result_size);
    while p < delta.len() {
        let cmd = delta[p];
        p += 1;
        if cmd & 0x80 != 0 {
            let (mut ofs, mut size) = (0usize, 0usize);
            for bit in 0..4 {
                if cmd & (1 << bit) != 0 {
                    ofs |= usize::from(*delta.get(p).ok_or("eof in copy")?) << (8 * bit);
                    p += 1;
                }
            }
            for bit in 0..3 {
                if cmd & (0x10 << bit) != 0 {
                    size |= usize::from(*delta.get(p).ok_or("eof in copy")?) << (8 * bit);
                    p += 1;
                }
            }
            if size == 0 {
                size = 0x10000;
            }
            if ofs + size > base.len() {
                return Err("copy out of range".into());
            }
            out.extend_from_slice(&base[ofs..ofs + size]);
            shape.copies += 1;
            shape.ofs_masks.insert(cmd & 0x0f);
            shape.size_masks.insert((cmd >> 4) & 7);
        } else if cmd != 0 {
            let n = usize::from(cmd);
            out.extend_from_slice(delta.get(p..p + n).ok_or("eof in insert")?);
            p += n;
            shape.inserts += 1;
            shape.max_insert = shape.max_insert.max(n);
            shape.min_insert = shape.min_insert.min(n);
        } else {
            return Err("cmd 0".into());
        }
    }
    if out.len() != result_size {
        return Err(format!("result size {} != declared {result_size}", out.len()));
    }
    Ok((out, shape))
}

/// One entry of a hand-made pack: raw header bytes + raw (already zlib-wrapped) body.
pub struct RawEntry {
    pub header: Vec<u8>,
    pub body: Vec<u8>,
}
/// Assemble a version-2 pack from raw entries; returns (bytes, entry offsets).
pub fn build_pack(entries: &[RawEntry]) -> (Vec<u8>, Vec<u64>) {
    let mut out = Vec::new();
    out.extend_from_slice(b"PACK");
    out.extend_from_slice(&2u32.to_be_bytes());
    out.extend_from_slice(&(entries.len() as u32).to_be_bytes());
    let mut offs = Vec::new();
    for e in entries {
        offs.push(out.len() as u64);
        out.extend_from_slice(&e.header);
        out.extend_from_slice(&e.body);
    }
    let h = sha1(&out);
    out.extend_from_slice(h.as_slice());
    (out, offs)
}

pub fn write_file(p: &Path, data: &[u8]) {
    if let Err(e) = std::fs::write(p, data) {
        vkit::machinery!("cannot write {}: {e}", p.display());
    }
}

/// Parse `git cat-file --batch` output: list of Some((type, content)) / None for missing, in request order.
pub fn parse_cat_file_batch(out: &[u8]) -> Vec<Option<(String, Vec<u8>)>> {
    let mut res = Vec::new();
    let mut p = 0;
    while p < out.len() {
        let nl = match out[p..].iter().position(|&c| c == b'\n') {
            Some(n) => p + n,
            None => vkit::machinery!("cat-file --batch: unterminated header line"),
        };
        let line = String::from_utf8_lossy(&out[p..nl]).into_owned();
        p = nl + 1;
        let parts: Vec<&str> = line.split(' ').collect();
        if parts.len() == 2 && parts[1] == "missing" {
            res.push(None);
            continue;
        }
        if parts.len() != 3 {
            vkit::machinery!("cat-file --batch: unexpected header {line:?}");
        }
        let size: usize = parts[2].parse().unwrap_or_else(|_| vkit::machinery!("cat-file --batch: bad size in {line:?}"));
        if p + size + 1 > out.len() {
            vkit::machinery!("cat-file --batch: short content for {line:?}");
        }
        res.push(Some((parts[1].to_string(), out[p..p + size].to_vec())));
        p += size + 1;
    }
    res
}

pub fn kind_name(k: gix_object::Kind) -> &'static str {
    match k {
        gix_object::Kind::Blob => "blob",
        gix_object::Kind::Tree => "tree",
        gix_object::Kind::Commit => "commit",
        gix_object::Kind::Tag => "tag",
    }
}
