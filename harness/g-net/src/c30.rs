//! C30 — ref advertisements are understood exactly (E1: all small server repositories x protocol versions x prefix filters).
//!
//! Every case builds a tiny bare server repository (refs written by hand, objects borrowed from a shared store through
//! `objects/info/alternates`), lets gitoxide perform the real handshake (+ `ls-refs` for v2) against the local
//! `git-upload-pack` through the file:// transport, and compares the reported refs with what `git for-each-ref`,
//! `git symbolic-ref` and `git cat-file --batch-check` on `<ref>^{}` say about the server.
use crate::util;
use gix::protocol::handshake::Ref;
use serde::{Deserialize, Serialize};
use std::collections::BTreeSet;
use std::path::{Path, PathBuf};
use std::sync::atomic::{AtomicU64, Ordering};
use vkit::{bad, git, ok, ok_trivial, scratch, Run, Verdict};

#[derive(Serialize, Deserialize, Hash, Clone, Debug)]
struct Case {
    /// refs present on the server (names from `REFS`)
    refs: Vec<String>,
    /// content of HEAD: one of `HEADS`
    head: String,
    /// protocol.version configured on the client
    proto: u8,
    /// 0 = no ref-prefix, 1 = prefixes from `+refs/heads/*:refs/remotes/origin/*` + implicit tag spec, 2 = prefixes from refspec `HEAD`
    filter: u8,
}

/// (ref name, value) — value is an object key of the fixture or `ref: <target>`
const REFS: [(&str, &str); 11] = [
    ("refs/heads/a", "c1"),
    ("refs/tags/ann", "tag_ann"),
    ("refs/heads/sym", "ref: refs/heads/a"),
    ("refs/tags/nest", "tag_nest"),
    // thorough only
    ("refs/heads/b/c", "c2"),
    ("refs/tags/lw", "c1"),
    ("refs/remotes/o/x", "c2"),
    // thorough only, sub-check `exotic`
    ("refs/heads/symtag", "ref: refs/tags/ann"),
    ("refs/heads/sym2", "ref: refs/heads/sym"),
    ("refs/tags/tree", "tag_tree"),
    ("refs/tags/blob", "blob"),
];
/// valid ref name components that contain protocol separators
const SPECIAL_NAMES: [&str; 8] = ["rel=1.0", "a=b=c", "=", "x=HEAD", "HEAD", "a@b", "a+b", "a,b"];
const QUICK_REFS: usize = 4;
const MAIN_REFS: usize = 7;
/// (protocol.version, filter)
const COMBOS: [(u8, u8); 5] = [(0, 0), (1, 1), (2, 0), (2, 1), (2, 2)];
const HEADS: [&str; 6] = ["ref: refs/heads/a", "c1", "ref: refs/heads/unborn", "ref: refs/heads/sym", "ref: refs/tags/ann", "tag_ann"];

/// shared object store + the ids in it
struct Fixture {
    objects: PathBuf,
    ids: Vec<(&'static str, String)>,
    client: PathBuf,
}
impl Fixture {
    fn id(&self, key: &str) -> &str {
        self.ids.iter().find(|(k, _)| *k == key).map(|(_, v)| v.as_str()).unwrap_or_else(|| vkit::machinery!("no fixture object {key}"))
    }
    fn value(&self, v: &str) -> String {
        if v.starts_with("ref: ") {
            format!("{v}\n")
        } else {
            format!("{}\n", self.id(v))
        }
    }
}

fn fixture() -> Fixture {
    let dir = scratch::Dir::new("c30store").keep();
    git::init_bare(&dir);
    let tree = String::from_utf8_lossy(&git::git_in(&dir, &["mktree"], b"")).trim().to_string();
    let blob = String::from_utf8_lossy(&git::git_in(&dir, &["hash-object", "-w", "--stdin"], b"x\n")).trim().to_string();
    let c1 = git::git_text(&dir, &["commit-tree", "-m", "c1", &tree]);
    let c2 = git::git_text(&dir, &["commit-tree", "-m", "c2", "-p", &c1, &tree]);
    git::git(&dir, &["tag", "-a", "-m", "ann", "ann", &c2]);
    git::git(&dir, &["tag", "-a", "-m", "inner", "inner", &c1]);
    git::git(&dir, &["tag", "-a", "-m", "nest", "nest", "inner"]);
    git::git(&dir, &["tag", "-a", "-m", "tree", "tree", &tree]);
    let tag_ann = git::git_text(&dir, &["rev-parse", "refs/tags/ann"]);
    let tag_nest = git::git_text(&dir, &["rev-parse", "refs/tags/nest"]);
    let tag_tree = git::git_text(&dir, &["rev-parse", "refs/tags/tree"]);
    for t in ["ann", "inner", "nest", "tree"] {
        git::git(&dir, &["update-ref", "-d", &format!("refs/tags/{t}")]);
    }
    let client = scratch::Dir::new("c30client").keep();
    util::bare_skeleton(&client, "ref: refs/heads/main\n", None);
    Fixture {
        objects: dir.join("objects"),
        ids: vec![("c1", c1), ("c2", c2), ("tag_ann", tag_ann), ("tag_nest", tag_nest), ("tag_tree", tag_tree), ("blob", blob), ("tree", tree)],
        client,
    }
}

struct ServerDir(PathBuf);

fn build_server(fx: &Fixture, c: &Case, dir: &Path) {
    util::bare_skeleton(dir, &fx.value(&c.head), Some(&fx.objects));
    for name in &c.refs {
        // names outside the table (sub-check `names`): tags are annotated tags of c2, everything else points at c1
        let v = REFS.iter().find(|(n, _)| n == name).map(|(_, v)| *v).unwrap_or(if name.starts_with("refs/tags/") { "tag_ann" } else { "c1" });
        util::write(&dir.join(name), fx.value(v).as_bytes());
    }
}

static GIT_CALLS: AtomicU64 = AtomicU64::new(0);

/// What the server has, according to git.
#[derive(Debug, Clone)]
struct ServerRef {
    name: String,
    /// `None`: unborn (only HEAD)
    oid: Option<String>,
    /// fully peeled id if `oid` names a tag object
    peeled: Option<String>,
    /// final symref target if the ref is symbolic
    symref: Option<String>,
}

fn oracle(server: &Path) -> Vec<ServerRef> {
    let mut out = Vec::new();
    // HEAD: follow the symref chain with `git symbolic-ref` to the final target (as the server does)
    let mut name = "HEAD".to_string();
    let mut target = None;
    for _ in 0..5 {
        let o = git::try_git(server, &["symbolic-ref", "-q", &name]);
        GIT_CALLS.fetch_add(1, Ordering::Relaxed);
        if !o.ok {
            break;
        }
        name = o.text();
        target = Some(name.clone());
    }
    // everything else (dangling symrefs are not listed by git)
    let listing = git::git_text(server, &["for-each-ref", "--format=%(refname) %(objectname) %(objecttype) %(symref)"]);
    let mut refs = Vec::new();
    for l in listing.lines() {
        let f: Vec<&str> = l.split(' ').collect();
        if f.len() < 3 {
            vkit::machinery!("unexpected for-each-ref line {l:?}");
        }
        refs.push(ServerRef {
            name: f[0].into(),
            oid: Some(f[1].into()),
            peeled: None,
            symref: f.get(3).filter(|s| !s.is_empty()).map(|s| s.to_string()),
        });
    }
    // one batch: HEAD, HEAD^{}, <ref>^{} for every ref
    let mut input = String::from("HEAD\nHEAD^{}\n");
    for r in &refs {
        input.push_str(&format!("{}^{{}}\n", r.name));
    }
    let batch = git::git_in(server, &["cat-file", "--batch-check=%(objectname)"], input.as_bytes());
    GIT_CALLS.fetch_add(2, Ordering::Relaxed);
    let batch = String::from_utf8_lossy(&batch).to_string();
    let lines: Vec<&str> = batch.lines().collect();
    if lines.len() != refs.len() + 2 {
        vkit::machinery!("cat-file --batch-check returned {} lines for {} queries", lines.len(), refs.len() + 2);
    }
    let id = |l: &str| -> Option<String> { (l.len() == 40 && l.bytes().all(|b| b.is_ascii_hexdigit())).then(|| l.to_string()) };
    match (id(lines[0]), id(lines[1])) {
        (Some(oid), Some(peeled)) => out.push(ServerRef { name: "HEAD".into(), peeled: (peeled != oid).then_some(peeled), oid: Some(oid), symref: target }),
        (None, None) if lines[0].ends_with(" missing") => {
            if let Some(t) = target {
                out.push(ServerRef { name: "HEAD".into(), oid: None, peeled: None, symref: Some(t) });
            }
        }
        _ => vkit::machinery!("unexpected cat-file answer for HEAD: {:?}", &lines[..2]),
    }
    for (r, l) in refs.iter_mut().zip(&lines[2..]) {
        let Some(peeled) = id(l) else { vkit::machinery!("cannot peel {}: {l:?}", r.name) };
        if Some(&peeled) != r.oid.as_ref() {
            r.peeled = Some(peeled);
        }
    }
    out.extend(refs);
    out
}

/// The refs a client must report, given what the protocol version can express and which prefixes were requested.
fn expected(server: &[ServerRef], proto: u8, filter: u8) -> Vec<String> {
    let prefixes: &[&str] = match (proto, filter) {
        (2, 1) => &["refs/heads/", "refs/tags/"],
        // gix_refspec: the refspec `HEAD` has the single prefix `HEAD` (RefSpecRef::prefix)
        (2, 2) => &["HEAD"],
        _ => &[],
    };
    let mut out = Vec::new();
    for r in server {
        if !prefixes.is_empty() && !prefixes.iter().any(|p| r.name.starts_with(p)) {
            continue;
        }
        // v0/v1 can only express the symref-ness of HEAD (capability `symref=HEAD:<target>`), and no unborn HEAD
        let symref = if proto == 2 || r.name == "HEAD" { r.symref.as_deref() } else { None };
        out.push(match (&r.oid, symref, &r.peeled) {
            (None, Some(t), _) if proto == 2 => format!("unborn {} -> {t}", r.name),
            (None, _, _) => continue,
            (Some(oid), Some(t), Some(p)) => format!("symbolic {} -> {t} tag={oid} object={p}", r.name),
            (Some(oid), Some(t), None) => format!("symbolic {} -> {t} tag=- object={oid}", r.name),
            (Some(oid), None, Some(p)) => format!("peeled {} tag={oid} object={p}", r.name),
            (Some(oid), None, None) => format!("direct {} object={oid}", r.name),
        });
    }
    out
}

fn show(r: &Ref) -> String {
    match r {
        Ref::Direct { full_ref_name, object } => format!("direct {full_ref_name} object={object}"),
        Ref::Peeled { full_ref_name, tag, object } => format!("peeled {full_ref_name} tag={tag} object={object}"),
        Ref::Symbolic { full_ref_name, target, tag, object } => {
            format!("symbolic {full_ref_name} -> {target} tag={} object={object}", tag.map(|t| t.to_string()).unwrap_or_else(|| "-".into()))
        }
        Ref::Unborn { full_ref_name, target } => format!("unborn {full_ref_name} -> {target}"),
    }
}

fn gix_refs(client: &Path, server: &Path, proto: u8, filter: u8) -> Result<(Vec<String>, gix::protocol::transport::Protocol), String> {
    use gix::remote::{fetch::Tags, Direction};
    let e = |what: &str, e: &dyn std::fmt::Display| format!("{what}: {e}");
    let repo = gix::open_opts(
        client,
        gix::open::Options::isolated().config_overrides([format!("protocol.version={proto}"), "protocol.file.allow=always".to_string()]),
    )
    .map_err(|x| format!("machinery:open client: {x}"))?;
    let url = format!("file://{}", server.display());
    let (spec, tags) = match filter {
        2 => ("HEAD", Tags::None),
        _ => ("+refs/heads/*:refs/remotes/origin/*", Tags::Included),
    };
    let remote = repo
        .remote_at(url.as_str())
        .map_err(|x| e("remote_at", &x))?
        .with_fetch_tags(tags)
        .with_refspecs([spec], Direction::Fetch)
        .map_err(|x| e("refspec", &x))?;
    let con = remote.connect(Direction::Fetch).map_err(|x| e("connect", &x))?;
    let map = con
        .ref_map(
            gix::progress::Discard,
            gix::remote::ref_map::Options { prefix_from_spec_as_filter_on_remote: filter != 0, ..Default::default() },
        )
        .map_err(|x| {
            let mut msg = x.to_string();
            let mut src: Option<&dyn std::error::Error> = std::error::Error::source(&x);
            while let Some(s) = src {
                msg.push_str(&format!(" <- {s}"));
                src = s.source();
            }
            e("ref_map", &msg)
        })?;
    Ok((map.remote_refs.iter().map(show).collect(), map.handshake.server_protocol_version))
}

pub fn run(run: &'static Run) {
    util::hermetic_env();
    let nrefs = run.pick(QUICK_REFS, MAIN_REFS);
    run.rule(format!(
        "server repositories: every subset of the refs {:?} x HEAD in {:?} (symref to branch / detached at commit / unborn / symref to a symref / symref to an annotated tag / detached at a tag object; \
         keys c1,c2 = commits, tag_ann = annotated tag of c2, tag_nest = tag of a tag of c1, tag_tree = tag of a tree, blob); \
         client: (protocol.version, ref-prefix filter) in [(0,none),(1,branch+tag spec prefixes — ignored by v0/v1),(2,none),(2,prefixes of the default branch+tag specs),(2,prefixes of refspec HEAD)]; sub-check `names` (both tiers): for each of the 8 branch names [rel=1.0, a=b=c, =, x=HEAD, HEAD, a@b, a+b, a,b]: branch alone or with an annotated tag of the same name, HEAD pointing at it or detached, all 5 client combos; thorough adds sub-check `exotic`: base [a, ann, sym] + every non-empty subset of [symref to tag, symref to symref, tag of a tree, lightweight tag on a blob]; \
         served by git-upload-pack via file://. non-trivial = at least one ref had to be reported and the reported list equals the oracle's",
        REFS[..nrefs].iter().map(|r| r.0).collect::<Vec<_>>(),
        HEADS
    ));
    run.assume("git 2.39.5 `for-each-ref`, `symbolic-ref`, `rev-parse <ref>^{}` on the server repository are the oracle for names, ids, symref targets and peeled ids");
    run.assume("what a protocol version cannot express is not demanded: v0/v1 carry symref information only for HEAD (capability symref=HEAD:target) and never an unborn HEAD; dangling non-HEAD symrefs are never advertised");
    run.assume("with ref-prefix (v2 only) the server advertises exactly the refs whose name starts with one of the prefixes (protocol-v2 documentation); prefixes are those of the configured refspecs");
    run.assume("protocol.version=1 over the file transport makes gitoxide omit GIT_PROTOCOL (documented deviation: a literal 'version 1' reply is unsupported), so the server answers in v0 format for 0 and 1");
    run.budget_secs(run.pick(40.0, 570.0));
    let fx = fixture();
    let fx = &fx;
    static SYMBOLIC: AtomicU64 = AtomicU64::new(0);
    static PEELED: AtomicU64 = AtomicU64::new(0);
    static UNBORN: AtomicU64 = AtomicU64::new(0);
    static SYMTAG: AtomicU64 = AtomicU64::new(0);
    static FILTERED: AtomicU64 = AtomicU64::new(0);
    type Slot = std::sync::Arc<std::sync::OnceLock<(PathBuf, Vec<ServerRef>)>>;
    let servers: std::sync::Mutex<std::collections::HashMap<String, Slot>> = Default::default();
    let servers = &servers;
    let eval = |c: &Case| -> Verdict {
            // the server repository and git's description of it depend on (refs, HEAD) only: build once, share read-only
            let key = format!("{:?} {}", c.refs, c.head);
            let slot = servers.lock().unwrap().entry(key).or_default().clone();
            let (dir, server) = slot.get_or_init(|| {
                let dir = scratch::Dir::new("c30s").keep();
                build_server(fx, c, &dir);
                let server = oracle(&dir);
                (dir, server)
            });
            let server = server.clone();
            let dir = ServerDir(dir.clone());
            let want = expected(&server, c.proto, c.filter);
            let (got, version) = match vkit::catch(|| gix_refs(&fx.client, &dir.0, c.proto, c.filter)) {
                Err(p) => return bad("panic", p),
                Ok(Err(m)) if m.starts_with("machinery:") => vkit::machinery!("{m}"),
                Ok(Err(m)) => return bad("error", format!("{m}; server advertises {want:?}")),
                Ok(Ok(v)) => v,
            };
            use gix::protocol::transport::Protocol;
            if (c.proto == 2) != (version == Protocol::V2) {
                return bad("version", format!("protocol.version={} but handshake reports {version:?}", c.proto));
            }
            let (mut g, mut w) = (got.clone(), want.clone());
            g.sort();
            w.sort();
            if g != w {
                let gs: BTreeSet<_> = g.iter().collect();
                let ws: BTreeSet<_> = w.iter().collect();
                let missing: Vec<_> = ws.difference(&gs).collect();
                let extra: Vec<_> = gs.difference(&ws).collect();
                let class = if g.len() != gs.len() {
                    "duplicate"
                } else if missing.iter().any(|m| m.starts_with("symbolic") || m.starts_with("unborn")) {
                    "symref"
                } else if missing.iter().any(|m| m.starts_with("peeled")) {
                    "peeled"
                } else {
                    "set"
                };
                return bad(class, format!("not reported: {missing:?}; reported but not on server: {extra:?}; all reported: {got:?}"));
            }
            if c.proto == 2 && got != want {
                // ls-refs output is relayed line by line; order must be the server's
                return bad("order", format!("reported {got:?}, server order {want:?}"));
            }
            if want.is_empty() {
                return ok_trivial(format!("v{}/f{}/nothing-advertised", c.proto, c.filter));
            }
            let mut kinds = String::new();
            for (k, ch, ctr) in [("direct", 'D', None), ("peeled", 'P', Some(&PEELED)), ("symbolic", 'S', Some(&SYMBOLIC)), ("unborn", 'U', Some(&UNBORN))] {
                if want.iter().any(|w| w.starts_with(k)) {
                    kinds.push(ch);
                    if let Some(ctr) = ctr {
                        ctr.fetch_add(1, Ordering::Relaxed);
                    }
                }
            }
            if want.iter().any(|w| w.starts_with("symbolic") && !w.contains("tag=-")) {
                SYMTAG.fetch_add(1, Ordering::Relaxed);
            }
            if c.proto == 2 && c.filter != 0 && want.len() < expected(&server, 2, 0).len() {
                FILTERED.fetch_add(1, Ordering::Relaxed);
            }
            ok(format!("v{}/f{}/{kinds}", c.proto, c.filter))
        };
    // ref names with characters that are separators elsewhere in the protocol ('=' in capabilities `symref=HEAD:<target>`, ' ' / ':' in v2
    // attributes, '^{}' peel suffix, the word HEAD): as plain branch, as annotated tag (peeled line), and as the target of HEAD
    run.sub_with(
        "names",
        vkit::Opts::default().chunk(128).watchdog(120.0),
        |emit| {
            for short in SPECIAL_NAMES {
                for with_tag in [false, true] {
                    for head_at_it in [true, false] {
                        for &(proto, filter) in &COMBOS {
                            let mut refs = vec![format!("refs/heads/{short}")];
                            if with_tag {
                                refs.push(format!("refs/tags/{short}"));
                            }
                            let head = if head_at_it { format!("ref: refs/heads/{short}") } else { "c1".to_string() };
                            emit(Case { refs, head, proto, filter });
                        }
                    }
                }
            }
        },
        &eval,
    );
    run.sub_with(
        "advertisement",
        vkit::Opts::default().chunk(128).watchdog(120.0),
        |emit| {
            // simplest first: by number of refs
            let names: Vec<&str> = REFS[..nrefs].iter().map(|r| r.0).collect();
            for k in 0..=names.len() {
                vkit::enumerate::subsets(&names, k, k, |s| {
                    for head in HEADS {
                        for &(proto, filter) in &COMBOS {
                            emit(Case { refs: s.iter().map(|x| x.to_string()).collect(), head: head.to_string(), proto, filter });
                        }
                    }
                });
            }
        },
        &eval,
    );
    run.require("special ref names were explored as HEAD targets under v0/v1", run.sub_evaluations("names") > 0);
    if !run.quick() {
        // rarer shapes on top of a fixed base: symref to a tag, symref chain, tag of a tree, lightweight tag on a blob
        run.sub_with(
            "exotic",
            vkit::Opts::default().chunk(128).watchdog(120.0),
            |emit| {
                let names: Vec<&str> = REFS[MAIN_REFS..].iter().map(|r| r.0).collect();
                for k in 1..=names.len() {
                    vkit::enumerate::subsets(&names, k, k, |s| {
                        for head in HEADS {
                            for &(proto, filter) in &COMBOS {
                                let mut refs: Vec<String> = ["refs/heads/a", "refs/tags/ann", "refs/heads/sym"].iter().map(|x| x.to_string()).collect();
                                refs.extend(s.iter().map(|x| x.to_string()));
                                emit(Case { refs, head: head.to_string(), proto, filter });
                            }
                        }
                    });
                }
            },
            &eval,
        );
    }
    run.cov_add("oracle_calls_git", GIT_CALLS.load(Ordering::Relaxed));
    if run.over_budget() {
        return;
    }
    run.require("some case had to report a symbolic ref", SYMBOLIC.load(Ordering::Relaxed) > 0);
    run.require("some case had to report a peeled tag", PEELED.load(Ordering::Relaxed) > 0);
    run.require("some case had to report an unborn HEAD", UNBORN.load(Ordering::Relaxed) > 0);
    run.require("some case had to report a symbolic ref to an annotated tag", SYMTAG.load(Ordering::Relaxed) > 0);
    run.require("some prefix filter removed refs from the advertisement", FILTERED.load(Ordering::Relaxed) > 0);
}
