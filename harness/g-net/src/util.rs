//! helpers shared by C30 / C31
use std::path::Path;

/// Make every `git` child process of this process (including the `git-upload-pack` spawned by gitoxide's
/// file transport) independent of the host configuration. Must be called before any thread is spawned.
pub fn hermetic_env() {
    let keys: Vec<_> = std::env::vars_os().map(|(k, _)| k).filter(|k| k.to_string_lossy().starts_with("GIT_")).collect();
    for k in keys {
        std::env::remove_var(k);
    }
    std::env::set_var("GIT_CONFIG_NOSYSTEM", "1");
    std::env::set_var("GIT_CONFIG_GLOBAL", "/dev/null");
    std::env::set_var("HOME", vkit::scratch::base());
    std::env::set_var("XDG_CONFIG_HOME", vkit::scratch::base().join("xdg"));
    std::env::set_var("LC_ALL", "C");
    std::env::set_var("TZ", "UTC");
}

pub fn write(path: &Path, content: &[u8]) {
    if let Some(p) = path.parent() {
        std::fs::create_dir_all(p).unwrap_or_else(|e| vkit::machinery!("mkdir {}: {e}", p.display()));
    }
    std::fs::write(path, content).unwrap_or_else(|e| vkit::machinery!("write {}: {e}", path.display()));
}

/// Create a bare repository skeleton by hand (no git process): HEAD, config, objects/, refs/, optional alternates.
pub fn bare_skeleton(dir: &Path, head: &str, alternates: Option<&Path>) {
    write(&dir.join("HEAD"), head.as_bytes());
    write(&dir.join("config"), b"[core]\n\trepositoryformatversion = 0\n\tfilemode = true\n\tbare = true\n");
    for d in ["objects/info", "objects/pack", "refs/heads", "refs/tags"] {
        std::fs::create_dir_all(dir.join(d)).unwrap_or_else(|e| vkit::machinery!("mkdir {d}: {e}"));
    }
    if let Some(alt) = alternates {
        write(&dir.join("objects/info/alternates"), format!("{}\n", alt.display()).as_bytes());
    }
}
