mod c30;
mod c31;
mod util;
use vkit::{Check, Level};
fn main() {
    vkit::main(&[
        Check { id: "C30", level: Level::Exploration, run: c30::run },
        Check { id: "C31", level: Level::ModelChecking, run: c31::run },
    ]);
}
