mod c30;
mod util;
use vkit::{Check, Level};
fn main() {
    vkit::main(&[Check { id: "C30", level: Level::Exploration, run: c30::run }]);
}
