//! C31 — fetching reproduces the server's objects and references (E2: all short server histories, a fetch after every step).
//!
//! A case fixes a base server repository, a client configuration (refspecs / tag mode / shallow / protocol version) and the first
//! server operation; the evaluator then explores the whole tree of operation sequences below it (depth-first, copying the
//! server and both clients at every branch point). At every node gitoxide fetches into client G and `git fetch` into the identical
//! copy H; afterwards `git fsck --connectivity-only` must be clean on G, and the refs (and the shallow file) of G must be those of H.
use crate::util;
use serde::{Deserialize, Serialize};
use std::collections::{BTreeMap, BTreeSet};
use std::path::{Path, PathBuf};
use std::sync::atomic::{AtomicBool, AtomicU64, Ordering};
use vkit::{git, ok, scratch, Run, Verdict};

#[derive(Serialize, Deserialize, Hash, Clone, Copy, Debug, PartialEq, Eq)]
enum Op {
    /// new commit on refs/heads/a (fast-forward)
    Commit,
    /// create refs/heads/b with a new, old-dated commit on top of a's tip — or advance b if it exists
    Branch,
    /// delete refs/heads/b
    DelBranch,
    /// replace the tip of a by a different commit on the tip's parent (forced update; new root if the tip was a root)
    Rewind,
    /// (re)point lightweight tag refs/tags/lw at a's tip
    TagLw,
    /// (re)create annotated tag refs/tags/ann for a's tip
    TagAnn,
}
const OPS: [Op; 6] = [Op::Commit, Op::Branch, Op::DelBranch, Op::Rewind, Op::TagLw, Op::TagAnn];

#[derive(Serialize, Deserialize, Hash, Clone, Debug)]
struct Case {
    /// 0: a = one commit. 1: a = two commits, b = side commit, annotated tag `ann` on the root, lightweight tag `lw` on a's tip.
    /// 2 / 3: the server is itself a shallow (depth 1 / depth 2) bare clone of a 4-commit history with side branch and tags
    base: u8,
    /// client configuration, index into `CLIENTS`
    client: u8,
    /// protocol.version for both clients
    proto: u8,
    /// first server operation (`None`: only the initial fetch)
    first: Option<Op>,
    /// number of operations on every path (including `first`)
    depth: u8,
}

struct Client {
    name: &'static str,
    spec: &'static str,
    /// value of remote.o.tagOpt, if any
    tag_opt: Option<&'static str>,
    shallow: bool,
}
const CLIENTS: [Client; 4] = [
    Client { name: "all-forced+follow-tags", spec: "+refs/heads/*:refs/remotes/o/*", tag_opt: None, shallow: false },
    Client { name: "all-unforced+all-tags", spec: "refs/heads/*:refs/remotes/o/*", tag_opt: Some("--tags"), shallow: false },
    Client { name: "single-branch+no-tags", spec: "+refs/heads/a:refs/remotes/o/a", tag_opt: Some("--no-tags"), shallow: false },
    Client { name: "all-forced+no-tags+depth1", spec: "+refs/heads/*:refs/remotes/o/*", tag_opt: Some("--no-tags"), shallow: true },
];

const IDENT: &str = "C O Mitter <committer@example.com>";

fn data(s: &str) -> String {
    format!("data {}\n{s}\n", s.len())
}
fn commit_stream(branch: &str, from: Option<&str>, file: &str, ts: u64) -> String {
    let mut s = format!("commit refs/heads/{branch}\ncommitter {IDENT} {ts} +0000\n{}", data(&format!("commit {file}")));
    if let Some(f) = from {
        s.push_str(&format!("from {f}\n"));
    }
    s.push_str(&format!("M 100644 inline {file}\n{}\n", data(&format!("content of {file}"))));
    s
}
fn fast_import(dir: &Path, stream: &str) {
    git::git_in(dir, &["fast-import", "--force", "--quiet"], stream.as_bytes());
}

/// what the harness knows about the server without asking git
#[derive(Clone, Copy)]
struct Model {
    a_depth: u32,
    b_exists: bool,
    n: u64,
}

/// Apply `op`; `false` if it is a no-op in this state (path is pruned).
fn apply(server: &Path, m: &mut Model, op: Op) -> bool {
    m.n += 1;
    let n = m.n;
    let ts = 1_000_010_000 + 100 * n;
    match op {
        Op::Commit => {
            fast_import(server, &commit_stream("a", Some("refs/heads/a^0"), &format!("f{n}"), ts));
            m.a_depth += 1;
        }
        Op::Branch => {
            let from = if m.b_exists { "refs/heads/b^0" } else { "refs/heads/a^0" };
            // dated before everything else: history that was written long ago but published late
            fast_import(server, &commit_stream("b", Some(from), &format!("b{n}"), 999_990_000 + n));
            m.b_exists = true;
        }
        Op::DelBranch => {
            if !m.b_exists {
                return false;
            }
            fast_import(server, "reset refs/heads/b\nfrom 0000000000000000000000000000000000000000\n\n");
            m.b_exists = false;
        }
        Op::Rewind => {
            if m.a_depth >= 2 {
                fast_import(server, &commit_stream("a", Some("refs/heads/a~1"), &format!("r{n}"), ts));
            } else {
                fast_import(server, &format!("reset refs/heads/a\n\n{}", commit_stream("a", None, &format!("r{n}"), ts)));
            }
        }
        Op::TagLw => fast_import(server, "reset refs/tags/lw\nfrom refs/heads/a^0\n\n"),
        Op::TagAnn => fast_import(server, &format!("tag ann\nfrom refs/heads/a^0\ntagger {IDENT} {ts} +0000\n{}", data(&format!("tag {n}")))),
    }
    true
}

fn hex_line(seed: u64, len: usize) -> String {
    vkit::enumerate::lcg_bytes(len.div_ceil(2), seed).iter().map(|b| format!("{b:02x}")).collect::<String>()[..len].to_string()
}
/// 60 lines of 60 hex characters; `edits` replaces line `i` by `len` other characters
fn big_file(edits: &[(usize, usize, u64)]) -> String {
    let mut lines: Vec<String> = (0..60).map(|i| hex_line(1000 + i as u64, 60)).collect();
    for &(line, len, seed) in edits {
        lines[line] = hex_line(seed, len);
    }
    lines.join("\n") + "\n"
}
fn big_commit_stream(from: Option<&str>, content: &str, ts: u64, msg: &str) -> String {
    let mut s = format!("commit refs/heads/a\ncommitter {IDENT} {ts} +0000\n{}", data(msg));
    if let Some(f) = from {
        s.push_str(&format!("from {f}\n"));
    }
    s.push_str(&format!("M 100644 inline big\ndata {}\n{content}\n", content.len()));
    s
}

#[derive(Serialize, Deserialize, Hash, Clone, Debug)]
struct ThinCase {
    /// length of the two replaced lines: decides the size of the delta entries and with it the distances between pack entries
    len: u32,
    proto: u8,
}

struct Fixture {
    /// template server repositories
    bases: Vec<(PathBuf, Model)>,
    /// template client (bare, empty)
    client: PathBuf,
}

fn fixture() -> Fixture {
    let mut bases = Vec::new();
    for base in 0..2 {
        let dir = scratch::Dir::new("c31base").keep();
        git::init_bare(&dir);
        util::write(&dir.join("HEAD"), b"ref: refs/heads/a\n");
        fast_import(&dir, &commit_stream("a", None, "f0", 1_000_000_000));
        let mut m = Model { a_depth: 1, b_exists: false, n: 0 };
        if base == 1 {
            fast_import(&dir, &format!("tag ann\nfrom refs/heads/a^0\ntagger {IDENT} 1000000050 +0000\n{}", data("tag base")));
            fast_import(&dir, &commit_stream("b", Some("refs/heads/a^0"), "b0", 1_000_000_100));
            fast_import(&dir, &commit_stream("a", Some("refs/heads/a^0"), "f00", 1_000_000_200));
            fast_import(&dir, "reset refs/tags/lw\nfrom refs/heads/a^0\n\n");
            m = Model { a_depth: 2, b_exists: true, n: 0 };
        }
        bases.push((dir, m));
    }
    // bases 2 and 3: the server itself is shallow (bare --depth=1 / --depth=2 clones of a longer history:
    // a = 4 commits, b = side commit on the 2nd, annotated tag on the 3rd, lightweight tag on the tip)
    let long = scratch::Dir::new("c31long").keep();
    git::init_bare(&long);
    util::write(&long.join("HEAD"), b"ref: refs/heads/a\n");
    fast_import(&long, &commit_stream("a", None, "f0", 1_000_000_000));
    fast_import(&long, &commit_stream("a", Some("refs/heads/a^0"), "f01", 1_000_000_100));
    fast_import(&long, &commit_stream("b", Some("refs/heads/a^0"), "b0", 1_000_000_150));
    fast_import(&long, &commit_stream("a", Some("refs/heads/a^0"), "f02", 1_000_000_200));
    fast_import(&long, &format!("tag ann\nfrom refs/heads/a^0\ntagger {IDENT} 1000000250 +0000\n{}", data("tag base")));
    fast_import(&long, &commit_stream("a", Some("refs/heads/a^0"), "f03", 1_000_000_300));
    fast_import(&long, "reset refs/tags/lw\nfrom refs/heads/a^0\n\n");
    for depth in [1u32, 2] {
        let dir = scratch::Dir::new("c31shallow").keep();
        git::git(
            scratch::base(),
            &["clone", "-q", "--bare", &format!("--depth={depth}"), "--no-single-branch", &format!("file://{}", long.display()), &dir.display().to_string()],
        );
        if std::fs::read_to_string(dir.join("shallow")).unwrap_or_default().is_empty() {
            vkit::machinery!("shallow server fixture is not shallow");
        }
        bases.push((dir, Model { a_depth: depth, b_exists: true, n: 0 }));
    }
    // base 4: one commit with a 60-line file of pseudo-random hex text (sub-check `thin-pack`)
    let big = scratch::Dir::new("c31big").keep();
    git::init_bare(&big);
    util::write(&big.join("HEAD"), b"ref: refs/heads/a\n");
    fast_import(&big, &big_commit_stream(None, &big_file(&[]), 1_000_000_000, "big0"));
    bases.push((big, Model { a_depth: 1, b_exists: false, n: 0 }));
    let client = scratch::Dir::new("c31client").keep();
    git::init_bare(&client);
    Fixture { bases, client }
}

/// refs of a repository as git sees them: name -> "<id> <symref>"
fn refs_of(repo: &Path) -> BTreeMap<String, String> {
    git::git_text(repo, &["for-each-ref", "--format=%(refname) %(objectname) %(symref)"])
        .lines()
        .filter_map(|l| l.split_once(' ').map(|(n, v)| (n.to_string(), v.trim_end().to_string())))
        .collect()
}
fn shallow_of(repo: &Path) -> BTreeSet<String> {
    std::fs::read_to_string(repo.join("shallow")).unwrap_or_default().lines().map(str::to_string).collect()
}

/// gitoxide's fetch; returns per remote ref name the update mode, or the error text
fn gix_fetch(repo: &Path, proto: u8, shallow: bool) -> Result<Vec<(String, String)>, String> {
    use gix::remote::{fetch::Shallow, Direction::Fetch};
    fn chain(e: &dyn std::error::Error) -> String {
        let mut msg = e.to_string();
        let mut src = e.source();
        while let Some(s) = src {
            msg.push_str(&format!(" <- {s}"));
            src = s.source();
        }
        msg
    }
    let repo = gix::open_opts(
        repo,
        gix::open::Options::isolated().config_overrides([format!("protocol.version={proto}"), "protocol.file.allow=always".to_string()]),
    )
    .map_err(|e| format!("machinery:open client: {e}"))?;
    let remote = repo.find_remote("o").map_err(|e| format!("find_remote: {}", chain(&e)))?;
    let prep = remote
        .connect(Fetch)
        .map_err(|e| format!("connect: {}", chain(&e)))?
        .prepare_fetch(gix::progress::Discard, Default::default())
        .map_err(|e| format!("prepare_fetch: {}", chain(&e)))?;
    let prep = if shallow { prep.with_shallow(Shallow::DepthAtRemote(1.try_into().expect("non-zero"))) } else { prep };
    let out = prep.receive(gix::progress::Discard, &AtomicBool::new(false)).map_err(|e| format!("receive: {}", chain(&e)))?;
    let updates = match &out.status {
        gix::remote::fetch::Status::NoPackReceived { update_refs, .. } => update_refs,
        gix::remote::fetch::Status::Change { update_refs, .. } => update_refs,
    };
    Ok(out
        .ref_map
        .mappings
        .iter()
        .zip(&updates.updates)
        .map(|(m, u)| (m.remote.as_name().map(|n| n.to_string()).unwrap_or_default(), format!("{:?}", u.mode)))
        .collect())
}

struct Ctx<'a> {
    run: &'static Run,
    case: &'a Case,
    client: &'a Client,
    kinds: BTreeSet<&'static str>,
}

static FETCHES: AtomicU64 = AtomicU64::new(0);
static PACKS: AtomicU64 = AtomicU64::new(0);
static IMPLICIT_TAG_CREATED: AtomicU64 = AtomicU64::new(0);
static REJECTED: AtomicU64 = AtomicU64::new(0);
static FORCED: AtomicU64 = AtomicU64::new(0);
static SHALLOW_FETCHES: AtomicU64 = AtomicU64::new(0);
static GIT_CALLS: AtomicU64 = AtomicU64::new(0);

/// One node: both clients fetch, results are compared.
fn fetch_and_compare(cx: &mut Ctx<'_>, server: &Path, g: &Path, h: &Path, path: &[Op]) -> Result<(), String> {
    let c = cx.case;
    let here = || format!("after server ops {path:?} (client `{}`, protocol.version={})", cx.client.name, c.proto);
    let before = refs_of(g);
    let packs_before = std::fs::read_dir(g.join("objects/pack")).map(|d| d.count()).unwrap_or(0);
    // the reference: git fetch into the identical copy
    let mut args = vec!["-c".to_string(), format!("protocol.version={}", c.proto), "fetch".into(), "-q".into(), "o".into()];
    if cx.client.shallow {
        args.push("--depth=1".into());
    }
    if c.base == 2 || c.base == 3 {
        // plain `git fetch` refuses refs of a shallow server unless told to update .git/shallow (git clone accepts them); gitoxide always accepts
        args.push("--update-shallow".into());
    }
    let o = git::try_git(h, &args);
    if !o.ok && o.code != Some(1) {
        vkit::machinery!("git fetch failed fatally {}: {}", here(), o.err_text());
    }
    // the subject
    let modes = match vkit::catch(|| gix_fetch(g, c.proto, cx.client.shallow)) {
        Err(p) => return Err(format!("panic: {p} {}", here())),
        Ok(Err(m)) if m.starts_with("machinery:") => vkit::machinery!("{m}"),
        Ok(Err(m)) => return Err(format!("error: gitoxide fetch failed with `{m}` where git fetch exits with {:?} {}", o.code, here())),
        Ok(Ok(m)) => m,
    };
    FETCHES.fetch_add(1, Ordering::Relaxed);
    cx.run.mc_transitions(1);
    if cx.client.shallow {
        SHALLOW_FETCHES.fetch_add(1, Ordering::Relaxed);
    }
    if std::fs::read_dir(g.join("objects/pack")).map(|d| d.count()).unwrap_or(0) > packs_before {
        PACKS.fetch_add(1, Ordering::Relaxed);
        cx.kinds.insert("pack");
    }
    // 1. complete object graph
    let fsck = git::try_git(g, &["fsck", "--connectivity-only"]);
    let fsck_text = format!("{}\n{}", fsck.text(), fsck.err_text());
    if !fsck.ok || fsck_text.contains("missing") || fsck_text.contains("broken") || fsck_text.contains("error") {
        return Err(format!("fsck: git fsck --connectivity-only exits with {:?} {}: {}", fsck.code, here(), fsck_text.trim()));
    }
    // 2. refs as git fetch leaves them
    let got = refs_of(g);
    let want = refs_of(h);
    GIT_CALLS.fetch_add(5, Ordering::Relaxed);
    let mut tolerated = Vec::new();
    let mut diffs = Vec::new();
    for name in got.keys().chain(want.keys()).collect::<BTreeSet<_>>() {
        let (gv, wv) = (got.get(name), want.get(name));
        if gv == wv {
            continue;
        }
        // documented deviation: with tag following (no tagOpt), gitoxide relies on the server's include-tag and does not make the
        // extra request git makes for annotated tags of commits that are already present (Mode::ImplicitTagNotSentByRemote).
        let implicit_skip = cx.client.tag_opt.is_none()
            && gv.is_none()
            && name.starts_with("refs/tags/")
            && modes.iter().any(|(n, m)| n == name && m == "ImplicitTagNotSentByRemote")
            && wv.map_or(false, |v| !git::try_git(g, &["cat-file", "-e", v.split(' ').next().unwrap_or("")]).ok);
        if implicit_skip {
            tolerated.push(name.clone());
            continue;
        }
        diffs.push(format!("{name}: gitoxide {:?}, git {:?}", gv, wv));
    }
    if !diffs.is_empty() {
        // One failure shape is classified separately so that it can be tracked as a known finding without hiding anything else:
        // a genuine fast-forward (git merge-base --is-ancestor old new) whose new tip has an OLDER committer date than the old tip is
        // rejected by gitoxide's date-cutoff ancestry walk when the refspec is not forced. Record it, repair G and keep exploring.
        let mut skew = Vec::new();
        for name in got.keys().chain(want.keys()).collect::<BTreeSet<_>>() {
            let (gv, wv) = (got.get(name), want.get(name));
            if gv == wv || tolerated.contains(name) {
                continue;
            }
            let (Some(gv), Some(wv)) = (gv, wv) else { break };
            let (old, new) = (gv.trim(), wv.trim());
            let remote_name = name.replacen("refs/remotes/o/", "refs/heads/", 1);
            let rejected = modes.iter().any(|(n, m)| *n == remote_name && m == "RejectedNonFastForward");
            let is_ff = git::try_git(g, &["merge-base", "--is-ancestor", old, new]).ok;
            let date = |id: &str| git::git_text(g, &["log", "-1", "--format=%ct", id]).parse::<u64>().unwrap_or(0);
            if rejected && is_ff && date(new) < date(old) {
                skew.push((name.clone(), old.to_string(), new.to_string()));
            }
        }
        if skew.len() != diffs.len() {
            return Err(format!("refs: {} {}; update modes reported: {:?}", diffs.join("; "), here(), modes));
        }
        cx.run.violation(
            "history",
            vkit::serde_json::json!({"base": c.base, "client": c.client, "proto": c.proto, "first": c.first, "depth": c.depth, "path": path}),
            format!("ff-date-skew: fast-forward rejected as non-fast-forward because the new tip is older (committer date) than the old one: {skew:?} {}", here()),
        );
        cx.kinds.insert("ff-rejected-by-date-cutoff");
        for (name, _, new) in &skew {
            git::git(g, &["update-ref", name, new]);
        }
    }
    if cx.client.shallow && c.proto != 2 && depth_ignored(g, h) {
        // separate, precisely described failure shape (tracked as a known finding): the absolute depth is not honoured over v0/v1
        return Err(format!(
            "shallow-depth-ignored-v1: depth 1 requested, gitoxide received more history than depth 1 (shallow file {:?}), git has shallow commits {:?} {}",
            shallow_of(g),
            shallow_of(h),
            here()
        ));
    }
    // entries gitoxide keeps for commits that are not in the repository (v0/v1: every `shallow` line of the advertisement is recorded, git drops
    // those it did not receive) do not affect connectivity and are not demanded equal
    let mut shallow_g = shallow_of(g);
    if shallow_g != shallow_of(h) {
        shallow_g.retain(|id| git::try_git(g, &["cat-file", "-e", id]).ok);
    }
    if shallow_g != shallow_of(h) {
        return Err(format!("shallow: shallow file {:?} but git has {:?} {}", shallow_of(g), shallow_of(h), here()));
    }
    // bookkeeping for evidence
    for (name, mode) in &modes {
        let kind = match mode.as_str() {
            "New" => "new",
            "FastForward" => "ff",
            "Forced" => "forced",
            "NoChangeNeeded" => continue,
            "ImplicitTagNotSentByRemote" => "implicit-tag-skipped",
            m if m.starts_with("Rejected") => "rejected",
            _ => "other",
        };
        cx.kinds.insert(kind);
        match kind {
            "rejected" => drop(REJECTED.fetch_add(1, Ordering::Relaxed)),
            "forced" => drop(FORCED.fetch_add(1, Ordering::Relaxed)),
            "new" if cx.client.tag_opt.is_none() && name.starts_with("refs/tags/") && !before.contains_key(name) => {
                drop(IMPLICIT_TAG_CREATED.fetch_add(1, Ordering::Relaxed))
            }
            _ => {}
        }
    }
    if !tolerated.is_empty() {
        cx.kinds.insert("annotated-tag-of-old-commit-not-followed");
    }
    cx.run.mc_validated(1);
    cx.run.mc_state(vkit::hash_of(&(refs_of_server_cached(server), &got, shallow_of(g))));
    Ok(())
}

fn refs_of_server_cached(server: &Path) -> BTreeMap<String, String> {
    // cheap: loose refs + packed-refs as files (canonical enough for a state hash; no git process)
    let snap = scratch::snapshot(&server.join("refs"));
    let mut m: BTreeMap<String, String> = snap.into_iter().filter(|(_, v)| v.0 == 'f').map(|(k, v)| (k, String::from_utf8_lossy(&v.2).into_owned())).collect();
    m.insert("packed-refs".into(), std::fs::read_to_string(server.join("packed-refs")).unwrap_or_default());
    m
}

fn copy(from: &Path, tag: &str) -> scratch::Dir {
    let d = scratch::Dir::new(tag);
    scratch::copy_tree(from, d.path()).unwrap_or_else(|e| vkit::machinery!("copy {}: {e}", from.display()));
    d
}

fn point_client_at(client: &Path, server: &Path, cfg: &Client) {
    let mut text = std::fs::read_to_string(client.join("config")).unwrap_or_else(|e| vkit::machinery!("read client config: {e}"));
    if let Some(pos) = text.find("[remote \"o\"]") {
        text.truncate(pos);
    }
    text.push_str(&format!("[remote \"o\"]\n\turl = file://{}\n\tfetch = {}\n", server.display(), cfg.spec));
    if let Some(t) = cfg.tag_opt {
        text.push_str(&format!("\ttagOpt = {t}\n"));
    }
    text.push_str("[gc]\n\tauto = 0\n[maintenance]\n\tauto = false\n");
    util::write(&client.join("config"), text.as_bytes());
}

/// explore all operation sequences of length `left` below the given state
fn explore(cx: &mut Ctx<'_>, server: &Path, g: &Path, h: &Path, m: Model, path: &mut Vec<Op>, left: u8) -> Result<(), String> {
    if left == 0 {
        return Ok(());
    }
    for op in OPS {
        let (s2, g2, h2) = (copy(server, "c31s"), copy(g, "c31g"), copy(h, "c31h"));
        let mut m2 = m;
        if !apply(s2.path(), &mut m2, op) {
            continue;
        }
        cx.run.mc_transitions(1);
        point_client_at(g2.path(), s2.path(), cx.client);
        point_client_at(h2.path(), s2.path(), cx.client);
        path.push(op);
        fetch_and_compare(cx, s2.path(), g2.path(), h2.path(), path)?;
        explore(cx, s2.path(), g2.path(), h2.path(), m2, path, left - 1)?;
        path.pop();
    }
    Ok(())
}

#[derive(Serialize, Deserialize, Hash, Clone, Debug)]
struct CloneCase {
    /// server base as in `Case::base`
    base: u8,
    proto: u8,
    /// clone with depth 1
    shallow: bool,
    /// `gix::create::Kind::Bare` instead of a repository with (never checked out) worktree
    bare: bool,
}

/// gitoxide's clone (fetch only, no checkout) into `dst`
fn gix_clone(url: &str, dst: &Path, c: &CloneCase) -> Result<(), String> {
    fn chain(e: &dyn std::error::Error) -> String {
        let mut msg = e.to_string();
        let mut src = e.source();
        while let Some(s) = src {
            msg.push_str(&format!(" <- {s}"));
            src = s.source();
        }
        msg
    }
    let kind = if c.bare { gix::create::Kind::Bare } else { gix::create::Kind::WithWorktree };
    let mut prep = gix::clone::PrepareFetch::new(
        url,
        dst,
        kind,
        gix::create::Options::default(),
        gix::open::Options::isolated().config_overrides([format!("protocol.version={}", c.proto), "protocol.file.allow=always".to_string()]),
    )
    .map_err(|e| format!("prepare clone: {}", chain(&e)))?;
    if c.shallow {
        prep = prep.with_shallow(gix::remote::fetch::Shallow::DepthAtRemote(1.try_into().expect("non-zero")));
    }
    prep.fetch_only(gix::progress::Discard, &AtomicBool::new(false)).map_err(|e| format!("fetch_only: {}", chain(&e)))?;
    Ok(())
}

/// depth 1 was requested but not honoured: no shallow file at all, or the parent of a commit that is a shallow boundary for git is present
fn depth_ignored(g: &Path, h: &Path) -> bool {
    let hs = shallow_of(h);
    !hs.is_empty() && shallow_of(g) != hs && (shallow_of(g).is_empty() || hs.iter().any(|id| git::try_git(g, &["cat-file", "-e", &format!("{id}^1")]).ok))
}

static CLONES: AtomicU64 = AtomicU64::new(0);

fn clone_and_compare(fx: &Fixture, c: &CloneCase) -> Verdict {
    let Some((base_dir, _)) = fx.bases.get(c.base as usize) else { vkit::machinery!("no base {}", c.base) };
    let dir = scratch::Dir::new("c31clone");
    let url = format!("file://{}", base_dir.display());
    let here = format!("cloning base {} (protocol.version={}, depth1={}, bare={})", c.base, c.proto, c.shallow, c.bare);
    // reference: a normal git clone without checkout — gitoxide configures `+refs/heads/*:refs/remotes/origin/*` for bare clones as well
    let mut args = vec!["-c".to_string(), format!("protocol.version={}", c.proto), "clone".into(), "-q".into(), "--no-checkout".into()];
    if c.shallow {
        args.extend(["--depth=1".to_string(), "--no-single-branch".into()]);
    }
    args.extend([url.clone(), "h".into()]);
    git::git(dir.path(), &args);
    let h = dir.join("h/.git");
    let gdst = dir.join("g");
    match vkit::catch(|| gix_clone(&url, &gdst, c)) {
        Err(p) => return vkit::bad("panic", format!("{p} {here}")),
        Ok(Err(m)) => return vkit::bad("error", format!("gitoxide clone failed with `{m}` where git clone succeeds, {here}")),
        Ok(Ok(())) => {}
    }
    CLONES.fetch_add(1, Ordering::Relaxed);
    GIT_CALLS.fetch_add(6, Ordering::Relaxed);
    let g = if c.bare { gdst.clone() } else { gdst.join(".git") };
    let fsck = git::try_git(&g, &["fsck", "--connectivity-only"]);
    let fsck_text = format!("{}\n{}", fsck.text(), fsck.err_text());
    if !fsck.ok || fsck_text.contains("missing") || fsck_text.contains("broken") || fsck_text.contains("error") {
        return vkit::bad("fsck", format!("git fsck --connectivity-only exits with {:?} after {here}: {}", fsck.code, fsck_text.trim()));
    }
    if c.shallow && c.proto != 2 && depth_ignored(&g, &h) {
        return vkit::bad(
            "shallow-depth-ignored-v1",
            format!("depth 1 requested, gitoxide received more history than depth 1 (shallow file {:?}), git has shallow commits {:?}, {here}", shallow_of(&g), shallow_of(&h)),
        );
    }
    let (got, want) = (refs_of(&g), refs_of(&h));
    if got != want {
        let diffs: Vec<String> = got
            .keys()
            .chain(want.keys())
            .collect::<BTreeSet<_>>()
            .into_iter()
            .filter(|n| got.get(*n) != want.get(*n))
            .map(|n| format!("{n}: gitoxide {:?}, git {:?}", got.get(n), want.get(n)))
            .collect();
        return vkit::bad("refs", format!("{} after {here}", diffs.join("; ")));
    }
    let head = |d: &Path| {
        let o = git::try_git(d, &["symbolic-ref", "-q", "HEAD"]);
        if o.ok { o.text() } else { format!("detached {}", git::try_git(d, &["rev-parse", "HEAD"]).text()) }
    };
    if head(&g) != head(&h) {
        return vkit::bad("head", format!("HEAD is {:?}, git has {:?} after {here}", head(&g), head(&h)));
    }
    let mut shallow_g = shallow_of(&g);
    if shallow_g != shallow_of(&h) {
        shallow_g.retain(|id| git::try_git(&g, &["cat-file", "-e", id]).ok);
    }
    if shallow_g != shallow_of(&h) {
        return vkit::bad("shallow", format!("shallow file {:?} but git has {:?} after {here}", shallow_of(&g), shallow_of(&h)));
    }
    ok(format!("clone/v{}/{}{}", c.proto, if shallow_of(&g).is_empty() { "complete" } else { "shallow" }, if c.bare { "/bare" } else { "" }))
}

pub fn run(run: &'static Run) {
    util::hermetic_env();
    run.rule(
        "server histories: from base 0 (a = 1 commit), base 1 (a = 2 commits, b = side commit, annotated tag on the root, lightweight tag on the tip) every sequence of \
         {Commit on a, Branch (create/advance b with an old-dated commit), DelBranch b, Rewind a (forced replacement of the tip / new root), TagLw (move lightweight tag), TagAnn (re-create annotated tag)} \
         (quick: base 1 at depth 1 for all 4 clients x protocol 1 and 2, shallow servers (bases 2/3 = bare --depth=1/--depth=2 clones of a 4-commit history) initial fetch for the 3 depth-less clients x protocol 1 and 2; \
         thorough: base 1 at depth 3 for the follow-tags and the unforced+all-tags client with protocol 1 and 2, at depth 2 for the single-branch and the depth-1 client with protocol 1 and 2, base 0 at depth 2 for all 4 clients with alternating protocol, shallow servers at depth 1 for 3 clients x 2 protocols); after the initial state and after EVERY operation the client fetches. Clients: `+refs/heads/*:refs/remotes/o/*` with tag following; `refs/heads/*:refs/remotes/o/*` (no force) with --tags; \
         single branch `+refs/heads/a:..` with --no-tags; all heads --no-tags with depth 1; protocol.version 1 and 2. \
         sub-check `thin-pack` (quick: replaced-line length 90..160 step 5, thorough 2..300 step 2, x protocol 1/2): client has version 0 of a 60-line file, server adds a commit replacing one line by `len` characters and a second one with a 2-character edit, so the fetched thin pack has a ref-delta with external base followed by an ofs-delta; refs + fsck --full. sub-check `clone` (both tiers): PrepareFetch::new(..).fetch_only() for bases 0-3 x protocol 1/2 x complete/depth-1 x bare/with-worktree kind, compared with `git clone --no-checkout [--depth=1 --no-single-branch]` (refs, HEAD, shallow file, fsck). a case = (base, client, protocol, first operation) and covers the whole subtree of continuations; non-trivial = every fetch in the subtree was compared with git fetch and at least one pack was received",
    );
    run.assume("git 2.39.5 `git fetch` (same config file, same protocol.version) on an identical copy of the client is the reference for refs and the shallow file; `git fsck --connectivity-only` decides completeness");
    run.assume("documented deviation tolerated: with tag following, gitoxide does not request annotated tags of commits it already has (Mode::ImplicitTagNotSentByRemote) — only when that mode is reported and the tag object is indeed absent");
    run.assume("shallow servers: the reference is `git fetch --update-shallow` (plain git fetch refuses refs that need a shallow update; gitoxide, like git clone, accepts them)");
    run.assume("the shallow file is compared after dropping entries of gitoxide for commits that do not exist in the client (extra v0/v1 advertisement entries); entries of existing commits must equal those of git");
    run.assume("clone: gitoxide writes `+refs/heads/*:refs/remotes/origin/*` for bare clones too (it does not mirror heads like `git clone --bare`), so the git dir of `git clone --no-checkout` is the reference for both kinds; `--no-single-branch` because Shallow::DepthAtRemote does not narrow the refspec");
    run.assume("pruning, FETCH_HEAD, reflogs and refs/remotes/o/HEAD are outside the comparison (git fetch without --prune does not delete refs either)");
    run.budget_secs(run.pick(40.0, 570.0));
    let fx = fixture();
    let fx = &fx;
    run.sub_with(
        "history",
        vkit::Opts::default().chunk(8).watchdog(600.0),
        |emit| {
            let mut subtree = |base: u8, client: u8, proto: u8, depth: u8| {
                emit(Case { base, client, proto, first: None, depth: 0 });
                if depth > 0 {
                    for op in OPS {
                        if !(op == Op::DelBranch && base == 0) {
                            emit(Case { base, client, proto, first: Some(op), depth });
                        }
                    }
                }
            };
            if run.quick() {
                for client in 0..CLIENTS.len() as u8 {
                    for proto in [2u8, 1] {
                        subtree(1, client, proto, 1);
                    }
                }
                // shallow servers, clients that request no depth
                for base in [2u8, 3] {
                    for client in 0..3u8 {
                        for proto in [1u8, 2] {
                            subtree(base, client, proto, 0);
                        }
                    }
                }
            } else {
                for (client, proto) in [(0u8, 2u8), (1, 2), (0, 1), (1, 1)] {
                    subtree(1, client, proto, 3);
                }
                for (client, proto) in [(3u8, 2u8), (2, 1), (3, 1), (2, 2)] {
                    subtree(1, client, proto, 2);
                }
                for client in 0..CLIENTS.len() as u8 {
                    subtree(0, client, 2 - client % 2, 2);
                }
                for base in [2u8, 3] {
                    for client in 0..3u8 {
                        for proto in [1u8, 2] {
                            subtree(base, client, proto, 1);
                        }
                    }
                }
            }
        },
        |c: &Case| -> Verdict {
            let Some((base_dir, model)) = fx.bases.get(c.base as usize) else { vkit::machinery!("no base {}", c.base) };
            let Some(client) = CLIENTS.get(c.client as usize) else { vkit::machinery!("no client {}", c.client) };
            let (s, g, h) = (copy(base_dir, "c31s"), copy(&fx.client, "c31g"), copy(&fx.client, "c31h"));
            point_client_at(g.path(), s.path(), client);
            point_client_at(h.path(), s.path(), client);
            let mut cx = Ctx { run, case: c, client, kinds: BTreeSet::new() };
            let mut path = Vec::new();
            fetch_and_compare(&mut cx, s.path(), g.path(), h.path(), &path)?;
            if let Some(op) = c.first {
                let mut m = *model;
                if !apply(s.path(), &mut m, op) {
                    return vkit::ok_trivial("first-operation-not-applicable");
                }
                run.mc_transitions(1);
                path.push(op);
                fetch_and_compare(&mut cx, s.path(), g.path(), h.path(), &path)?;
                explore(&mut cx, s.path(), g.path(), h.path(), m, &mut path, c.depth.saturating_sub(1))?;
            }
            let kinds: Vec<&str> = cx.kinds.iter().copied().collect();
            ok(format!("{}/v{}/{}", client.name, c.proto, kinds.join("+")))
        },
    );
    // thin packs: the client has version 0 of a big file, the server adds a commit that replaces one line by `len` characters and a second commit with a tiny edit; the pack
    // then holds version 2 as ref-delta against the client's version 0 (base not in the pack) and version 1 as ofs-delta against version 2.
    // `len` sweeps the entry sizes so that delta-offset encodings cross their 1-byte/2-byte boundary when the thin pack is completed.
    run.sub_with(
        "thin-pack",
        vkit::Opts::default().chunk(16).watchdog(600.0),
        |emit| {
            for len in (run.pick(90u32, 2)..=run.pick(160u32, 300)).step_by(run.pick(5, 2)) {
                for proto in [2u8, 1] {
                    emit(ThinCase { len, proto });
                }
            }
        },
        |t: &ThinCase| -> Verdict {
            let (base_dir, _) = &fx.bases[4];
            let client = &CLIENTS[2];
            let c = Case { base: 4, client: 2, proto: t.proto, first: None, depth: 0 };
            let (s, g, h) = (copy(base_dir, "c31s"), copy(&fx.client, "c31g"), copy(&fx.client, "c31h"));
            point_client_at(g.path(), s.path(), client);
            point_client_at(h.path(), s.path(), client);
            let mut cx = Ctx { run, case: &c, client, kinds: BTreeSet::new() };
            fetch_and_compare(&mut cx, s.path(), g.path(), h.path(), &[]).map_err(|m| format!("{m} [thin-pack len={}]", t.len))?;
            let len = t.len as usize;
            let v1 = big_file(&[(10, len, 7000 + t.len as u64)]);
            // the second commit changes little, so that version 1 is stored as a delta of version 2 and the size of version 2's entry
            // (= the delta offset of version 1) is governed by `len`
            let v2 = big_file(&[(10, len, 7000 + t.len as u64), (20, 2, 9000)]);
            fast_import(s.path(), &big_commit_stream(Some("refs/heads/a^0"), &v1, 1_000_000_100, "big1"));
            fast_import(s.path(), &big_commit_stream(Some("refs/heads/a^0"), &v2, 1_000_000_200, "big2"));
            run.mc_transitions(1);
            fetch_and_compare(&mut cx, s.path(), g.path(), h.path(), &[Op::Commit, Op::Commit]).map_err(|m| format!("{m} [thin-pack len={}]", t.len))?;
            if std::env::var_os("C31_DUMP").is_some() {
                for e in std::fs::read_dir(g.path().join("objects/pack")).into_iter().flatten().flatten() {
                    if e.path().extension().map_or(false, |x| x == "idx") {
                        eprintln!("{}", git::try_git(g.path(), &["verify-pack", "-v", &e.path().display().to_string()]).text());
                    }
                }
            }
            // every object must be readable, not only connected
            let fsck = git::try_git(g.path(), &["fsck", "--full", "--strict"]);
            if !fsck.ok {
                return vkit::bad("fsck", format!("git fsck --full fails after the thin-pack fetch with len={} protocol.version={}: {} {}", t.len, t.proto, fsck.text(), fsck.err_text()));
            }
            ok(format!("thin-pack/v{}", t.proto))
        },
    );
    run.sub_with(
        "clone",
        vkit::Opts::default().chunk(8).watchdog(600.0),
        |emit| {
            for base in 0..4u8 {
                for proto in [1u8, 2] {
                    for shallow in [false, true] {
                        for bare in [true, false] {
                            emit(CloneCase { base, proto, shallow, bare });
                        }
                    }
                }
            }
        },
        |c: &CloneCase| clone_and_compare(fx, c),
    );
    run.cov_add("clones_compared_with_git_clone", CLONES.load(Ordering::Relaxed));
    run.cov_add("oracle_calls_git", GIT_CALLS.load(Ordering::Relaxed));
    run.cov_add("fetches_compared_with_git_fetch", FETCHES.load(Ordering::Relaxed));
    run.cov_add("fetches_that_received_a_pack", PACKS.load(Ordering::Relaxed));
    run.cov_add("shallow_fetches", SHALLOW_FETCHES.load(Ordering::Relaxed));
    if run.over_budget() {
        return;
    }
    run.require("some fetch received a pack", PACKS.load(Ordering::Relaxed) > 0);
    run.require("some implicit (followed) tag was created by gitoxide", IMPLICIT_TAG_CREATED.load(Ordering::Relaxed) > 0);
    run.require("some update was rejected (non-fast-forward / tag clobber)", REJECTED.load(Ordering::Relaxed) > 0);
    run.require("some update was forced", FORCED.load(Ordering::Relaxed) > 0);
    run.require("some clone was compared with git clone", CLONES.load(Ordering::Relaxed) > 0);
    run.require("some shallow fetch happened", SHALLOW_FETCHES.load(Ordering::Relaxed) > 0);
}
