//! C24, sub-check `decode-thread-schedules` (E3): `State::from_bytes` with thread limits 2..4 on the controlled scheduler
//! (harness/vsched/src/c24s.rs): every interleaving (up to the preemption bound) of the extension-loader thread and the entry chunk
//! threads must decode to the state the single-threaded decode gives (which the main part of this check compares with git).
use serde::{Deserialize, Serialize};
use vkit::{bad, ok, ok_trivial, Run, Verdict};

#[derive(Serialize, Deserialize, Hash, Clone, Debug)]
struct Scn {
    name: String,
    index: String,
    thread_limit: usize,
    bound: usize,
    secs: u64,
    schedule: Option<Vec<usize>>,
}

#[derive(Deserialize, Debug)]
struct Report {
    executions: u64,
    decisions: u64,
    max_steps: usize,
    complete: bool,
    outcomes: std::collections::BTreeMap<String, u64>,
    failure: Option<(Vec<usize>, String)>,
    per_bound: Vec<(usize, u64)>,
    entries: usize,
}

static PER_CASE: std::sync::Mutex<Vec<String>> = std::sync::Mutex::new(Vec::new());

pub fn schedules(run: &'static Run) {
    run.rule("decode-thread-schedules: an index of 13 entries in 4 directories (one conflict, one intent-to-add, TREE, REUC, UNTR) written by git with index.threads = 2,3,4 (EOIE + IEOT with 2-4 blocks), \
        with IEOT but without EOIE, as version 4 and version 2/3; decoded with thread_limit 2,3,4 (min_extension_block_in_bytes_for_threading=0) on the controlled scheduler: ALL interleavings with at most 2 preemptions \
        (the threads only synchronise by spawn and join, so this is the whole space); oracle: entries (path, stage, mode, id, flags, stat), tree cache, extensions present and the re-serialised bytes identical to the single-threaded decode");
    let d: &'static vkit::scratch::Dir = Box::leak(Box::new(vkit::scratch::Dir::new("c24c")));
    let root = d.path().join("r");
    std::fs::create_dir_all(&root).unwrap_or_else(|e| vkit::machinery!("mkdir: {e}"));
    vkit::git::init(&root);
    for (i, p) in ["a", "b/c", "b/d", "b/e/f", "g/h", "g/i", "j", "k/l/m", "n", "o/p", "q", "r/s"].iter().enumerate() {
        let f = root.join(p);
        std::fs::create_dir_all(f.parent().unwrap()).unwrap_or_else(|e| vkit::machinery!("mkdir: {e}"));
        std::fs::write(&f, format!("content {i}\n")).unwrap_or_else(|e| vkit::machinery!("write: {e}"));
    }
    vkit::git::git(&root, &["add", "."]);
    vkit::git::git(&root, &["commit", "-q", "-m", "c"]);
    std::fs::write(root.join("ita"), b"x").unwrap_or_else(|e| vkit::machinery!("write: {e}"));
    vkit::git::git(&root, &["add", "-N", "ita"]);
    std::fs::write(root.join("untracked"), b"x").unwrap_or_else(|e| vkit::machinery!("write: {e}"));
    let mut cases = Vec::new();
    let layouts: Vec<(&str, Vec<&str>)> = vec![
        ("t2-v4", vec!["-c", "index.threads=2", "-c", "index.version=4"]),
        ("t3-v2", vec!["-c", "index.threads=3", "-c", "index.version=2"]),
        ("t4-v4", vec!["-c", "index.threads=4", "-c", "index.version=4"]),
        ("ieot-only-v2", vec!["-c", "index.threads=3", "-c", "index.recordEndOfIndexEntries=false", "-c", "index.version=2"]),
    ];
    for (name, args) in &layouts {
        let mut a: Vec<&str> = args.clone();
        a.extend(["-c", "core.untrackedCache=true", "update-index", "--force-write-index", "--untracked-cache"]);
        vkit::git::git(&root, &a);
        let mut s: Vec<&str> = args.clone();
        s.extend(["-c", "core.untrackedCache=true", "status", "--porcelain"]);
        vkit::git::git(&root, &s);
        let mut a2: Vec<&str> = args.clone();
        a2.extend(["update-index", "--force-write-index"]);
        vkit::git::git(&root, &a2);
        let copy = d.path().join(format!("index-{name}"));
        std::fs::copy(root.join(".git/index"), &copy).unwrap_or_else(|e| vkit::machinery!("copy: {e}"));
        for tl in [2usize, 3, 4] {
            cases.push(Scn { name: name.to_string(), index: copy.to_string_lossy().into_owned(), thread_limit: tl, bound: 2, secs: run.pick(30, 300) as u64, schedule: None });
        }
    }
    run.sub_with("decode-thread-schedules", vkit::Opts::default().chunk(16), |emit| cases.into_iter().for_each(|c| emit(c)), |c: &Scn| eval(run, c));
    let mut per = PER_CASE.lock().unwrap().clone();
    per.sort();
    run.cov("decode_thread_schedule_explorations", per);
    run.require("decode-thread-schedules: some file was decoded by more than two threads (more than 12 schedules)", run.over_budget() || run.outcome_count("dec-sched:many") > 0);
}

fn eval(run: &Run, c: &Scn) -> Verdict {
    let bin = std::env::var_os("VERIF_BIN_VSCHED").unwrap_or_else(|| vkit::machinery!("VERIF_BIN_VSCHED is not set (./check builds vsched with the scheduler shim and sets it)"));
    let json = serde_json::to_string(c).unwrap();
    let mut cmd = std::process::Command::new(&bin);
    cmd.arg("--c24-sched").arg(&json).stdin(std::process::Stdio::null());
    if c.schedule.is_some() {
        cmd.env("VSCHED_TRACE", "1");
    }
    let out = cmd.output().unwrap_or_else(|e| vkit::machinery!("cannot run {bin:?}: {e}"));
    let stdout = String::from_utf8_lossy(&out.stdout);
    let Some(line) = stdout.lines().find_map(|l| l.strip_prefix("C24S-REPORT ")) else {
        let err = String::from_utf8_lossy(&out.stderr);
        let tail: String = err.chars().rev().take(1500).collect::<String>().chars().rev().collect();
        vkit::machinery!("scheduler child gave no report (status {:?}): {tail}", out.status)
    };
    let rep: Report = serde_json::from_str(line).unwrap_or_else(|e| vkit::machinery!("bad report: {e}"));
    run.cov_add("decode_thread_schedule_decisions", rep.decisions);
    for (b, n) in &rep.per_bound {
        run.cov_add(&format!("decode_thread_schedule_executions_bound_{b}"), *n);
    }
    PER_CASE.lock().unwrap().push(format!(
        "{} thread_limit={} entries={}: executions per bound={:?} decisions={} max_steps={} complete={}",
        c.name, c.thread_limit, rep.entries, rep.per_bound, rep.decisions, rep.max_steps, rep.complete
    ));
    if let Some((schedule, what)) = rep.failure {
        if what.starts_with("MACHINERY") {
            vkit::machinery!("{what}");
        }
        let class = what.split(':').next().unwrap_or("violation").to_string();
        let msg = format!("{what} | index {} thread_limit {} schedule={schedule:?} (choice indices)", c.name, c.thread_limit);
        if c.schedule.is_some() {
            return bad(&class, msg);
        }
        let mut with_schedule = c.clone();
        with_schedule.schedule = Some(schedule);
        run.violation("decode-thread-schedules", &with_schedule, format!("{class}: {msg}"));
        return ok_trivial("dec-sched:violation-recorded");
    }
    if c.schedule.is_some() {
        return ok("dec-sched:replayed-without-failure");
    }
    if rep.outcomes.is_empty() {
        return bad("vacuous", "no execution completed");
    }
    if !rep.complete {
        run.cap_hit(format!("decode-thread-schedules {} thread_limit {}: {:?} within {} s", c.name, c.thread_limit, rep.per_bound, c.secs));
        return ok("dec-sched:capped");
    }
    let last = rep.per_bound.last().map_or(0, |x| x.1);
    ok(if last > 12 { "dec-sched:many" } else { "dec-sched:few" })
}
