mod c24;
mod c24c;
mod c25;
mod idx;
use vkit::{Check, Level};
fn main() {
    vkit::main(&[
        Check { id: "C24", level: Level::Exploration, run: c24::run },
        Check { id: "C25", level: Level::Exploration, run: c25::run },
    ]);
}
