mod c24;
mod idx;
use vkit::{Check, Level};
fn main() {
    vkit::main(&[Check { id: "C24", level: Level::Exploration, run: c24::run }]);
}
