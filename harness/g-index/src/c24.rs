//! C24 — index files decode to exactly what git wrote, for any thread limit (E1: bounded-exhaustive worktrees x features).
//!
//! Every case is a small worktree/index recipe. The evaluator builds it with the real `git`, lets git rewrite the index in
//! every (version, EOIE/IEOT layout) variant, and for each resulting file compares
//!   gitoxide `State::from_bytes` (thread_limit 1,2,3,16; min_extension_block_in_bytes_for_threading = 0)
//! against two independent readers: `git ls-files --stage --debug` and the harness' own index parser (`idx.rs`).
use crate::idx::{self, Idx};
use serde::{Deserialize, Serialize};
use std::path::{Path, PathBuf};
use std::sync::atomic::{AtomicU64, Ordering::Relaxed};
use vkit::{bad, enumerate, git, ok, ok_trivial, scratch, Run, Verdict};

pub const UNIVERSE: [&str; 5] = ["a", "a/b", "a/c", "ab", "d/e/f"];
pub const THREAD_LIMITS: [usize; 4] = [1, 2, 3, 16];

#[derive(Serialize, Deserialize, Hash, Clone, Debug)]
pub struct Case {
    /// (path, treatment): F file, X executable, L symlink, G gitlink, N intent-to-add, S skip-worktree, V assume-valid,
    /// C123/C23/C12/C13 conflict with these stages, R conflict(1,2,3) then resolved by `git add` (resolve-undo)
    pub paths: Vec<(String, String)>,
    /// operation after the basic index was built (sub-check specific), "" = none
    pub post: String,
    /// index rewrites to request from git, "layout:version": layouts "plain", "eoie", "t2".."t4" (index.threads=N),
    /// "ieot-only"; version 4 or 2 (= v2 or v3, whatever the flags need)
    pub layouts: Vec<String>,
}

// ---------------------------------------------------------------------------------------------------------------------
// statistics for vacuity guards
#[derive(Default)]
pub struct Stats {
    pub files: AtomicU64,
    pub decodes: AtomicU64,
    pub v2: AtomicU64,
    pub v3: AtomicU64,
    pub v4: AtomicU64,
    pub eoie: AtomicU64,
    pub ieot_multi: AtomicU64,
    pub parallel_entry_decode: AtomicU64,
    pub tree: AtomicU64,
    pub tree_invalid: AtomicU64,
    pub reuc: AtomicU64,
    pub untr: AtomicU64,
    pub untr_dir_stat_ctime_ne_mtime: AtomicU64,
    pub untr_header_nonzero: AtomicU64,
    pub untr_exclude_oid: AtomicU64,
    pub link: AtomicU64,
    pub link_bits: AtomicU64,
    pub sdir: AtomicU64,
    pub sparse_dir_entry: AtomicU64,
    pub conflicts: AtomicU64,
    pub ext_flags: AtomicU64,
    pub assume_valid: AtomicU64,
    pub entry_ctime_ne_mtime: AtomicU64,
    pub long_path: AtomicU64,
    pub v4_multibyte_strip: AtomicU64,
    pub ls_files_checked: AtomicU64,
}
pub static STATS: Stats = Stats {
    files: AtomicU64::new(0),
    decodes: AtomicU64::new(0),
    v2: AtomicU64::new(0),
    v3: AtomicU64::new(0),
    v4: AtomicU64::new(0),
    eoie: AtomicU64::new(0),
    ieot_multi: AtomicU64::new(0),
    parallel_entry_decode: AtomicU64::new(0),
    tree: AtomicU64::new(0),
    tree_invalid: AtomicU64::new(0),
    reuc: AtomicU64::new(0),
    untr: AtomicU64::new(0),
    untr_dir_stat_ctime_ne_mtime: AtomicU64::new(0),
    untr_header_nonzero: AtomicU64::new(0),
    untr_exclude_oid: AtomicU64::new(0),
    link: AtomicU64::new(0),
    link_bits: AtomicU64::new(0),
    sdir: AtomicU64::new(0),
    sparse_dir_entry: AtomicU64::new(0),
    conflicts: AtomicU64::new(0),
    ext_flags: AtomicU64::new(0),
    assume_valid: AtomicU64::new(0),
    entry_ctime_ne_mtime: AtomicU64::new(0),
    long_path: AtomicU64::new(0),
    v4_multibyte_strip: AtomicU64::new(0),
    ls_files_checked: AtomicU64::new(0),
};
fn inc(c: &AtomicU64) {
    c.fetch_add(1, Relaxed);
}

// ---------------------------------------------------------------------------------------------------------------------
// fixture helpers (all failures here are machinery errors)

pub fn mkdirs(p: &Path) {
    std::fs::create_dir_all(p).unwrap_or_else(|e| vkit::machinery!("mkdir {}: {e}", p.display()));
}
pub fn write(p: &Path, data: &[u8]) {
    if let Some(d) = p.parent() {
        mkdirs(d);
    }
    std::fs::write(p, data).unwrap_or_else(|e| vkit::machinery!("write {}: {e}", p.display()));
}
pub fn set_mtime(p: &Path, secs: i64) {
    filetime::set_file_mtime(p, filetime::FileTime::from_unix_time(secs, 0)).unwrap_or_else(|e| vkit::machinery!("utimes {}: {e}", p.display()));
}
pub fn read_index(root: &Path) -> Option<Vec<u8>> {
    std::fs::read(root.join(".git/index")).ok()
}

/// A minimal repository without running `git init` (HEAD, objects/, refs/, config).
pub fn init_repo(root: &Path) {
    mkdirs(&root.join(".git/objects"));
    mkdirs(&root.join(".git/refs/heads"));
    mkdirs(&root.join(".git/info"));
    write(&root.join(".git/HEAD"), b"ref: refs/heads/main\n");
    write(&root.join(".git/config"), b"[core]\n\trepositoryformatversion = 0\n\tfilemode = true\n\tbare = false\n");
}

pub fn blob_id(data: &[u8]) -> String {
    gix_object::compute_hash(gix_hash::Kind::Sha1, gix_object::Kind::Blob, data).to_string()
}

/// set all directories of the worktree (except .git) to a fixed old mtime so that ctime != mtime
pub fn age_dirs(root: &Path) {
    fn walk(d: &Path, depth: i64) {
        if let Ok(rd) = std::fs::read_dir(d) {
            for e in rd.flatten() {
                if e.file_name() == ".git" {
                    continue;
                }
                if e.file_type().map(|t| t.is_dir()).unwrap_or(false) {
                    walk(&e.path(), depth + 1);
                }
            }
        }
        set_mtime(d, 1_100_000_000 + depth * 1000);
    }
    walk(root, 0);
}

/// Build the basic index from `paths`. Returns false if the recipe is not constructible (never for enumerated cases).
pub fn build_basic(root: &Path, paths: &[(String, String)]) {
    init_repo(root);
    let mut add: Vec<&str> = Vec::new();
    let mut add_n: Vec<&str> = Vec::new();
    let mut skip: Vec<&str> = Vec::new();
    let mut valid: Vec<&str> = Vec::new();
    let mut info = Vec::<u8>::new();
    for (k, (p, t)) in paths.iter().enumerate() {
        let fp = root.join(p);
        let content = format!("content of {p}\n");
        let mut stages = |st: &[u8]| {
            for s in st {
                let (mode, data) = match s {
                    1 => ("100644", format!("base {p}\n")),
                    2 => ("100755", format!("ours {p}\n")),
                    _ => ("100644", format!("theirs {p}\n")),
                };
                info.extend_from_slice(format!("{mode} {} {s}\t{p}\n", blob_id(data.as_bytes())).as_bytes());
            }
        };
        match t.as_str() {
            "F" | "X" | "N" | "S" | "V" | "R" => {
                write(&fp, content.as_bytes());
                if t == "X" {
                    use std::os::unix::fs::PermissionsExt;
                    std::fs::set_permissions(&fp, std::fs::Permissions::from_mode(0o755)).unwrap_or_else(|e| vkit::machinery!("chmod: {e}"));
                }
                set_mtime(&fp, 1_200_000_000 + k as i64 * 7);
                match t.as_str() {
                    "N" => add_n.push(p),
                    "S" => {
                        add.push(p);
                        skip.push(p)
                    }
                    "V" => {
                        add.push(p);
                        valid.push(p)
                    }
                    "R" => {
                        stages(&[1, 2, 3]);
                        add.push(p)
                    }
                    _ => add.push(p),
                }
            }
            "L" => {
                if let Some(d) = fp.parent() {
                    mkdirs(d);
                }
                std::os::unix::fs::symlink("target", &fp).unwrap_or_else(|e| vkit::machinery!("symlink: {e}"));
                add.push(p);
            }
            "G" => info.extend_from_slice(format!("160000 {} 0\t{p}\n", blob_id(p.as_bytes())).as_bytes()),
            "C123" => stages(&[1, 2, 3]),
            "C23" => stages(&[2, 3]),
            "C12" => stages(&[1, 2]),
            "C13" => stages(&[1, 3]),
            other => vkit::machinery!("unknown treatment {other}"),
        }
    }
    if !info.is_empty() {
        git::git_in(root, &["update-index", "--index-info"], &info);
    }
    if !add.is_empty() {
        let mut a = vec!["add", "--"];
        a.extend(add.iter());
        git::git(root, &a);
    }
    if !add_n.is_empty() {
        let mut a = vec!["add", "-N", "--"];
        a.extend(add_n.iter());
        git::git(root, &a);
    }
    if !skip.is_empty() || !valid.is_empty() {
        let mut a = vec!["update-index"];
        if !skip.is_empty() {
            a.push("--skip-worktree");
            a.extend(skip.iter());
            a.push("--no-skip-worktree");
        }
        if !valid.is_empty() {
            a.push("--assume-unchanged");
            a.extend(valid.iter());
        }
        git::git(root, &a);
    }
}

fn layout_args(layout: &str) -> Vec<&'static str> {
    match layout {
        "plain" => vec![],
        "eoie" => vec!["-c", "index.recordEndOfIndexEntries=true"],
        "t2" => vec!["-c", "index.threads=2"],
        "t3" => vec!["-c", "index.threads=3"],
        "t4" => vec!["-c", "index.threads=4"],
        "t16" => vec!["-c", "index.threads=16"],
        "ieot-only" => vec!["-c", "index.threads=2", "-c", "index.recordEndOfIndexEntries=false"],
        other => vkit::machinery!("unknown layout {other}"),
    }
}

pub fn decode(bytes: &[u8], threads: usize) -> Result<gix_index::State, String> {
    match vkit::catch(|| {
        gix_index::State::from_bytes(
            bytes,
            filetime::FileTime::from_unix_time(0, 0),
            gix_hash::Kind::Sha1,
            gix_index::decode::Options { thread_limit: Some(threads), min_extension_block_in_bytes_for_threading: 0, expected_checksum: None },
        )
    }) {
        Ok(Ok((s, _))) => Ok(s),
        Ok(Err(e)) => Err(format!("error: {e}")),
        Err(p) => Err(format!("panic: {p}")),
    }
}

/// What was seen in one index file (for outcome classes).
#[derive(Default)]
pub struct Seen {
    pub feats: std::collections::BTreeSet<&'static str>,
    pub entries: usize,
}

/// The oracle comparison for one index file. `ls_files`: Some(extra args) to also cross-check with `git ls-files`.
pub fn check_index_file(
    root: &Path,
    bytes: &[u8],
    ls_files: Option<&[&str]>,
    known_entries: Option<&[idx::Ent]>,
    what: &str,
    seen: &mut Seen,
) -> Result<Idx, (String, String)> {
    let (want, extra) = match idx::parse(bytes) {
        Ok(x) => x,
        Err(e) => vkit::machinery!("harness index parser failed on a git-written index ({what}) in {}: {e}", root.display()),
    };
    inc(&STATS.files);
    // oracle 2: git's own listing must agree with the harness parser (else the harness is wrong)
    // (skipped when the entries are byte-for-byte those of a file of the same case that ls-files already confirmed)
    let already_confirmed = known_entries.map(|k| k == &want.entries[..]).unwrap_or(false);
    if let (Some(extra_args), false) = (ls_files, already_confirmed) {
        let mut a = vec!["ls-files", "-z", "--stage", "--debug"];
        a.extend(extra_args.iter());
        let out = git::git(root, &a);
        let listed = idx::parse_ls_files_debug(&out).unwrap_or_else(|e| vkit::machinery!("cannot parse ls-files --debug: {e}"));
        let same = listed.len() == want.entries.len()
            && listed.iter().zip(&want.entries).all(|(l, w)| {
                l.path == w.path && l.stage == w.stage && l.mode == w.mode && l.id == w.id && l.stat == w.stat && (l.flags & idx::ONDISK_FLAGS) == w.flags
            });
        if !same {
            vkit::machinery!(
                "oracles disagree ({what}) in {}: ls-files lists {:?} but harness parser read {:?}",
                root.display(),
                listed.iter().map(idx::show_ent).collect::<Vec<_>>(),
                want.entries.iter().map(idx::show_ent).collect::<Vec<_>>()
            );
        }
        inc(&STATS.ls_files_checked);
    }
    // bookkeeping
    seen.entries = seen.entries.max(want.entries.len());
    match want.version {
        2 => {
            inc(&STATS.v2);
            seen.feats.insert("v2");
        }
        3 => {
            inc(&STATS.v3);
            seen.feats.insert("v3");
        }
        _ => {
            inc(&STATS.v4);
            seen.feats.insert("v4");
        }
    }
    if want.eoie {
        inc(&STATS.eoie);
    }
    let blocks = extra.ieot.as_ref().map(|t| t.len()).unwrap_or(0);
    if blocks > 1 {
        inc(&STATS.ieot_multi);
        seen.feats.insert("ieot");
        if want.eoie {
            inc(&STATS.parallel_entry_decode);
        }
    }
    if let Some(t) = &want.tree {
        inc(&STATS.tree);
        seen.feats.insert("TREE");
        fn any_invalid(t: &idx::TreeNode) -> bool {
            t.num_entries < 0 || t.children.iter().any(any_invalid)
        }
        if any_invalid(t) {
            inc(&STATS.tree_invalid);
            seen.feats.insert("TREE-invalid");
        }
    }
    if want.reuc.as_ref().map(|r| !r.is_empty()).unwrap_or(false) {
        inc(&STATS.reuc);
        seen.feats.insert("REUC");
    }
    if let Some(u) = &want.untr {
        inc(&STATS.untr);
        seen.feats.insert("UNTR");
        if u.dirs.iter().any(|d| d.stat.as_ref().map(|s| s.ctime != s.mtime).unwrap_or(false)) {
            inc(&STATS.untr_dir_stat_ctime_ne_mtime);
        }
        if u.info_exclude.is_some() || u.excludes_file.is_some() {
            inc(&STATS.untr_header_nonzero);
            seen.feats.insert("UNTR-exclude");
        }
        if u.dirs.iter().any(|d| d.exclude_oid.is_some()) {
            inc(&STATS.untr_exclude_oid);
        }
    }
    if let Some(l) = &want.link {
        inc(&STATS.link);
        seen.feats.insert("link");
        if l.bitmaps.as_ref().map(|(d, r)| !d.set.is_empty() || !r.set.is_empty()).unwrap_or(false) {
            inc(&STATS.link_bits);
            seen.feats.insert("link-bits");
        }
    }
    if want.sdir {
        inc(&STATS.sdir);
        seen.feats.insert("sdir");
    }
    if want.entries.iter().any(|e| e.mode == idx::MODE_DIR) {
        inc(&STATS.sparse_dir_entry);
        seen.feats.insert("sparse-dir");
    }
    if want.entries.iter().any(|e| e.stage != 0) {
        inc(&STATS.conflicts);
        seen.feats.insert("conflict");
    }
    if want.entries.iter().any(|e| e.flags >> 16 != 0) {
        inc(&STATS.ext_flags);
        seen.feats.insert("ext-flags");
    }
    if want.entries.iter().any(|e| e.flags & 0x8000 != 0) {
        inc(&STATS.assume_valid);
    }
    if want.entries.iter().any(|e| e.stat.ctime != e.stat.mtime) {
        inc(&STATS.entry_ctime_ne_mtime);
    }
    if want.entries.iter().any(|e| e.path.len() >= 0xfff) {
        inc(&STATS.long_path);
        seen.feats.insert("long-path");
        if want.version == 4 {
            inc(&STATS.v4_multibyte_strip);
        }
    }

    // the real code
    let mut first: Option<Idx> = None;
    for &t in &THREAD_LIMITS {
        inc(&STATS.decodes);
        let state = decode(bytes, t).map_err(|e| {
            (if e.starts_with("panic") { "decode-panic".to_string() } else { "decode-error".to_string() }, format!("{what}, thread_limit {t}: from_bytes failed on an index git wrote: {e}"))
        })?;
        let got = idx::project(&state);
        if let Some((class, detail)) = idx::diff(&got, &want) {
            return Err((class.to_string(), format!("{what}, thread_limit {t}: {detail}")));
        }
        match &first {
            None => first = Some(got),
            Some(f) => {
                if *f != got {
                    return Err(("thread-limit-differs".into(), format!("{what}: decoded state with thread_limit {t} differs from thread_limit 1")));
                }
            }
        }
    }
    Ok(want)
}

/// Let git rewrite the index in every requested layout x {v4, v2/3} and check each file.
/// Let git rewrite the index for every requested variant "layout:version" (version 4 or 2 = lowest sufficient of v2/v3) and
/// check each file. Versions must alternate (git only rewrites when the requested version differs from the current one).
pub fn check_variants(root: &Path, variants: &[String], extra_cfg: &[&str], ls_files: Option<&[&str]>, seen: &mut Seen) -> Result<usize, (String, String)> {
    let mut n = 0;
    let Some(bytes) = read_index(root) else { return Ok(0) };
    let first = check_index_file(root, &bytes, ls_files, None, "index as first written", seen)?;
    n += 1;
    let mut cur_is_v4 = first.version == 4;
    for spec in variants {
        let (layout, ver) = spec.split_once(':').unwrap_or_else(|| vkit::machinery!("bad variant {spec}"));
        if (ver == "4") == cur_is_v4 {
            vkit::machinery!("variant list {variants:?} does not alternate versions");
        }
        let mut a: Vec<&str> = layout_args(layout);
        a.extend(extra_cfg.iter());
        a.extend(["update-index", "--index-version", ver]);
        git::git(root, &a);
        let bytes = read_index(root).unwrap_or_else(|| vkit::machinery!("index vanished"));
        let v = u32::from_be_bytes(bytes[4..8].try_into().unwrap());
        if (ver == "4") != (v == 4) {
            vkit::machinery!("git did not rewrite the index as version {ver} (found {v}) in {}", root.display());
        }
        cur_is_v4 = v == 4;
        check_index_file(root, &bytes, ls_files, Some(&first.entries), &format!("layout {layout}, requested version {ver} (file has v{v})"), seen)?;
        n += 1;
    }
    Ok(n)
}

fn verdict(seen: &Seen, r: Result<usize, (String, String)>) -> Verdict {
    match r {
        Err((class, detail)) => bad(&class, detail),
        Ok(0) => ok_trivial("no-index-file"),
        Ok(_) => {
            let class = seen.feats.iter().copied().collect::<Vec<_>>().join("+");
            if seen.entries == 0 {
                ok_trivial(format!("empty:{class}"))
            } else {
                ok(class)
            }
        }
    }
}

// ---------------------------------------------------------------------------------------------------------------------
// enumeration helpers

/// all subsets of the universe that can exist as files of one worktree (a file `a` excludes `a/b`, `a/c`)
pub fn worktrees(max: usize) -> Vec<Vec<&'static str>> {
    let mut v = Vec::new();
    enumerate::subsets(&UNIVERSE, 0, max, |s| {
        if s.contains(&"a") && (s.contains(&"a/b") || s.contains(&"a/c")) {
            return;
        }
        v.push(s.to_vec());
    });
    v
}

/// all assignments of treatments to the paths of `wt`
pub fn assignments(wt: &[&'static str], treatments: &[&'static str], mut f: impl FnMut(Vec<(String, String)>)) {
    if wt.is_empty() {
        f(Vec::new());
        return;
    }
    enumerate::seqs(treatments, wt.len(), wt.len(), |ts| f(wt.iter().zip(ts).map(|(p, t)| (p.to_string(), t.to_string())).collect()));
}

fn strs(v: &[&str]) -> Vec<String> {
    v.iter().map(|s| s.to_string()).collect()
}

// ---------------------------------------------------------------------------------------------------------------------

fn eval_entries(c: &Case) -> Verdict {
    let dir = scratch::Dir::new("c24");
    let root = dir.path();
    mkdirs(root);
    build_basic(root, &c.paths);
    let mut seen = Seen::default();
    let r = post_op(root, c).and_then(|ls| check_variants(root, &c.layouts, &[], ls.as_deref().map(|v| &v[..]), &mut seen));
    verdict(&seen, r)
}

/// Perform the post operation; returns the ls-files extra args (None = do not use ls-files as an oracle).
fn post_op(root: &Path, c: &Case) -> Result<Option<Vec<&'static str>>, (String, String)> {
    let (op, arg) = c.post.split_once(':').unwrap_or((c.post.as_str(), ""));
    let content2 = |p: &str| format!("changed content of {p}\nsecond line\n");
    let write_tree = || {
        // unmerged entries make write-tree fail: that is fine, the index then simply has no fresh tree cache
        let _ = git::try_git(root, &["write-tree", "--missing-ok"]);
    };
    match op {
        "" => {}
        "wt" => write_tree(),
        "wt+mod" => {
            write_tree();
            write(&root.join(arg), content2(arg).as_bytes());
            set_mtime(&root.join(arg), 1_300_000_000);
            git::git(root, &["add", "--", arg]);
        }
        "wt+rm" => {
            write_tree();
            git::git(root, &["update-index", "--force-remove", "--", arg]);
        }
        "wt+new" => {
            write_tree();
            write(&root.join(arg), content2(arg).as_bytes());
            git::git(root, &["add", "--", arg]);
        }
        other => vkit::machinery!("unknown post op {other}"),
    }
    Ok(Some(vec![]))
}

#[derive(Serialize, Deserialize, Hash, Clone, Debug)]
pub struct UntrCase {
    pub tracked: Vec<String>,
    pub untracked: Vec<String>,
    /// where ignore patterns live: "none", "root" (.gitignore), "sub" (d/.gitignore), "info" (.git/info/exclude),
    /// "global" (core.excludesFile), "info+global"
    pub ignore: String,
    pub layouts: Vec<String>,
}

fn eval_untracked(c: &UntrCase) -> Verdict {
    let dir = scratch::Dir::new("c24u");
    let root = dir.join("w");
    mkdirs(&root);
    let paths: Vec<(String, String)> = c.tracked.iter().map(|p| (p.clone(), "F".to_string())).collect();
    build_basic(&root, &paths);
    for u in &c.untracked {
        write(&root.join(u), b"untracked\n");
    }
    let global = dir.join("global-excludes");
    let global_s = global.display().to_string();
    let cfg_excl = format!("core.excludesFile={global_s}");
    let mut cfg: Vec<&str> = vec!["-c", "core.untrackedCache=true"];
    match c.ignore.as_str() {
        "none" => {}
        "root" => write(&root.join(".gitignore"), b"*.ign\n"),
        "sub" => write(&root.join("d/.gitignore"), b"*.ign\n"),
        "info" => write(&root.join(".git/info/exclude"), b"*.ign\n"),
        "global" | "info+global" => {
            write(&global, b"*.glob\n# comment\n");
            cfg.extend(["-c", cfg_excl.as_str()]);
            if c.ignore == "info+global" {
                write(&root.join(".git/info/exclude"), b"*.ign\n!keep\n");
            }
        }
        other => vkit::machinery!("unknown ignore {other}"),
    }
    age_dirs(&root);
    let mut a = cfg.clone();
    a.extend(["status", "--porcelain"]);
    git::git(&root, &a);
    let mut seen = Seen::default();
    let r = check_variants(&root, &c.layouts, &cfg, Some(&[]), &mut seen);
    if r.is_ok() && !seen.feats.contains("UNTR") {
        return ok_trivial("no-untracked-cache-written");
    }
    verdict(&seen, r)
}

#[derive(Serialize, Deserialize, Hash, Clone, Debug)]
pub struct SplitCase {
    pub tracked: Vec<String>,
    /// operation after `update-index --split-index`: "", "mod:<p>", "rm:<p>", "new:<p>"
    pub op: String,
    pub layouts: Vec<String>,
}

fn eval_split(c: &SplitCase) -> Verdict {
    let dir = scratch::Dir::new("c24s");
    let root = dir.path();
    let paths: Vec<(String, String)> = c.tracked.iter().map(|p| (p.clone(), "F".to_string())).collect();
    build_basic(root, &paths);
    if read_index(root).is_none() {
        return ok_trivial("no-index-file");
    }
    git::git(root, &["update-index", "--split-index"]);
    let (op, arg) = c.op.split_once(':').unwrap_or((c.op.as_str(), ""));
    match op {
        "" => {}
        "mod" => {
            write(&root.join(arg), b"modified after split\n");
            git::git(root, &["add", "--", arg]);
        }
        "rm" => {
            git::git(root, &["update-index", "--force-remove", "--", arg]);
        }
        "new" => {
            write(&root.join(arg), b"new after split\n");
            git::git(root, &["add", "--", arg]);
        }
        other => vkit::machinery!("unknown split op {other}"),
    }
    let mut seen = Seen::default();
    // ls-files shows the merged view, so only the harness parser is the oracle for the split index file itself
    let mut r = check_variants(root, &c.layouts, &[], None, &mut seen);
    // every shared index file is an index as well
    if r.is_ok() {
        if let Ok(rd) = std::fs::read_dir(root.join(".git")) {
            for e in rd.flatten() {
                if e.file_name().to_string_lossy().starts_with("sharedindex.") {
                    if let Ok(bytes) = std::fs::read(e.path()) {
                        if let Err(x) = check_index_file(root, &bytes, None, None, "shared index file", &mut seen) {
                            r = Err(x);
                            break;
                        }
                    }
                }
            }
        }
    }
    if r.is_ok() && !seen.feats.contains("link") {
        return ok_trivial("no-link-written");
    }
    verdict(&seen, r)
}

#[derive(Serialize, Deserialize, Hash, Clone, Debug)]
pub struct SparseCase {
    pub paths: Vec<(String, String)>,
    /// cone directories kept in the sparse checkout
    pub cone: Vec<String>,
    pub layouts: Vec<String>,
}

fn eval_sparse(c: &SparseCase) -> Verdict {
    let dir = scratch::Dir::new("c24p");
    let root = dir.path();
    build_basic(root, &c.paths);
    if read_index(root).is_none() {
        return ok_trivial("no-index-file");
    }
    git::git(root, &["commit", "-q", "-m", "c"]);
    let mut a = vec!["sparse-checkout", "set", "--cone", "--sparse-index"];
    a.extend(c.cone.iter().map(|s| s.as_str()));
    let o = git::try_git(root, &a);
    if !o.ok {
        vkit::machinery!("sparse-checkout failed: {}", o.err_text());
    }
    let mut seen = Seen::default();
    let r = check_variants(root, &c.layouts, &[], Some(&["--sparse"]), &mut seen);
    if r.is_ok() && !seen.feats.contains("sdir") {
        return match verdict(&seen, r) {
            Ok(p) => ok_trivial(format!("not-sparse:{}", p.class)),
            e => e,
        };
    }
    verdict(&seen, r)
}

#[derive(Serialize, Deserialize, Hash, Clone, Debug)]
pub struct LongCase {
    /// (path length or short literal name, treatment F | S | C123 | V)
    pub entries: Vec<(String, String)>,
    pub layouts: Vec<String>,
}

/// A path of exactly `n` bytes: "l/" + 'x' components of <=200 bytes separated by '/', unique suffix per length.
pub fn long_path(n: usize) -> String {
    let mut s = String::from("l");
    while s.len() < n {
        if s.len() % 200 == 1 {
            s.push('/');
        } else {
            s.push('x');
        }
    }
    // make it end in a letter, not a slash
    if s.ends_with('/') {
        s.pop();
        s.push('y');
    }
    s
}

pub fn long_name(spec: &str) -> String {
    match spec.parse::<usize>() {
        Ok(n) => long_path(n),
        Err(_) => spec.to_string(),
    }
}

fn eval_long(c: &LongCase) -> Verdict {
    let dir = scratch::Dir::new("c24l");
    let root = dir.path();
    init_repo(root);
    let mut info = Vec::new();
    let mut skip = Vec::new();
    let mut valid = Vec::new();
    for (spec, t) in &c.entries {
        let p = long_name(spec);
        let stages: &[u8] = if t == "C123" { &[1, 2, 3] } else { &[0] };
        for s in stages {
            info.extend_from_slice(format!("100644 {} {s}\t{p}\n", blob_id(format!("{s} {spec}").as_bytes())).as_bytes());
        }
        match t.as_str() {
            "S" => skip.push(p),
            "V" => valid.push(p),
            "F" | "C123" => {}
            other => vkit::machinery!("unknown treatment {other}"),
        }
    }
    if info.is_empty() {
        return ok_trivial("no-index-file");
    }
    git::git_in(root, &["update-index", "--index-info"], &info);
    if !skip.is_empty() || !valid.is_empty() {
        let mut a: Vec<&str> = vec!["update-index"];
        if !skip.is_empty() {
            a.push("--skip-worktree");
            a.extend(skip.iter().map(|s| s.as_str()));
            a.push("--no-skip-worktree");
        }
        if !valid.is_empty() {
            a.push("--assume-unchanged");
            a.extend(valid.iter().map(|s| s.as_str()));
        }
        git::git(root, &a);
    }
    let mut seen = Seen::default();
    let r = check_variants(root, &c.layouts, &[], Some(&[]), &mut seen);
    verdict(&seen, r)
}

// ---------------------------------------------------------------------------------------------------------------------

pub fn run(run: &'static Run) {
    let q = run.quick();
    run.rule(
        "worktrees = all subsets of {a, a/b, a/c, ab, d/e/f} that can coexist (<=4 paths); every path gets every treatment of the \
         sub-check's alphabet (F file, X exec, L symlink, G gitlink, N intent-to-add, S skip-worktree, V assume-valid, C123/C23/C12/C13 \
         conflict stages, R resolved conflict); git then rewrites the index for every layout x {v4, v2|v3}; each resulting file is \
         decoded with thread_limit 1,2,3,16 (min_extension_block_in_bytes_for_threading=0) and compared field by field with the \
         harness parser + git ls-files --stage --debug. Non-trivial = index has >=1 entry and every variant was compared.",
    );
    run.assume("git 2.39.5 writes the index files and `git ls-files -z --stage --debug [--sparse]` lists them; the harness parser (idx.rs, written from index-format.txt / git sources) must agree with ls-files on every file or the run is a machinery error");
    run.assume("SHA-1 repositories only; fsmonitor extension not generated; tree-cache children are compared as a set ordered by name (gitoxide documents re-sorting)");
    run.assume("UNTR (untracked cache) content is compared too although gitoxide exposes it only through State::untracked() with private fields (read through a cfg(byron_gitoxide_verif) accessor); the property's mechanism list names decode::stat which only UNTR uses");
    run.budget_secs(run.pick(34.0, 540.0));
    // E3 part (a few seconds): thread schedules of the threaded decode
    crate::c24c::schedules(run);
    // development aid only: VERIF_ONLY=<sub> runs a single sub-check (the vacuity guards are then skipped)
    let only = std::env::var("VERIF_ONLY").ok();
    let want = |name: &str| {
        if run.over_budget() {
            // do not even start a sub-check once the time budget is used up (reported as a cap, never as a verdict)
            run.cap_hit(format!("time budget reached before sub-check {name} started"));
            return false;
        }
        only.as_deref().map(|o| o == name).unwrap_or(true)
    };
    // one git process costs 4 ms on an idle machine but >50 ms when other checks run next to this one, so every case
    // uses as few processes as possible: 2-4 to build, 1 ls-files, 1 per rewritten variant
    let variants_small: Vec<String> = strs(&["t3:4", "t2:2"]);
    let variants_entries: Vec<String> = if q { variants_small.clone() } else { strs(&["t2:4", "t4:2", "ieot-only:4"]) };

    // ---- sub-check: entries ------------------------------------------------------------------------------------------
    let t12: &[&str] = &["F", "X", "L", "G", "N", "S", "V", "C123", "C23", "C12", "C13", "R"];
    let t7: &[&str] = &["F", "X", "N", "S", "C123", "C23", "R"];
    let t2: &[&str] = &["F", "C123"];
    let t1: &[&str] = &["C123"];
    let by_size: [&[&str]; 5] = if q { [t12, t12, t2, t1, t1] } else { [t12, t12, t7, t2, t2] };
    run.rule(format!(
        "entries: treatments by worktree size 1..4 = {:?}; variants (index.threads layout:version) first-written + {:?}",
        &by_size[1..].iter().map(|t| t.join(",")).collect::<Vec<_>>(),
        variants_entries
    ));
    if want("entries") {
        run.sub_with(
            "entries",
            vkit::Opts::default().chunk(16),
            |emit| {
                for wt in worktrees(4) {
                    assignments(&wt, by_size[wt.len()], |paths| emit(Case { paths, post: String::new(), layouts: variants_entries.clone() }));
                }
            },
            eval_entries,
        );
    }

    // ---- sub-check: path lengths around the 0xfff name-length saturation ----------------------------------------------
    run.rule(format!(
        "long-paths: subsets of size 1..{} of paths {{a, len 4094, 4095, 4096, 4097, zz}} x treatments {} (index-info, zero stat)",
        if q { 2 } else { 3 },
        if q { "F,S for one path; F for two" } else { "F,S,C123 for <=2 paths; F for three" }
    ));
    if want("long-paths") {
        run.sub_with(
            "long-paths",
            vkit::Opts::default().chunk(16),
            |emit| {
                let names = ["a", "4094", "4095", "4096", "4097", "zz"];
                let mut subsets = Vec::new();
                enumerate::subsets(&names, 1, if q { 2 } else { 3 }, |s| subsets.push(s.to_vec()));
                for s in subsets {
                    let ts: &[&str] = if q {
                        if s.len() == 1 {
                            &["F", "S"]
                        } else {
                            &["F"]
                        }
                    } else if s.len() <= 2 {
                        &["F", "S", "C123"]
                    } else {
                        &["F"]
                    };
                    enumerate::seqs(ts, s.len(), s.len(), |tt| {
                        emit(LongCase { entries: s.iter().zip(tt).map(|(n, t)| (n.to_string(), t.to_string())).collect(), layouts: variants_small.clone() })
                    });
                }
            },
            eval_long,
        );
    }

    // ---- sub-check: untracked cache ---------------------------------------------------------------------------------
    run.rule(format!(
        "untracked-cache: tracked worktrees of 1..{} paths (all F) x {} of untracked files x ignore source {}; directories aged so ctime != mtime; `git status` fills the cache",
        if q { 1 } else { 2 },
        if q { "subsets <= 1 of {u, d/e/u}" } else { "subsets <= 2 (1-path worktrees) / <= 1 (2-path) of {u, a/u, d/u.ign, d/e/u, n/u, n/m/u.glob}" },
        if q { "{none, .gitignore, info/exclude + core.excludesFile}" } else { "{none, .gitignore, d/.gitignore, info/exclude, core.excludesFile, both} (2-path worktrees: none, both; pairs of untracked files: both)" }
    ));
    if want("untracked-cache") {
        run.sub_with(
            "untracked-cache",
            vkit::Opts::default().chunk(16),
            |emit| {
                let untracked_universe: &[&str] = if q { &["u", "d/e/u"] } else { &["u", "a/u", "d/u.ign", "d/e/u", "n/u", "n/m/u.glob"] };
                for wt in worktrees(if q { 1 } else { 2 }) {
                    if wt.is_empty() {
                        continue; // without an index file `git status` does not write one
                    }
                    let ignores: &[&str] = if q {
                        &["none", "root", "info+global"]
                    } else if wt.len() == 1 {
                        &["none", "root", "sub", "info", "global", "info+global"]
                    } else {
                        &["none", "info+global"]
                    };
                    let mut sets: Vec<Vec<&str>> = Vec::new();
                    enumerate::subsets(untracked_universe, 0, if q || wt.len() == 2 { 1 } else { 2 }, |s| {
                        if wt.contains(&"a") && s.contains(&"a/u") {
                            return;
                        }
                        sets.push(s.to_vec());
                    });
                    for u in sets {
                        for ignore in ignores {
                            if u.len() == 2 && *ignore != "info+global" {
                                continue; // pairs of untracked files only with both exclude files
                            }
                            if *ignore == "sub" && !wt.contains(&"d/e/f") && !u.iter().any(|p| p.starts_with("d/")) {
                                continue; // d/ would not exist
                            }
                            emit(UntrCase { tracked: strs(&wt), untracked: strs(&u), ignore: ignore.to_string(), layouts: variants_small.clone() });
                        }
                    }
                }
            },
            eval_untracked,
        );
    }

    // ---- sub-check: tree cache + resolve undo after later index edits -------------------------------------------------
    let tree_t: &[&str] = if q { &["F", "N", "R"] } else { &["F", "N", "R", "G"] };
    run.rule(format!(
        "tree-cache: worktrees <= {} paths x treatments {} (2-path worktrees: F,R) x post-ops (write-tree; then modify / remove {}; add new path {})",
        2,
        tree_t.join(","),
        if q { "the first path (2-path worktrees: treatments F,R and modify only)" } else { "each path" },
        if q { "d/n" } else { "z, a/n, d/n" }
    ));
    if want("tree-cache") {
        run.sub_with(
            "tree-cache",
            vkit::Opts::default().chunk(16),
            |emit| {
                for wt in worktrees(2) {
                    if wt.is_empty() {
                        continue;
                    }
                    let ts: &[&str] = if wt.len() == 2 { &["F", "R"] } else { tree_t };
                    assignments(&wt, ts, |paths| {
                        let mut posts = Vec::new();
                        if !(q && wt.len() == 2) {
                            posts.push("wt".to_string());
                        }
                        for (i, (p, t)) in paths.iter().enumerate() {
                            if q && i > 0 {
                                break;
                            }
                            if t != "G" {
                                posts.push(format!("wt+mod:{p}"));
                            }
                            if !(q && wt.len() == 2) {
                                posts.push(format!("wt+rm:{p}"));
                            }
                        }
                        if !q {
                            posts.push("wt+new:z".into());
                            if !wt.contains(&"a") {
                                posts.push("wt+new:a/n".into());
                            }
                        }
                        if !(q && wt.len() == 2) {
                            posts.push("wt+new:d/n".into());
                        }
                        for post in posts {
                            emit(Case { paths: paths.clone(), post, layouts: variants_small.clone() });
                        }
                    });
                }
            },
            eval_entries,
        );
    }

    // ---- sub-check: split index (link extension) -------------------------------------------------------------------------
    run.rule(format!(
        "split-index: every worktree (all F), `update-index --split-index`, then one of {}; the split index and every sharedindex.* file are decoded (harness parser is the only oracle, ls-files shows the merged view)",
        if q { "{nothing, modify first path, remove last path, add z}" } else { "{nothing, modify p, remove p (each path), add z, add 0}" }
    ));
    if want("split-index") {
        run.sub_with(
            "split-index",
            vkit::Opts::default().chunk(16),
            |emit| {
                for wt in worktrees(4) {
                    if wt.is_empty() {
                        continue;
                    }
                    let mut ops = vec![String::new()];
                    if q {
                        ops.push(format!("mod:{}", wt[0]));
                        if wt.len() >= 2 {
                            ops.push(format!("rm:{}", wt[wt.len() - 1]));
                        }
                    } else {
                        for p in &wt {
                            ops.push(format!("mod:{p}"));
                            ops.push(format!("rm:{p}"));
                        }
                        ops.push("new:0".into());
                    }
                    if !q || wt.len() >= 3 {
                        ops.push("new:z".into());
                    }
                    for op in ops {
                        emit(SplitCase { tracked: strs(&wt), op, layouts: variants_small.clone() });
                    }
                }
            },
            eval_split,
        );
    }

    // ---- sub-check: sparse index ------------------------------------------------------------------------------------------
    run.rule(format!(
        "sparse-index: worktrees with {} x treatments {} committed, `sparse-checkout set --cone --sparse-index` with cone in {{(none), a, d, d/e, a+d}}",
        if q { ">= 3 paths" } else { ">= 1 path" },
        "F"
    ));
    if want("sparse-index") {
        run.sub_with(
            "sparse-index",
            vkit::Opts::default().chunk(16),
            |emit| {
                let cones: [&[&str]; 5] = [&[], &["a"], &["d"], &["d/e"], &["a", "d"]];
                for wt in worktrees(4) {
                    if wt.len() < if q { 3 } else { 1 } {
                        continue;
                    }
                    let ts: &[&str] = &["F"];
                    assignments(&wt, ts, |paths| {
                        for cone in cones {
                            if cone.contains(&"a") && wt.contains(&"a") {
                                continue;
                            }
                            emit(SparseCase { paths: paths.clone(), cone: strs(cone), layouts: variants_small.clone() });
                        }
                    });
                }
            },
            eval_sparse,
        );
    }

    // ---- evidence + vacuity guards ----------------------------------------------------------------------------------------
    let g = |c: &AtomicU64| c.load(Relaxed);
    let s = &STATS;
    run.cov("index_files_compared", g(&s.files));
    run.cov("from_bytes_calls", g(&s.decodes));
    run.cov("oracle_calls_git_ls_files", g(&s.ls_files_checked));
    run.cov(
        "features_seen_in_files",
        serde_json::json!({
            "v2": g(&s.v2), "v3": g(&s.v3), "v4": g(&s.v4), "EOIE": g(&s.eoie), "IEOT_multi_block": g(&s.ieot_multi),
            "EOIE+IEOT (parallel entry decode)": g(&s.parallel_entry_decode), "TREE": g(&s.tree), "TREE_with_invalidated_nodes": g(&s.tree_invalid),
            "REUC": g(&s.reuc), "UNTR": g(&s.untr), "UNTR_dir_stat_ctime!=mtime": g(&s.untr_dir_stat_ctime_ne_mtime),
            "UNTR_exclude_file_stat": g(&s.untr_header_nonzero), "UNTR_dir_exclude_oid": g(&s.untr_exclude_oid),
            "link": g(&s.link), "link_with_bits": g(&s.link_bits), "sdir": g(&s.sdir), "sparse_dir_entries": g(&s.sparse_dir_entry),
            "conflict_stages": g(&s.conflicts), "extended_flags": g(&s.ext_flags), "assume_valid": g(&s.assume_valid),
            "entry_ctime!=mtime": g(&s.entry_ctime_ne_mtime), "path_len>=0xfff": g(&s.long_path), "v4_long_strip": g(&s.v4_multibyte_strip),
        }),
    );
    // (only meaningful when the whole enumeration ran)
    if !run.is_replay() && only.is_none() && !run.over_budget() {
        run.require("v2, v3 and v4 files were compared", g(&s.v2) > 0 && g(&s.v3) > 0 && g(&s.v4) > 0);
        run.require("files with EOIE and a multi-block IEOT were decoded (parallel entry path)", g(&s.parallel_entry_decode) > 0);
        run.require("tree caches incl. invalidated nodes were compared", g(&s.tree) > 0 && g(&s.tree_invalid) > 0);
        run.require("resolve-undo extensions were compared", g(&s.reuc) > 0);
        run.require("untracked caches with directory stat data (ctime != mtime) were compared", g(&s.untr_dir_stat_ctime_ne_mtime) > 0);
        run.require("untracked caches with exclude-file stat/oid were compared", g(&s.untr_header_nonzero) > 0 && g(&s.untr_exclude_oid) > 0);
        run.require("link extensions with non-empty bitmaps were compared", g(&s.link_bits) > 0);
        run.require("sparse indices (sdir + directory entries) were compared", g(&s.sdir) > 0 && g(&s.sparse_dir_entry) > 0);
        run.require("conflicts, extended flags, assume-valid, ctime!=mtime entries were compared", g(&s.conflicts) > 0 && g(&s.ext_flags) > 0 && g(&s.assume_valid) > 0 && g(&s.entry_ctime_ne_mtime) > 0);
        run.require("paths >= 0xfff bytes were compared in v2/3 and v4", g(&s.long_path) > 0 && g(&s.v4_multibyte_strip) > 0);
    }
}

#[allow(dead_code)]
pub fn scratch_root() -> PathBuf {
    scratch::base().to_path_buf()
}
