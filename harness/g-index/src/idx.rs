//! Independent reader of git index files (written from git's Documentation/technical/index-format and read-cache.c/dir.c/
//! split-index.c/resolve-undo.c/cache-tree.c knowledge), a parser for `git ls-files --stage --debug`, and the projection of a
//! decoded `gix_index::State` into the same plain data model so both sides can be compared with `==`.
#![allow(dead_code)]
use std::fmt::Write as _;

pub type Id = [u8; 20];

#[derive(Clone, PartialEq, Eq, Debug, Default)]
pub struct Stat {
    pub ctime: (u32, u32),
    pub mtime: (u32, u32),
    pub dev: u32,
    pub ino: u32,
    pub uid: u32,
    pub gid: u32,
    pub size: u32,
}

#[derive(Clone, PartialEq, Eq, Debug)]
pub struct Ent {
    pub path: Vec<u8>,
    pub stage: u8,
    pub mode: u32,
    pub id: Id,
    /// `(flags16 & 0xf000) | ext16 << 16` — exactly git's in-memory `ce_flags` restricted to what is stored on disk
    pub flags: u32,
    pub stat: Stat,
}

#[derive(Clone, PartialEq, Eq, Debug)]
pub struct TreeNode {
    pub name: Vec<u8>,
    /// -1 = invalidated
    pub num_entries: i64,
    pub id: Option<Id>,
    /// sorted by name bytes (gitoxide documents re-sorting; git stores by (len, bytes))
    pub children: Vec<TreeNode>,
}

#[derive(Clone, PartialEq, Eq, Debug)]
pub struct Reuc {
    pub name: Vec<u8>,
    pub stages: [Option<(u32, Id)>; 3],
}

#[derive(Clone, PartialEq, Eq, Debug)]
pub struct Bitmap {
    pub num_bits: u32,
    pub set: Vec<usize>,
}

#[derive(Clone, PartialEq, Eq, Debug)]
pub struct Link {
    pub shared: Id,
    pub bitmaps: Option<(Bitmap, Bitmap)>,
}

#[derive(Clone, PartialEq, Eq, Debug)]
pub struct UntrDir {
    pub name: Vec<u8>,
    pub untracked: Vec<Vec<u8>>,
    pub subdirs: Vec<usize>,
    pub stat: Option<Stat>,
    pub exclude_oid: Option<Id>,
    pub check_only: bool,
}

#[derive(Clone, PartialEq, Eq, Debug)]
pub struct Untr {
    pub ident: Vec<u8>,
    pub info_exclude: Option<(Stat, Id)>,
    pub excludes_file: Option<(Stat, Id)>,
    pub per_dir: Vec<u8>,
    pub dir_flags: u32,
    pub dirs: Vec<UntrDir>,
}

#[derive(Clone, PartialEq, Eq, Debug, Default)]
pub struct Idx {
    pub version: u32,
    pub entries: Vec<Ent>,
    pub tree: Option<TreeNode>,
    pub reuc: Option<Vec<Reuc>>,
    pub link: Option<Link>,
    pub untr: Option<Untr>,
    pub sdir: bool,
    pub eoie: bool,
    pub has_ieot: bool,
    pub is_sparse: bool,
}

/// things only the raw reader knows
#[derive(Clone, Debug, Default)]
pub struct RawExtra {
    pub ieot: Option<Vec<(u32, u32)>>,
    pub eoie_offset: Option<u32>,
    pub ext_sigs: Vec<[u8; 4]>,
    pub checksum: Id,
    pub end_of_entries: usize,
}

pub const MODE_DIR: u32 = 0o040000;

struct Cur<'a> {
    d: &'a [u8],
    p: usize,
}
impl<'a> Cur<'a> {
    fn new(d: &'a [u8]) -> Self {
        Cur { d, p: 0 }
    }
    fn left(&self) -> usize {
        self.d.len() - self.p
    }
    fn take(&mut self, n: usize) -> Result<&'a [u8], String> {
        if self.left() < n {
            return Err(format!("short read of {n} at {}", self.p));
        }
        let s = &self.d[self.p..self.p + n];
        self.p += n;
        Ok(s)
    }
    fn u32(&mut self) -> Result<u32, String> {
        Ok(u32::from_be_bytes(self.take(4)?.try_into().unwrap()))
    }
    fn u16(&mut self) -> Result<u16, String> {
        Ok(u16::from_be_bytes(self.take(2)?.try_into().unwrap()))
    }
    fn u64(&mut self) -> Result<u64, String> {
        Ok(u64::from_be_bytes(self.take(8)?.try_into().unwrap()))
    }
    fn id(&mut self) -> Result<Id, String> {
        Ok(self.take(20)?.try_into().unwrap())
    }
    fn cstr(&mut self) -> Result<&'a [u8], String> {
        let rest = &self.d[self.p..];
        let n = rest.iter().position(|&b| b == 0).ok_or_else(|| format!("no NUL after {}", self.p))?;
        self.p += n + 1;
        Ok(&rest[..n])
    }
    fn until(&mut self, byte: u8) -> Result<&'a [u8], String> {
        let rest = &self.d[self.p..];
        let n = rest.iter().position(|&b| b == byte).ok_or_else(|| format!("no {byte:#x} after {}", self.p))?;
        self.p += n + 1;
        Ok(&rest[..n])
    }
    /// git's varint.c: big-endian base-128 with +1 per continuation
    fn varint(&mut self) -> Result<u64, String> {
        let mut c = self.take(1)?[0];
        let mut v = (c & 0x7f) as u64;
        while c & 0x80 != 0 {
            c = self.take(1)?[0];
            v = ((v + 1) << 7) + (c & 0x7f) as u64;
        }
        Ok(v)
    }
    fn stat(&mut self) -> Result<Stat, String> {
        // struct ondisk stat_data: sd_ctime{sec,nsec}, sd_mtime{sec,nsec}, dev, ino, uid, gid, size
        let ctime = (self.u32()?, self.u32()?);
        let mtime = (self.u32()?, self.u32()?);
        Ok(Stat { ctime, mtime, dev: self.u32()?, ino: self.u32()?, uid: self.u32()?, gid: self.u32()?, size: self.u32()? })
    }
    /// ewah_serialize: u32 bit_size, u32 word_count, words (u64 BE), u32 rlw position
    fn ewah(&mut self) -> Result<Bitmap, String> {
        let num_bits = self.u32()?;
        let words = self.u32()? as usize;
        let mut w = Vec::with_capacity(words);
        for _ in 0..words {
            w.push(self.u64()?);
        }
        let _rlw = self.u32()?;
        let mut set = Vec::new();
        let mut bit = 0usize;
        let mut i = 0;
        while i < w.len() {
            let rlw = w[i];
            i += 1;
            let run_bit = rlw & 1;
            let run_len = ((rlw >> 1) & 0xffff_ffff) as usize;
            let literals = (rlw >> 33) as usize;
            for _ in 0..run_len * 64 {
                if run_bit == 1 {
                    set.push(bit);
                }
                bit += 1;
            }
            for _ in 0..literals {
                let lw = *w.get(i).ok_or("ewah literal overrun")?;
                i += 1;
                for k in 0..64 {
                    if lw >> k & 1 == 1 {
                        set.push(bit);
                    }
                    bit += 1;
                }
            }
        }
        Ok(Bitmap { num_bits, set })
    }
}

/// `prev`: the previous path for v4 prefix compression; `None` at the start of a block, where git's reader decodes the strip
/// count but ignores it (the writer poisons the previous name so the full path is always stored).
fn parse_entries(c: &mut Cur<'_>, version: u32, n: usize, prev: &mut Option<Vec<u8>>, out: &mut Vec<Ent>) -> Result<(), String> {
    for _ in 0..n {
        let start = c.p;
        let ctime = (c.u32()?, c.u32()?);
        let mtime = (c.u32()?, c.u32()?);
        let dev = c.u32()?;
        let ino = c.u32()?;
        let mode = c.u32()?;
        let uid = c.u32()?;
        let gid = c.u32()?;
        let size = c.u32()?;
        let id = c.id()?;
        let f16 = c.u16()?;
        let mut flags = (f16 & 0xf000) as u32;
        if f16 & 0x4000 != 0 {
            if version < 3 {
                return Err("extended flag in v2".into());
            }
            flags |= (c.u16()? as u32) << 16;
        }
        let namelen = (f16 & 0x0fff) as usize;
        let path: Vec<u8>;
        if version == 4 {
            let strip = c.varint()? as usize;
            let mut p = match prev.as_ref() {
                Some(prev) => {
                    if strip > prev.len() {
                        return Err(format!("v4 strip {strip} > previous path {}", prev.len()));
                    }
                    prev[..prev.len() - strip].to_vec()
                }
                None => Vec::new(),
            };
            let suffix = c.cstr()?;
            p.extend_from_slice(suffix);
            path = p;
        } else {
            let name = if namelen < 0xfff {
                let s = c.take(namelen)?;
                s
            } else {
                let rest = &c.d[c.p..];
                let n = rest.iter().position(|&b| b == 0).ok_or("unterminated long name")?;
                c.take(n)?
            };
            path = name.to_vec();
            // 1..8 NUL bytes so that the entry length is a multiple of eight
            let len = c.p - start;
            let padded = (len + 8) & !7;
            let pad = c.take(padded - len)?;
            if pad.iter().any(|&b| b != 0) {
                return Err("non-NUL padding".into());
            }
        }
        if namelen < 0xfff && namelen != path.len() {
            return Err(format!("name length field {namelen} != {}", path.len()));
        }
        *prev = Some(path.clone());
        out.push(Ent {
            path,
            stage: ((f16 >> 12) & 3) as u8,
            mode,
            id,
            flags,
            stat: Stat { ctime, mtime, dev, ino, uid, gid, size },
        });
    }
    Ok(())
}

fn parse_tree(c: &mut Cur<'_>) -> Result<TreeNode, String> {
    let name = c.cstr()?.to_vec();
    let count = std::str::from_utf8(c.until(b' ')?).map_err(|e| e.to_string())?.parse::<i64>().map_err(|e| e.to_string())?;
    let subtrees = std::str::from_utf8(c.until(b'\n')?).map_err(|e| e.to_string())?.parse::<usize>().map_err(|e| e.to_string())?;
    let id = if count >= 0 { Some(c.id()?) } else { None };
    let mut children = Vec::new();
    for _ in 0..subtrees {
        children.push(parse_tree(c)?);
    }
    children.sort_by(|a, b| a.name.cmp(&b.name));
    Ok(TreeNode { name, num_entries: count, id, children })
}

fn parse_untr_dir(c: &mut Cur<'_>, dirs: &mut Vec<UntrDir>) -> Result<(), String> {
    let n_untracked = c.varint()? as usize;
    let n_dirs = c.varint()? as usize;
    let name = c.cstr()?.to_vec();
    let mut untracked = Vec::new();
    for _ in 0..n_untracked {
        untracked.push(c.cstr()?.to_vec());
    }
    let me = dirs.len();
    dirs.push(UntrDir { name, untracked, subdirs: Vec::new(), stat: None, exclude_oid: None, check_only: false });
    for _ in 0..n_dirs {
        let idx = dirs.len();
        parse_untr_dir(c, dirs)?;
        dirs[me].subdirs.push(idx);
    }
    Ok(())
}

fn parse_untr(data: &[u8]) -> Result<Untr, String> {
    let mut c = Cur::new(data);
    let ident_len = c.varint()? as usize;
    let ident = c.take(ident_len)?.to_vec();
    // struct ondisk_untracked_cache { stat_data info_exclude_stat; stat_data excludes_file_stat; uint32_t dir_flags; }
    // followed by the two hashes (dir.c write_untracked_extension)
    let st_info = c.stat()?;
    let st_excl = c.stat()?;
    let dir_flags = c.u32()?;
    let id_info = c.id()?;
    let id_excl = c.id()?;
    let per_dir = c.cstr()?.to_vec();
    let n_blocks = c.varint()? as usize;
    let mut dirs = Vec::new();
    if n_blocks == 0 {
        if c.take(1)? != [0] || c.left() != 0 {
            return Err("UNTR without directories does not end in one NUL".into());
        }
    } else {
        parse_untr_dir(&mut c, &mut dirs)?;
        if dirs.len() != n_blocks {
            return Err(format!("UNTR announces {n_blocks} directory blocks, found {}", dirs.len()));
        }
        let valid = c.ewah()?;
        let check_only = c.ewah()?;
        let sha_valid = c.ewah()?;
        for &i in &valid.set {
            let st = c.stat()?;
            dirs.get_mut(i).ok_or("valid bit out of range")?.stat = Some(st);
        }
        for &i in &sha_valid.set {
            let id = c.id()?;
            dirs.get_mut(i).ok_or("sha_valid bit out of range")?.exclude_oid = Some(id);
        }
        for &i in &check_only.set {
            dirs.get_mut(i).ok_or("check_only bit out of range")?.check_only = true;
        }
        if c.take(1)? != [0] || c.left() != 0 {
            return Err("UNTR does not end in exactly one NUL".into());
        }
    }
    let null = [0u8; 20];
    Ok(Untr {
        ident,
        info_exclude: (id_info != null).then_some((st_info, id_info)),
        excludes_file: (id_excl != null).then_some((st_excl, id_excl)),
        per_dir,
        dir_flags,
        dirs,
    })
}

fn parse_reuc(data: &[u8]) -> Result<Vec<Reuc>, String> {
    let mut c = Cur::new(data);
    let mut out = Vec::new();
    while c.left() > 0 {
        let name = c.cstr()?.to_vec();
        let mut modes = [0u32; 3];
        for m in &mut modes {
            let s = std::str::from_utf8(c.cstr()?).map_err(|e| e.to_string())?;
            *m = u32::from_str_radix(s, 8).map_err(|e| e.to_string())?;
        }
        let mut stages = [None, None, None];
        for i in 0..3 {
            if modes[i] != 0 {
                stages[i] = Some((modes[i], c.id()?));
            }
        }
        out.push(Reuc { name, stages });
    }
    Ok(out)
}

fn parse_link(data: &[u8]) -> Result<Link, String> {
    let mut c = Cur::new(data);
    let shared = c.id()?;
    if c.left() == 0 {
        return Ok(Link { shared, bitmaps: None });
    }
    let delete = c.ewah()?;
    let replace = c.ewah()?;
    if c.left() != 0 {
        return Err("garbage after link bitmaps".into());
    }
    Ok(Link { shared, bitmaps: Some((delete, replace)) })
}

/// Parse a complete index file (SHA-1 repositories).
pub fn parse(data: &[u8]) -> Result<(Idx, RawExtra), String> {
    if data.len() < 12 + 20 {
        return Err("too short".into());
    }
    let body = &data[..data.len() - 20];
    let mut extra = RawExtra { checksum: data[data.len() - 20..].try_into().unwrap(), ..Default::default() };
    let mut c = Cur::new(body);
    if c.take(4)? != b"DIRC" {
        return Err("bad signature".into());
    }
    let version = c.u32()?;
    if !(2..=4).contains(&version) {
        return Err(format!("version {version}"));
    }
    let n = c.u32()? as usize;
    let mut idx = Idx { version, ..Default::default() };

    // Entries are parsed sequentially; for v4 the IEOT block starts reset the previous name, so the table has to be found first.
    // It is located by scanning extensions from the EOIE offset if present, otherwise a first sequential pass without reset
    // cannot work for v4 — git itself only honours IEOT when EOIE exists, but *writes* reset prefixes whenever IEOT is written.
    // So: locate the extension area by trying to parse entries with "reset allowed at any entry whose strip is 0 and ..." is
    // ambiguous; instead find IEOT by scanning backwards for a consistent extension chain.
    let (ext_start, ieot) = locate_extensions(body, version, n)?;
    extra.end_of_entries = ext_start;
    let mut prev = None;
    match &ieot {
        Some(table) if version == 4 => {
            let mut total = 0usize;
            for &(off, cnt) in table {
                if off as usize != c.p {
                    return Err(format!("IEOT block offset {off} but cursor at {}", c.p));
                }
                prev = None;
                parse_entries(&mut c, version, cnt as usize, &mut prev, &mut idx.entries)?;
                total += cnt as usize;
            }
            if total != n {
                return Err("IEOT counts do not add up".into());
            }
        }
        _ => parse_entries(&mut c, version, n, &mut prev, &mut idx.entries)?,
    }
    if let Some(table) = &ieot {
        // the table must describe entry boundaries for every version
        let mut k = 0usize;
        let mut offsets = Vec::new();
        {
            let mut c2 = Cur::new(body);
            c2.p = 12;
            let mut prev2 = None;
            let mut tmp = Vec::new();
            let mut starts_at: std::collections::BTreeMap<usize, usize> = Default::default();
            for &(_, cnt) in table {
                starts_at.insert(k, cnt as usize);
                k += cnt as usize;
            }
            for i in 0..n {
                if starts_at.contains_key(&i) {
                    offsets.push(c2.p as u32);
                    if version == 4 {
                        prev2 = None;
                    }
                }
                parse_entries(&mut c2, version, 1, &mut prev2, &mut tmp)?;
            }
        }
        let want: Vec<u32> = table.iter().map(|t| t.0).collect();
        if offsets != want {
            return Err(format!("IEOT offsets {want:?} are not entry boundaries {offsets:?}"));
        }
    }
    if c.p != ext_start {
        return Err(format!("entries end at {} but extensions start at {ext_start}", c.p));
    }
    extra.ieot = ieot;
    idx.has_ieot = extra.ieot.is_some();

    while c.left() > 0 {
        let sig: [u8; 4] = c.take(4)?.try_into().unwrap();
        let size = c.u32()? as usize;
        let d = c.take(size)?;
        extra.ext_sigs.push(sig);
        match &sig {
            b"TREE" => idx.tree = Some(parse_tree_ext(d)?),
            b"REUC" => idx.reuc = Some(parse_reuc(d)?),
            b"link" => idx.link = Some(parse_link(d)?),
            b"UNTR" => idx.untr = Some(parse_untr(d)?),
            b"sdir" => {
                if !d.is_empty() {
                    return Err("sdir with content".into());
                }
                idx.sdir = true
            }
            b"EOIE" => {
                if d.len() != 24 {
                    return Err("EOIE size".into());
                }
                idx.eoie = true;
                extra.eoie_offset = Some(u32::from_be_bytes(d[..4].try_into().unwrap()));
                if c.left() != 0 {
                    return Err("EOIE is not the last extension".into());
                }
            }
            b"IEOT" => {}
            _ => {}
        }
    }
    if let Some(o) = extra.eoie_offset {
        if o as usize != ext_start {
            return Err(format!("EOIE offset {o} != end of entries {ext_start}"));
        }
    }
    idx.is_sparse = idx.sdir || idx.entries.iter().any(|e| e.mode == MODE_DIR);
    Ok((idx, extra))
}

fn parse_tree_ext(d: &[u8]) -> Result<TreeNode, String> {
    let mut c = Cur::new(d);
    let t = parse_tree(&mut c)?;
    if c.left() != 0 {
        return Err("garbage after TREE".into());
    }
    Ok(t)
}

/// Find where the extensions start and the IEOT table if any. Uses EOIE when present; otherwise walks the entries (which is
/// only possible without IEOT-reset knowledge for v2/v3; for v4 a candidate IEOT is searched by scanning for the signature and
/// validated by the full parse that follows).
fn locate_extensions(body: &[u8], version: u32, n: usize) -> Result<(usize, Option<Vec<(u32, u32)>>), String> {
    let scan = |start: usize| -> Result<Option<Vec<(u32, u32)>>, String> {
        let mut c = Cur::new(body);
        c.p = start;
        let mut found = None;
        while c.left() > 0 {
            let sig: [u8; 4] = c.take(4)?.try_into().unwrap();
            let size = c.u32()? as usize;
            let d = c.take(size)?;
            if &sig == b"IEOT" {
                let mut e = Cur::new(d);
                if e.u32()? != 1 {
                    return Err("IEOT version".into());
                }
                let mut t = Vec::new();
                while e.left() > 0 {
                    t.push((e.u32()?, e.u32()?));
                }
                found = Some(t);
            }
        }
        Ok(found)
    };
    // EOIE: last 32 bytes of body
    if body.len() >= 12 + 32 && &body[body.len() - 32..body.len() - 28] == b"EOIE" {
        let off = u32::from_be_bytes(body[body.len() - 24..body.len() - 20].try_into().unwrap()) as usize;
        if off >= 12 && off <= body.len() - 32 {
            if let Ok(t) = scan(off) {
                return Ok((off, t));
            }
        }
    }
    if version != 4 {
        let mut c = Cur::new(body);
        c.p = 12;
        let mut prev = None;
        let mut tmp = Vec::new();
        parse_entries(&mut c, version, n, &mut prev, &mut tmp)?;
        let t = scan(c.p)?;
        return Ok((c.p, t));
    }
    // v4 without EOIE: try "no IEOT" first, then every occurrence of the IEOT signature as start of the extension area
    // (git writes IEOT as the first extension).
    {
        let mut c = Cur::new(body);
        c.p = 12;
        let mut prev = None;
        let mut tmp = Vec::new();
        if parse_entries(&mut c, version, n, &mut prev, &mut tmp).is_ok() {
            if let Ok(None) = scan(c.p) {
                return Ok((c.p, None));
            }
        }
    }
    for pos in 12..body.len().saturating_sub(8) {
        if &body[pos..pos + 4] == b"IEOT" {
            if let Ok(Some(t)) = scan(pos) {
                if t.first().map(|f| f.0) == Some(12) && t.iter().map(|x| x.1 as usize).sum::<usize>() == n {
                    return Ok((pos, Some(t)));
                }
            }
        }
    }
    Err("cannot locate extensions of v4 index".into())
}

// ---------------------------------------------------------------------------------------------------------------------
// git ls-files --stage --debug -z

pub fn parse_ls_files_debug(out: &[u8]) -> Result<Vec<Ent>, String> {
    let mut c = Cur::new(out);
    let mut v = Vec::new();
    fn num(s: &[u8], radix: u32) -> Result<u32, String> {
        u32::from_str_radix(std::str::from_utf8(s).map_err(|e| e.to_string())?.trim(), radix).map_err(|e| format!("{e}: {:?}", String::from_utf8_lossy(s)))
    }
    while c.left() > 0 {
        let mode = num(c.until(b' ')?, 8)?;
        let hex = c.until(b' ')?;
        if hex.len() != 40 {
            return Err("id length".into());
        }
        let mut id = [0u8; 20];
        for i in 0..20 {
            id[i] = num(&hex[2 * i..2 * i + 2], 16)? as u8;
        }
        let stage = num(c.until(b'\t')?, 10)? as u8;
        let path = c.cstr()?.to_vec();
        let expect = |c: &mut Cur<'_>, lit: &[u8]| -> Result<(), String> {
            let got = c.take(lit.len())?;
            if got != lit {
                return Err(format!("expected {:?} got {:?}", String::from_utf8_lossy(lit), String::from_utf8_lossy(got)));
            }
            Ok(())
        };
        expect(&mut c, b"  ctime: ")?;
        let cs = num(c.until(b':')?, 10)?;
        let cn = num(c.until(b'\n')?, 10)?;
        expect(&mut c, b"  mtime: ")?;
        let ms = num(c.until(b':')?, 10)?;
        let mn = num(c.until(b'\n')?, 10)?;
        expect(&mut c, b"  dev: ")?;
        let dev = num(c.until(b'\t')?, 10)?;
        expect(&mut c, b"ino: ")?;
        let ino = num(c.until(b'\n')?, 10)?;
        expect(&mut c, b"  uid: ")?;
        let uid = num(c.until(b'\t')?, 10)?;
        expect(&mut c, b"gid: ")?;
        let gid = num(c.until(b'\n')?, 10)?;
        expect(&mut c, b"  size: ")?;
        let size = num(c.until(b'\t')?, 10)?;
        expect(&mut c, b"flags: ")?;
        let flags = num(c.until(b'\n')?, 16)?;
        v.push(Ent { path, stage, mode, id, flags, stat: Stat { ctime: (cs, cn), mtime: (ms, mn), dev, ino, uid, gid, size } });
    }
    Ok(v)
}

/// flags that exist on disk (CE_VALID, CE_EXTENDED, stage, intent-to-add, skip-worktree)
pub const ONDISK_FLAGS: u32 = 0xf000 | 1 << 29 | 1 << 30;

// ---------------------------------------------------------------------------------------------------------------------
// projection of gitoxide's State

fn id_of(o: &gix_hash::oid) -> Id {
    o.as_bytes().try_into().expect("sha1")
}
fn stat_of(s: &gix_index::entry::Stat) -> Stat {
    Stat {
        ctime: (s.ctime.secs, s.ctime.nsecs),
        mtime: (s.mtime.secs, s.mtime.nsecs),
        dev: s.dev,
        ino: s.ino,
        uid: s.uid,
        gid: s.gid,
        size: s.size,
    }
}
fn bitmap_of(v: &gix_bitmap::ewah::Vec) -> Bitmap {
    let mut set = Vec::new();
    v.for_each_set_bit(|i| {
        set.push(i);
        Some(())
    });
    Bitmap { num_bits: v.num_bits() as u32, set }
}
fn tree_of(t: &gix_index::extension::Tree) -> TreeNode {
    let mut children: Vec<TreeNode> = t.children.iter().map(tree_of).collect();
    children.sort_by(|a, b| a.name.cmp(&b.name));
    TreeNode {
        name: t.name.to_vec(),
        num_entries: t.num_entries.map(|n| n as i64).unwrap_or(-1),
        id: t.num_entries.map(|_| id_of(&t.id)),
        children,
    }
}

pub fn project(s: &gix_index::State) -> Idx {
    let version = match s.version() {
        gix_index::Version::V2 => 2,
        gix_index::Version::V3 => 3,
        gix_index::Version::V4 => 4,
    };
    let entries = s
        .entries()
        .iter()
        .map(|e| Ent {
            path: e.path(s).to_vec(),
            stage: e.stage_raw() as u8,
            mode: e.mode.bits(),
            id: id_of(&e.id),
            flags: e.flags.bits(),
            stat: stat_of(&e.stat),
        })
        .collect();
    let reuc = s.resolve_undo().map(|paths| {
        paths
            .iter()
            .map(|p| {
                let (name, stages) = p.verif_parts();
                Reuc { name: name.to_vec(), stages: stages.map(|s| s.map(|(m, id)| (m, id_of(&id)))) }
            })
            .collect()
    });
    let link = s.link().map(|l| Link {
        shared: id_of(&l.shared_index_checksum),
        bitmaps: l.bitmaps.as_ref().map(|b| (bitmap_of(&b.delete), bitmap_of(&b.replace))),
    });
    let untr = s.untracked().map(|u| {
        let (ident, info, excl, per_dir, dir_flags, dirs) = u.verif_parts();
        Untr {
            ident: ident.to_vec(),
            info_exclude: info.map(|o| (stat_of(&o.stat), id_of(&o.id))),
            excludes_file: excl.map(|o| (stat_of(&o.stat), id_of(&o.id))),
            per_dir: per_dir.to_vec(),
            dir_flags,
            dirs: dirs
                .iter()
                .map(|d| UntrDir {
                    name: d.name.to_vec(),
                    untracked: d.untracked_entries.iter().map(|n| n.to_vec()).collect(),
                    subdirs: d.sub_directories.clone(),
                    stat: d.stat.as_ref().map(stat_of),
                    exclude_oid: d.exclude_file_oid.as_ref().map(|o| id_of(o)),
                    check_only: d.check_only,
                })
                .collect(),
        }
    });
    Idx {
        version,
        entries,
        tree: s.tree().map(tree_of),
        reuc,
        link,
        untr,
        // gitoxide exposes only the merged marker
        sdir: false,
        eoie: s.had_end_of_index_marker(),
        has_ieot: s.had_offset_table(),
        is_sparse: s.is_sparse(),
    }
}

pub fn hex(id: &Id) -> String {
    let mut s = String::new();
    for b in id {
        let _ = write!(s, "{b:02x}");
    }
    s
}

pub fn show_ent(e: &Ent) -> String {
    format!(
        "{:o} {} {} {:?} flags={:#x} ctime={}:{} mtime={}:{} dev={} ino={} uid={} gid={} size={}",
        e.mode,
        hex(&e.id),
        e.stage,
        String::from_utf8_lossy(&if e.path.len() > 40 { [&e.path[..20], b"..", &e.path[e.path.len() - 8..]].concat() } else { e.path.clone() }),
        e.flags,
        e.stat.ctime.0,
        e.stat.ctime.1,
        e.stat.mtime.0,
        e.stat.mtime.1,
        e.stat.dev,
        e.stat.ino,
        e.stat.uid,
        e.stat.gid,
        e.stat.size
    ) + &format!(" pathlen={}", e.path.len())
}

/// Compare what gitoxide decoded (`got`) with the independent reading (`want`). Returns `(class, detail)` of the first difference.
pub fn diff(got: &Idx, want: &Idx) -> Option<(&'static str, String)> {
    if got.version != want.version {
        return Some(("version", format!("gitoxide version {} but file has {}", got.version, want.version)));
    }
    if got.entries.len() != want.entries.len() {
        return Some(("entry-count", format!("gitoxide has {} entries, git stored {}", got.entries.len(), want.entries.len())));
    }
    for (i, (g, w)) in got.entries.iter().zip(&want.entries).enumerate() {
        if g != w {
            let class = if g.path != w.path {
                "entry-path"
            } else if g.stat != w.stat {
                "entry-stat"
            } else if g.flags != w.flags || g.stage != w.stage {
                "entry-flags"
            } else {
                "entry-mode-id"
            };
            return Some((class, format!("entry {i}: gitoxide [{}] but git stored [{}]", show_ent(g), show_ent(w))));
        }
    }
    if got.tree != want.tree {
        return Some(("tree-cache", format!("gitoxide {:?} but git stored {:?}", got.tree, want.tree)));
    }
    if got.reuc != want.reuc {
        return Some(("resolve-undo", format!("gitoxide {:?} but git stored {:?}", got.reuc, want.reuc)));
    }
    if got.link != want.link {
        return Some(("link", format!("gitoxide {:?} but git stored {:?}", got.link, want.link)));
    }
    match (&got.untr, &want.untr) {
        (None, None) => {}
        (Some(g), Some(w)) => {
            if g.ident != w.ident || g.per_dir != w.per_dir {
                return Some(("untr-strings", format!("gitoxide ident/per-dir {:?}/{:?} but git stored {:?}/{:?}", g.ident, g.per_dir, w.ident, w.per_dir)));
            }
            if g.dir_flags != w.dir_flags || g.info_exclude != w.info_exclude || g.excludes_file != w.excludes_file {
                return Some((
                    "untr-header",
                    format!(
                        "gitoxide dir_flags={} info_exclude={:?} excludes_file={:?} but git stored dir_flags={} info_exclude={:?} excludes_file={:?}",
                        g.dir_flags, g.info_exclude, g.excludes_file, w.dir_flags, w.info_exclude, w.excludes_file
                    ),
                ));
            }
            if g.dirs.len() != w.dirs.len() {
                return Some(("untr-dirs", format!("gitoxide has {} directories, git stored {}", g.dirs.len(), w.dirs.len())));
            }
            for (i, (gd, wd)) in g.dirs.iter().zip(&w.dirs).enumerate() {
                if gd.stat != wd.stat {
                    let swapped = match (&gd.stat, &wd.stat) {
                        (Some(a), Some(b)) => a.ctime == b.mtime && a.mtime == b.ctime,
                        _ => false,
                    };
                    return Some((
                        if swapped { "untr-dir-stat-swapped" } else { "untr-dir-stat" },
                        format!("directory {i} {:?}: gitoxide {:?} but git stored {:?}", String::from_utf8_lossy(&wd.name), gd.stat, wd.stat),
                    ));
                }
                if gd != wd {
                    return Some(("untr-dirs", format!("directory {i}: gitoxide {gd:?} but git stored {wd:?}")));
                }
            }
        }
        (g, w) => {
            return Some(("untr-presence", format!("gitoxide untracked cache present={} but file has present={}", g.is_some(), w.is_some())));
        }
    }
    if got.is_sparse != want.is_sparse {
        return Some(("sparse", format!("gitoxide is_sparse={} but file says {}", got.is_sparse, want.is_sparse)));
    }
    if got.eoie != want.eoie || got.has_ieot != want.has_ieot {
        return Some((
            "eoie-ieot-marker",
            format!("gitoxide had_eoie={} had_ieot={} but file has eoie={} ieot={}", got.eoie, got.has_ieot, want.eoie, want.has_ieot),
        ));
    }
    None
}
