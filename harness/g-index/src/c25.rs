//! C25 — index files written by gitoxide round-trip and are valid for git (E1: bounded-exhaustive states x write options).
//!
//! States are built in memory (entries over a path alphabet that crosses the 0xfff name-length saturation, every treatment per
//! entry) or decoded from a handful of git-written fixture indices (tree cache valid / partly invalidated, sparse, v4) and
//! then mutated. Each state is written with every `write::Options` combination through `File::write_to`; the bytes are
//!   * decoded again by `State::from_bytes` and compared with the state that was written,
//!   * parsed by the harness' strict index parser (layout: padding, version vs extended flags, EOIE offset + hash, checksum),
//!   * listed by `git ls-files --stage --debug` from a scratch repository whose `.git/index` is that file.
use crate::c24;
use crate::idx::{self, Ent, Idx};
use bstr::ByteSlice;
use gix_index::entry::{Flags, Mode, Stat};
use gix_index::write::{Extensions, Options};
use serde::{Deserialize, Serialize};
use std::sync::atomic::{AtomicU64, Ordering::Relaxed};
use std::sync::OnceLock;
use vkit::{bad, enumerate, git, ok, ok_trivial, scratch, Run, Verdict};

#[derive(Serialize, Deserialize, Hash, Clone, Debug)]
pub struct Case {
    /// "new" = built in memory from `entries`; otherwise the name of a git-written fixture index that is decoded first
    pub base: String,
    /// in-memory entries: (path spec: literal or decimal length of a generated long path, treatment)
    /// treatments: F file, X exec, L symlink, G gitlink, V assume-valid, S skip-worktree (+EXTENDED), N intent-to-add (+EXTENDED),
    /// S! skip-worktree set like gitoxide-core does (without EXTENDED), C123/C23 conflict stages, D = flagged REMOVE, DS = REMOVE + S
    pub entries: Vec<(String, String)>,
    /// mutation of a decoded fixture: "" | "remove:<i>" | "skip:<i>" | "remove-all"
    pub mutation: String,
    /// "all" | "none" | "given:<tree 0/1><eoie 0/1>"
    pub extensions: String,
    pub skip_hash: bool,
}

static GIT_CALLS: AtomicU64 = AtomicU64::new(0);
static LONG: AtomicU64 = AtomicU64::new(0);
static V3: AtomicU64 = AtomicU64::new(0);
static TREE_WRITTEN: AtomicU64 = AtomicU64::new(0);
static EOIE_WRITTEN: AtomicU64 = AtomicU64::new(0);
static SDIR_WRITTEN: AtomicU64 = AtomicU64::new(0);
static REMOVED: AtomicU64 = AtomicU64::new(0);
static CONFLICT: AtomicU64 = AtomicU64::new(0);

struct Fixture {
    name: &'static str,
    bytes: Vec<u8>,
}
static FIXTURES: OnceLock<Vec<Fixture>> = OnceLock::new();

/// Build the fixture indices with git (once per process; replays rebuild them the same way).
fn fixtures() -> &'static [Fixture] {
    FIXTURES.get_or_init(|| {
        let mut v = Vec::new();
        let files = |ps: &[&str]| -> Vec<(String, String)> { ps.iter().map(|p| (p.to_string(), "F".to_string())).collect() };
        let mut mk = |name: &'static str, build: &dyn Fn(&std::path::Path)| {
            let d = scratch::Dir::new("c25fx");
            build(d.path());
            let bytes = c24::read_index(d.path()).unwrap_or_else(|| vkit::machinery!("fixture {name}: no index"));
            idx::parse(&bytes).unwrap_or_else(|e| vkit::machinery!("fixture {name} unparsable: {e}"));
            v.push(Fixture { name, bytes });
        };
        mk("tree-valid", &|r| {
            c24::build_basic(r, &files(&["a/b", "a/c", "ab", "d/e/f"]));
            git::git(r, &["write-tree"]);
        });
        mk("tree-partly-invalid", &|r| {
            c24::build_basic(r, &files(&["a/b", "a/c", "ab", "d/e/f"]));
            git::git(r, &["write-tree"]);
            c24::write(&r.join("d/e/f"), b"changed\n");
            git::git(r, &["add", "d/e/f"]);
        });
        mk("v4-ieot-conflict", &|r| {
            c24::build_basic(r, &[("a".into(), "C123".into()), ("ab".into(), "N".into()), ("d/e/f".into(), "X".into())]);
            git::git(r, &["-c", "index.threads=3", "update-index", "--index-version", "4"]);
        });
        mk("sparse", &|r| {
            c24::build_basic(r, &files(&["a/b", "ab", "d/e/f"]));
            git::git(r, &["commit", "-q", "-m", "c"]);
            git::git(r, &["sparse-checkout", "set", "--cone", "--sparse-index", "a"]);
        });
        v
    })
}

pub fn long_or_literal(spec: &str) -> String {
    c24::long_name(spec)
}

fn oid(n: u8) -> gix_hash::ObjectId {
    let mut b = [0u8; 20];
    for (i, x) in b.iter_mut().enumerate() {
        *x = n.wrapping_mul(31).wrapping_add(i as u8 * 7) | 1;
    }
    gix_hash::ObjectId::from(b)
}

fn stat_for(k: u32) -> Stat {
    use gix_index::entry::stat::Time;
    // distinct values in every field, ctime != mtime, and values with the top bit set
    Stat {
        mtime: Time { secs: 1_200_000_000 + k, nsecs: 999_999_999 - k },
        ctime: Time { secs: 0x8000_0000 + k, nsecs: k },
        dev: 0xffff_ffff - k,
        ino: 0x0102_0304 + k,
        uid: 1000 + k,
        gid: 0x7fff_ffff - k,
        size: if k % 2 == 0 { 0xffff_ffff } else { k * 3 },
    }
}

fn build_state(c: &Case) -> gix_index::State {
    if c.base == "new" {
        let mut s = gix_index::State::new(gix_hash::Kind::Sha1);
        let mut k = 0u32;
        for (spec, t) in &c.entries {
            let path = long_or_literal(spec);
            let mut push = |flags: Flags, mode: Mode, k: u32| s.dangerously_push_entry(stat_for(k), oid(k as u8), flags, mode, path.as_bytes().as_bstr());
            let stage = |n: u32| Flags::from_bits_retain(n << 12);
            match t.as_str() {
                "F" => push(Flags::empty(), Mode::FILE, k),
                "X" => push(Flags::empty(), Mode::FILE_EXECUTABLE, k),
                "L" => push(Flags::empty(), Mode::SYMLINK, k),
                "G" => push(Flags::empty(), Mode::COMMIT, k),
                "V" => push(Flags::ASSUME_VALID, Mode::FILE, k),
                "S" => push(Flags::EXTENDED | Flags::SKIP_WORKTREE, Mode::FILE, k),
                "N" => push(Flags::EXTENDED | Flags::INTENT_TO_ADD, Mode::FILE, k),
                "S!" => push(Flags::SKIP_WORKTREE, Mode::FILE, k),
                "D" => push(Flags::REMOVE, Mode::FILE, k),
                "DS" => push(Flags::REMOVE | Flags::EXTENDED | Flags::SKIP_WORKTREE, Mode::FILE, k),
                "C123" | "C23" => {
                    for n in if t == "C123" { 1..=3 } else { 2..=3 } {
                        push(stage(n), if n == 2 { Mode::FILE_EXECUTABLE } else { Mode::FILE }, k);
                        k += 1;
                    }
                }
                other => vkit::machinery!("unknown treatment {other}"),
            }
            k += 1;
        }
        s.sort_entries();
        s
    } else {
        let fx = fixtures().iter().find(|f| f.name == c.base).unwrap_or_else(|| vkit::machinery!("unknown fixture {}", c.base));
        let mut s = c24::decode(&fx.bytes, 1).unwrap_or_else(|e| vkit::machinery!("fixture {} does not decode: {e}", c.base));
        let (op, arg) = c.mutation.split_once(':').unwrap_or((c.mutation.as_str(), ""));
        let n = s.entries().len();
        match op {
            "" => {}
            "remove" => {
                let i: usize = arg.parse().unwrap_or_else(|_| vkit::machinery!("bad mutation"));
                if i < n {
                    s.entries_mut()[i].flags.insert(Flags::REMOVE);
                }
            }
            "skip" => {
                let i: usize = arg.parse().unwrap_or_else(|_| vkit::machinery!("bad mutation"));
                if i < n {
                    s.entries_mut()[i].flags.insert(Flags::EXTENDED | Flags::SKIP_WORKTREE);
                }
            }
            "remove-all" => {
                for e in s.entries_mut() {
                    e.flags.insert(Flags::REMOVE);
                }
            }
            other => vkit::machinery!("unknown mutation {other}"),
        }
        s
    }
}

fn options(c: &Case) -> Options {
    let extensions = match c.extensions.as_str() {
        "all" => Extensions::All,
        "none" => Extensions::None,
        g => {
            let bits = g.strip_prefix("given:").unwrap_or_else(|| vkit::machinery!("bad extensions {g}")).as_bytes();
            Extensions::Given { tree_cache: bits[0] == b'1', end_of_index_entry: bits[1] == b'1' }
        }
    };
    Options { extensions, skip_hash: c.skip_hash }
}

const STORED: u32 = 0x3000 | 0x8000 | 1 << 29 | 1 << 30; // stage, assume-valid, intent-to-add, skip-worktree

/// what reading the written file back must yield, derived from the state that was written
fn expected(orig: &Idx, writes_tree: bool) -> (Vec<Ent>, Option<idx::TreeNode>) {
    let ents = orig
        .entries
        .iter()
        .filter(|e| e.flags & Flags::REMOVE.bits() == 0)
        .map(|e| {
            let mut e = e.clone();
            e.flags &= STORED;
            if e.flags >> 16 != 0 {
                e.flags |= 0x4000;
            }
            e
        })
        .collect();
    (ents, if writes_tree { orig.tree.clone() } else { None })
}

fn sha1(data: &[u8]) -> [u8; 20] {
    let mut h = gix_features::hash::hasher(gix_hash::Kind::Sha1);
    h.update(data);
    h.digest()
}

fn eval(c: &Case) -> Verdict {
    let state = build_state(c);
    let orig = idx::project(&state);
    let opts = options(c);
    let file = gix_index::File::from_state(state, "/nonexistent/index");
    let mut bytes = Vec::new();
    let (version, reported_hash) = match vkit::catch(|| file.write_to(&mut bytes, opts)) {
        Ok(Ok(x)) => x,
        Ok(Err(e)) => return bad("write-error", format!("write_to failed: {e}")),
        Err(p) => return bad("write-panic", p),
    };
    let writes_tree = matches!(opts.extensions, Extensions::All | Extensions::Given { tree_cache: true, .. });
    let (want_entries, want_tree) = expected(&orig, writes_tree);
    let removed = orig.entries.len() - want_entries.len();

    // --- layout: strict independent parse --------------------------------------------------------------------------------
    let (raw, extra) = match idx::parse(&bytes) {
        Ok(x) => x,
        Err(e) => return bad("layout", format!("the written file is not a well-formed index: {e}")),
    };
    if c.skip_hash {
        if extra.checksum != [0u8; 20] {
            return bad("checksum", "skip_hash was requested but the trailer is not null");
        }
    } else {
        let actual = sha1(&bytes[..bytes.len() - 20]);
        if actual != extra.checksum || reported_hash.as_bytes() != &actual[..] {
            return bad("checksum", format!("trailer {} / reported {} but SHA-1 of the content is {}", idx::hex(&extra.checksum), reported_hash, idx::hex(&actual)));
        }
    }
    if raw.eoie {
        // EOIE hash = SHA-1 over (signature, size) of every extension before it
        let mut h = gix_features::hash::hasher(gix_hash::Kind::Sha1);
        let mut p = extra.end_of_entries;
        let end = bytes.len() - 20 - 32;
        while p < end {
            let size = u32::from_be_bytes(bytes[p + 4..p + 8].try_into().unwrap()) as usize;
            h.update(&bytes[p..p + 8]);
            p += 8 + size;
        }
        if h.digest()[..] != bytes[end + 12..end + 32] {
            return bad("eoie-hash", "EOIE extension hash does not cover the preceding extension headers");
        }
    }
    let needs_v3 = want_entries.iter().any(|e| e.flags >> 16 != 0);
    let reported = match version {
        gix_index::Version::V2 => 2,
        gix_index::Version::V3 => 3,
        gix_index::Version::V4 => 4,
    };
    if reported != raw.version {
        return bad("version", format!("write_to reported version {reported} but the header says {}", raw.version));
    }
    if needs_v3 && raw.version < 3 {
        return bad("version", format!("entries carry extended flags but the file is version {}", raw.version));
    }
    let ent_diff = |got: &[Ent], who: &str, mask: u32| -> Option<String> {
        if got.len() != want_entries.len() {
            return Some(format!("{who} sees {} entries, the state has {} (after dropping {removed} removed)", got.len(), want_entries.len()));
        }
        for (i, (g, w)) in got.iter().zip(&want_entries).enumerate() {
            let mut g2 = g.clone();
            g2.flags &= mask;
            if &g2 != w {
                return Some(format!("entry {i}: {who} sees [{}] but the state had [{}]", idx::show_ent(g), idx::show_ent(w)));
            }
        }
        None
    };
    if let Some(d) = ent_diff(&raw.entries, "an independent reader of the written file", !0) {
        return bad(if d.contains("flags=") && flags_only(&raw.entries, &want_entries) { "stored-flags" } else { "stored-entries" }, d);
    }
    if raw.tree != want_tree {
        return bad("stored-tree", format!("file has tree cache {:?} but the state had {:?} (writes_tree={writes_tree})", raw.tree, want_tree));
    }
    if raw.sdir != orig.is_sparse {
        return bad("stored-sdir", format!("sdir marker written={} but state.is_sparse()={}", raw.sdir, orig.is_sparse));
    }

    // --- round trip through gitoxide ---------------------------------------------------------------------------------------
    for t in [1usize, 3] {
        let back = match c24::decode(&bytes, t) {
            Ok(s) => idx::project(&s),
            Err(e) => return bad("reread-error", format!("from_bytes (thread_limit {t}) rejects what write_to produced: {e}")),
        };
        if let Some(d) = ent_diff(&back.entries, "from_bytes", !0) {
            return bad("roundtrip-entries", d);
        }
        if back.tree != want_tree {
            return bad("roundtrip-tree", format!("read back tree cache {:?} but wrote {:?}", back.tree, want_tree));
        }
        if back.is_sparse != orig.is_sparse {
            return bad("roundtrip-sparse", format!("is_sparse {} became {}", orig.is_sparse, back.is_sparse));
        }
        if back.version != raw.version {
            return bad("roundtrip-version", format!("file is v{} but read back as v{}", raw.version, back.version));
        }
    }

    // --- git ------------------------------------------------------------------------------------------------------------
    let dir = scratch::Dir::new("c25");
    let root = dir.path();
    c24::init_repo(root);
    if orig.is_sparse {
        c24::write(
            &root.join(".git/config"),
            b"[core]\n\trepositoryformatversion = 0\n\tbare = false\n\tsparseCheckout = true\n\tsparseCheckoutCone = true\n[index]\n\tsparse = true\n",
        );
        c24::write(&root.join(".git/info/sparse-checkout"), b"/*\n!/*/\n/a/\n");
    }
    c24::write(&root.join(".git/index"), &bytes);
    let mut a = vec!["ls-files", "-z", "--stage", "--debug"];
    if orig.is_sparse {
        a.push("--sparse");
    }
    GIT_CALLS.fetch_add(1, Relaxed);
    let o = git::try_git(root, &a);
    if !o.ok {
        return bad("git-rejects", format!("git ls-files fails on the written index: {}", o.err_text()));
    }
    if !o.stderr.is_empty() {
        return bad("git-warns", format!("git ls-files complains about the written index: {}", o.err_text()));
    }
    let listed = idx::parse_ls_files_debug(&o.stdout).unwrap_or_else(|e| vkit::machinery!("cannot parse ls-files --debug: {e}"));
    if let Some(d) = ent_diff(&listed, "git ls-files", idx::ONDISK_FLAGS) {
        return bad("git-lists-differently", d);
    }

    // --- bookkeeping ------------------------------------------------------------------------------------------------------
    let mut class: Vec<&str> = vec![if raw.version == 3 { "v3" } else { "v2" }];
    if raw.version == 3 {
        V3.fetch_add(1, Relaxed);
    }
    if want_entries.iter().any(|e| e.path.len() >= 0xfff) {
        LONG.fetch_add(1, Relaxed);
        class.push("long-path");
    }
    if raw.tree.is_some() {
        TREE_WRITTEN.fetch_add(1, Relaxed);
        class.push("TREE");
    }
    if raw.eoie {
        EOIE_WRITTEN.fetch_add(1, Relaxed);
        class.push("EOIE");
    }
    if raw.sdir {
        SDIR_WRITTEN.fetch_add(1, Relaxed);
        class.push("sdir");
    }
    if removed > 0 {
        REMOVED.fetch_add(1, Relaxed);
        class.push("removed");
    }
    if want_entries.iter().any(|e| e.stage != 0) {
        CONFLICT.fetch_add(1, Relaxed);
        class.push("conflict");
    }
    if c.skip_hash {
        class.push("skip-hash");
    }
    let class = class.join("+");
    if want_entries.is_empty() {
        ok_trivial(format!("empty:{class}"))
    } else {
        ok(class)
    }
}

fn flags_only(got: &[Ent], want: &[Ent]) -> bool {
    got.len() == want.len()
        && got.iter().zip(want).all(|(g, w)| {
            let mut g = g.clone();
            g.flags = w.flags;
            &g == w
        })
}

pub fn run(run: &'static Run) {
    let q = run.quick();
    run.assume("domain = states whose information gitoxide can write: entries, tree cache, sparse marker. States carrying resolve-undo / untracked cache / fsmonitor / link extensions are outside (gix-index documents that only TREE, sdir and EOIE are written); fixture states that have such extensions are compared without them");
    run.assume("in-memory-only flags are not expected to survive; entries flagged REMOVE are expected to be dropped; `equal state` = same entries (path, stage, mode, id, stat, stored flags), same tree cache when it is written, same sparse marker");
    run.assume("git 2.39.5 `ls-files -z --stage --debug` reads the written file as .git/index of a scratch repository; checksum and EOIE hash are recomputed by the harness (git only verifies them in fsck)");
    run.budget_secs(run.pick(34.0, 540.0));

    let ext_opts: Vec<&str> = vec!["all", "none", "given:00", "given:10", "given:01", "given:11"];
    let paths = ["a", "a/b", "ab", "4094", "4095", "4096", "4097"];
    let t_full: &[&str] = &["F", "X", "L", "G", "V", "S", "N", "S!", "D", "DS", "C123", "C23"];
    let t_mid: &[&str] = &["F", "S", "D", "C123"];
    let t_small: &[&str] = &["F", "S"];
    run.rule(format!(
        "in-memory states: subsets (size 0..{}) of paths {{a, a/b, ab, len 4094, 4095, 4096, 4097}}; treatments size1 = {}, size2 = {}, size3 = {}; \
         x write options {}. \
         Non-trivial = at least one entry is written and all three readers (from_bytes, harness parser, git ls-files) were compared.",
        if q { 2 } else { 3 },
        t_full.join(","),
        if q { t_small.join(",") } else { t_mid.join(",") },
        t_small.join(","),
        if q { "size0: all 6 extension options; size1: All, Given{eoie}; size2: All; skip_hash=true additionally with All for size<=1" } else { "extensions {All, None, Given{tree,eoie} 4 combos}, skip_hash=true additionally with All and None" }
    ));
    run.sub_with(
        "memory-states",
        vkit::Opts::default().chunk(32),
        |emit| {
            let mut subsets: Vec<Vec<&str>> = Vec::new();
            enumerate::subsets(&paths, 0, if q { 2 } else { 3 }, |s| subsets.push(s.to_vec()));
            for s in subsets {
                let ts: &[&str] = match s.len() {
                    0 | 1 => t_full,
                    2 => {
                        if q {
                            t_small
                        } else {
                            t_mid
                        }
                    }
                    _ => t_small,
                };
                let mut assignments: Vec<Vec<(String, String)>> = Vec::new();
                if s.is_empty() {
                    assignments.push(Vec::new());
                } else {
                    enumerate::seqs(ts, s.len(), s.len(), |tt| assignments.push(s.iter().zip(tt).map(|(p, t)| (p.to_string(), t.to_string())).collect()));
                }
                for entries in assignments {
                    // quick: fewer option combinations
                    let exts: Vec<&str> = if q {
                        match s.len() {
                            0 => ext_opts.clone(),
                            1 => vec!["all", "given:01"],
                            _ => vec!["all"],
                        }
                    } else {
                        ext_opts.clone()
                    };
                    for ext in exts {
                        for skip_hash in [false, true] {
                            if skip_hash && !((ext == "all" && s.len() <= 1) || (!q && ext == "none")) {
                                continue;
                            }
                            emit(Case { base: "new".into(), entries: entries.clone(), mutation: String::new(), extensions: ext.into(), skip_hash });
                        }
                    }
                }
            }
        },
        eval,
    );

    if run.over_budget() {
        run.cap_hit("time budget reached before sub-check fixture-states started");
        return finish_cov(run);
    }
    run.rule("fixture states: git-written indices {tree-valid, tree-partly-invalid, v4-ieot-conflict (read as v4, written as v2/v3), sparse} decoded by gitoxide x mutation {none, REMOVE entry i, skip-worktree entry i (each i), REMOVE all} x the 6 extension options");
    run.sub_with(
        "fixture-states",
        vkit::Opts::default().chunk(32),
        |emit| {
            for f in fixtures() {
                let n = idx::parse(&f.bytes).map(|(i, _)| i.entries.len()).unwrap_or(0);
                let mut muts = vec![String::new(), "remove-all".to_string()];
                for i in 0..n {
                    if q && i > 0 && i + 1 < n {
                        continue;
                    }
                    muts.push(format!("remove:{i}"));
                    muts.push(format!("skip:{i}"));
                }
                for m in muts {
                    for ext in &ext_opts {
                        if q && !m.is_empty() && !matches!(*ext, "all" | "given:10") {
                            continue;
                        }
                        emit(Case { base: f.name.into(), entries: Vec::new(), mutation: m.clone(), extensions: ext.to_string(), skip_hash: false });
                    }
                }
            }
        },
        eval,
    );

    finish_cov(run);
}

fn finish_cov(run: &'static Run) {
    let g = |c: &AtomicU64| c.load(Relaxed);
    run.cov("oracle_calls_git", g(&GIT_CALLS));
    run.cov(
        "written_files_with",
        serde_json::json!({"path_len>=0xfff": g(&LONG), "v3": g(&V3), "TREE": g(&TREE_WRITTEN), "EOIE": g(&EOIE_WRITTEN), "sdir": g(&SDIR_WRITTEN), "removed_entries": g(&REMOVED), "conflicts": g(&CONFLICT)}),
    );
    if !run.is_replay() && !run.over_budget() {
        run.require("files with paths >= 0xfff bytes were written and read by git", g(&LONG) > 0);
        run.require("version 3 files were written", g(&V3) > 0);
        run.require("tree cache, EOIE and sdir extensions were written", g(&TREE_WRITTEN) > 0 && g(&EOIE_WRITTEN) > 0 && g(&SDIR_WRITTEN) > 0);
        run.require("states with removed entries and with conflicts were written", g(&REMOVED) > 0 && g(&CONFLICT) > 0);
    }
}
