//! C26 — config files round-trip losslessly (E1: bounded-exhaustive token sequences, header strings, byte mutations).
use crate::common::{concat, events, load, model, show, show_secs};
use gix_config::parse::Event;
use serde::{Deserialize, Serialize};
use vkit::{bad, enumerate, ok, ok_trivial, Run, Verdict, B};

#[derive(Serialize, Deserialize, Hash, Clone, Debug)]
struct Text {
    text: B,
}

const BOM: &[u8] = b"\xef\xbb\xbf";

/// The oracle for one input text.
fn decide(input: &[u8]) -> Verdict {
    let ev = match events(input) {
        Ok(ev) => ev,
        Err(_) => {
            // the loaded-file API must agree that this is not a config file
            return match load(input) {
                Err(_) => ok_trivial("rejected"),
                Ok(_) => bad("accept-mismatch", "parse::from_bytes rejects but File::from_bytes_no_includes accepts"),
            };
        }
    };
    // (1) events reproduce the input byte for byte (a leading BOM is skipped by design and is not an event)
    let expect = input.strip_prefix(BOM).unwrap_or(input);
    let written = concat(&ev);
    let mut needless_escape = false;
    if written != expect {
        // Documented limit of the header event ("mostly losslessly", subsection stored "with escapes folded"): a backslash in a
        // quoted subsection that escapes a byte other than '"', '\\' and NUL is not reproduced. Everything else must match exactly.
        match compare_modulo_needless_escapes(&ev, expect) {
            Ok(()) => needless_escape = true,
            Err(at) => {
                return bad(
                    "events-roundtrip",
                    format!("input {} parses, but its events serialize to {} (first difference at input offset {at})", show(input), show(&written)),
                )
            }
        }
        // ... and the written text must still parse to the very same events
        match events(&written) {
            Ok(ev2) if ev2 == ev => {}
            _ => return bad("events-roundtrip", format!("input {} is written as {} which parses to different events", show(input), show(&written))),
        }
    }
    // owned events serialize identically
    let owned: Vec<Event<'static>> = ev.iter().map(Event::to_owned).collect();
    if concat(&owned) != written {
        return bad("events-roundtrip-owned", format!("owned events of {} serialize to {}", show(input), show(&concat(&owned))));
    }
    // the grouped form yields the same event stream
    match gix_config::parse::Events::from_bytes(input, None) {
        Ok(g) => {
            if g.into_vec() != ev {
                return bad("events-grouping", format!("parse::Events::from_bytes({}) yields different events than parse::from_bytes", show(input)));
            }
        }
        Err(e) => return bad("accept-mismatch", format!("parse::Events rejects {}: {e}", show(input))),
    }
    // (2) loaded file -> text -> loaded file: same sections and values
    let file = match load(input) {
        Ok(f) => f,
        Err(e) => return bad("accept-mismatch", format!("parse accepts but File rejects {}: {e}", show(input))),
    };
    let m1 = model(&file);
    let t2 = file.to_bstring();
    let file2 = match load(&t2) {
        Ok(f) => f,
        Err(e) => return bad("reparse", format!("{} was written as {} which does not parse: {e}", show(input), show(&t2))),
    };
    let m2 = model(&file2);
    if m1 != m2 {
        return bad(
            "file-roundtrip",
            format!("{} was written as {}; sections/values before {} after {}", show(input), show(&t2), show_secs(&m1), show_secs(&m2)),
        );
    }
    // writing is a fixpoint after one round
    // (not demanded by the property, recorded as an outcome only) is writing a fixpoint after one round?
    let fixpoint = file2.to_bstring() == t2;
    let has_cont = ev.iter().any(|e| matches!(e, Event::ValueNotDone(_)));
    let nvals: usize = m1.iter().map(|s| s.entries.len()).sum();
    let identical = t2.as_slice() == expect;
    let _ = &written;
    if needless_escape {
        return ok_trivial("needless-subsection-escape-folded");
    }
    if m1.is_empty() {
        return if ev.is_empty() { ok_trivial("empty") } else { ok("frontmatter-only") };
    }
    let class = match (nvals, has_cont, identical, fixpoint) {
        (_, _, _, false) => "rewrite-not-a-fixpoint",
        (0, _, true, _) => "sections-only/identical",
        (0, _, false, _) => "sections-only/newline-added",
        (_, true, true, _) => "continuation/identical",
        (_, true, false, _) => "continuation/newline-added",
        (_, false, true, _) => "values/identical",
        (_, false, false, _) => "values/newline-added",
    };
    ok(class)
}

/// Walk `input` along the events: every event must cover exactly its own serialization, except that inside a quoted
/// subsection a backslash before a byte other than `"`/`\\` may be missing from the serialization.
/// Ok(()) if the whole input is covered that way, Err(offset) otherwise.
fn compare_modulo_needless_escapes(ev: &[Event<'_>], input: &[u8]) -> Result<(), usize> {
    let mut at = 0usize;
    for e in ev {
        let w = e.to_bstring();
        match e {
            Event::SectionHeader(h) if h.subsection_name().is_some() && !h.is_legacy() => {
                let mut wi = 0usize;
                let mut in_quotes = false;
                // `w` is [name sep "escaped"]; consume input bytes, allowing extra backslashes inside the quotes
                while wi < w.len() {
                    let Some(&b) = input.get(at) else { return Err(at) };
                    if in_quotes && b == b'\\' {
                        let Some(&n) = input.get(at + 1) else { return Err(at) };
                        if n == b'"' || n == b'\\' || n == 0 {
                            // needed escape: must be present in `w` as the same two bytes
                            if w.get(wi) != Some(&b'\\') || w.get(wi + 1) != Some(&n) {
                                return Err(at);
                            }
                            wi += 2;
                        } else {
                            // needless escape: `w` has only the escaped byte
                            if w.get(wi) != Some(&n) {
                                return Err(at);
                            }
                            wi += 1;
                        }
                        at += 2;
                        continue;
                    }
                    if w[wi] != b {
                        return Err(at);
                    }
                    if b == b'"' {
                        in_quotes = !in_quotes;
                    }
                    wi += 1;
                    at += 1;
                }
            }
            _ => {
                if input.get(at..at + w.len()) != Some(w.as_slice()) {
                    return Err(at);
                }
                at += w.len();
            }
        }
    }
    if at == input.len() {
        Ok(())
    } else {
        Err(at)
    }
}

fn eval(c: &Text) -> Verdict {
    decide(&c.text)
}

/// Seed files for the mutation sub-check (each parses; together they contain every syntactic feature of the format).
pub fn seeds() -> Vec<&'static [u8]> {
    vec![
        b"[core]\n\tbare = false\n\tfilemode = true\n",
        b"[a]\r\n\tk = v\r\n[b \"s\"]\r\n\tk\r\n",
        b"\xef\xbb\xbf# c\n[a.b]\n k=1 ; x\n",
        b"; top\n\n[remote \"o\\\"r\\\\i\"]\n\turl = \"a b\" c\\\n\td\\n\\t\\\\ # t\n",
        b"[a]k=v\n[A \"S\"]K=\"x;#\"\n[a]\nk\nk=\n",
        b"[a \"\"]\n\tk = a\\\r\n  b  \n\tj = \"q\\\n r\"\n",
        b"[a]\n\tk = \"\"\n\tl = \"a\" \"b\"\n\tm = 1k #\n\n[c-1.d-2]\n\tn-1=\\\"\n",
        b"[a]\n\tk = v",
        b"[a] k = v ; c\n   \t\n[b]\n#x\n",
        b"[a]\n\tk = v\\\n",
    ]
}

pub fn run(run: &'static Run) {
    let ltok = run.pick(5, 6);
    let lbody = run.pick(4, 6);
    let lhdr = run.pick(6, 7);
    run.rule(format!(
        "tokens: all sequences of <= {ltok} tokens over the 18-token alphabet [a] | [a \"b\"] | [a.b] | k | k=v | ' = ' | '\"' | '\\\"' | '\\\\' | LF | CRLF | backslash-LF | #c | ;c | SP | TAB | BOM | v; \
         body: 4 header/key prefixes x all sequences of <= {lbody} tokens (<= 5 for the last three prefixes) over 16 value-level tokens (k = v SP TAB '\"' '\\\"' '\\\\' '\\n' backslash-LF backslash-CRLF LF CRLF #c ; [b]); \
         header: every string of <= {lhdr} tokens starting with '[' over ([ a B . - 1 SP '\"' '\\' ] NUL) + LF k=v LF; \
         mutate: 10 seed files x every truncation, single-byte deletion, and substitution/insertion of 16 bytes at every offset. \
         non-trivial = the text parses and has at least one event (events must reproduce the bytes; loaded file -> to_bstring -> reload must give equal sections/values fixpoint of rewriting is recorded as an outcome only)"
    ));
    run.assume("a leading UTF-8 BOM is skipped by the parser by design (test `skips_bom`): events must reproduce the input after the BOM");
    run.assume("header events are documented to be written `mostly losslessly` with subsection escapes folded: a backslash in a quoted subsection before a byte other than '\"', '\\\\' or NUL is not reproduced; for such inputs all other bytes must match and the written text must parse to identical events");
    run.assume("`equal sections and values` = equal ordered list of (section name bytes, subsection bytes, ordered (key bytes, normalized value)) as exposed by File::sections()/Body::into_iter()");
    run.budget_secs(run.pick(35.0, 560.0));

    let toks: [&[u8]; 18] = [
        b"[a]", b"[a \"b\"]", b"[a.b]", b"k", b"k=v", b" = ", b"\"", b"\\\"", b"\\\\", b"\n", b"\r\n", b"\\\n", b"#c", b";c", b" ", b"\t", BOM, b"v",
    ];
    run.sub_with(
        "tokens",
        vkit::Opts::default().chunk(1 << 16),
        |emit| enumerate::strings(&toks, 0, ltok, |s| emit(Text { text: B(s.to_vec()) })),
        eval,
    );

    let body: [&[u8]; 16] =
        [b"k", b"=", b"v", b" ", b"\t", b"\"", b"\\\"", b"\\\\", b"\\n", b"\\\n", b"\\\r\n", b"\n", b"\r\n", b"#c", b";", b"[b]"];
    let prefixes: [&[u8]; 4] = [b"[a]\nk=", b"[a \"s\"]\r\n\tk = v", b"[a.s]k", b"[a]\n"];
    run.sub_with(
        "body",
        vkit::Opts::default().chunk(1 << 16),
        |emit| {
            for (pi, p) in prefixes.into_iter().enumerate() {
                // thorough: the first prefix goes one token deeper than the other three
                let l = if pi < 1 { lbody } else { lbody.min(5) };
                enumerate::strings(&body, 0, l, |s| {
                    let mut t = p.to_vec();
                    t.extend_from_slice(s);
                    emit(Text { text: B(t) })
                });
            }
        },
        eval,
    );

    let hdr: [&[u8]; 11] = [b"[", b"a", b"B", b".", b"-", b"1", b" ", b"\"", b"\\", b"]", b"\0"];
    run.sub_with(
        "header",
        vkit::Opts::default().chunk(1 << 16),
        |emit| {
            enumerate::strings(&hdr, 0, lhdr, |s| {
                // only strings that can be a header line at all: start with '[' (everything else is rejected at byte 0)
                if s.first() != Some(&b'[') {
                    return;
                }
                let mut t = s.to_vec();
                t.extend_from_slice(b"\nk=v\n");
                emit(Text { text: B(t) })
            });
        },
        eval,
    );

    let subst: [u8; 16] = [b'\\', b'"', b'\n', b'\r', b' ', b'\t', b'#', b';', b'[', b']', b'=', b'a', b'.', 0, 0xff, b'b'];
    run.sub(
        "mutate",
        |emit| {
            for s in seeds() {
                emit(Text { text: B(s.to_vec()) });
                for i in 0..s.len() {
                    emit(Text { text: B(s[..i].to_vec()) });
                    let mut d = s.to_vec();
                    d.remove(i);
                    emit(Text { text: B(d) });
                    for b in subst {
                        let mut m = s.to_vec();
                        m[i] = b;
                        emit(Text { text: B(m) });
                        let mut m = s.to_vec();
                        m.insert(i, b);
                        emit(Text { text: B(m) });
                    }
                }
            }
        },
        eval,
    );
    if !run.is_replay() {
        for s in seeds() {
            run.require("every seed file parses", events(s).is_ok());
        }
        run.require("continuation lines were explored", run.outcome_count("continuation/identical") > 0);
        run.require("files needing a newline on write were explored", run.outcome_count("values/newline-added") > 0);
    }
}
