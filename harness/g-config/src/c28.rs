//! C28 — config edits change only what was edited (E2 with dedup: explicit-state BFS over edit histories, state = serialized text).
use crate::common::{events, flat_of_events, load, model, parse_list_z, show, show_secs, Sec};
use bstr::{BStr, ByteSlice};
use gix_config::parse::Event;
use serde::{Deserialize, Serialize};
use std::borrow::Cow;
use std::collections::{HashMap, HashSet};
use vkit::{Run, B};

type Flat = Vec<(Vec<u8>, Option<Vec<u8>>)>;

#[derive(Serialize, Deserialize, Hash, Clone, Debug, PartialEq, Eq)]
enum Op {
    Set(String, Option<String>, String, B),
    Push(String, Option<String>, String, B),
    RemoveValue(String, Option<String>, String),
    SetAll(String, Option<String>, String, B),
    DeleteAll(String, Option<String>, String),
    NewSection(String, Option<String>),
    RemoveSection(String, Option<String>),
    Rename(String, Option<String>, String, Option<String>),
    /// `remove_section_by_id` of the first (0) / middle (1) / last (2) section with that name and subsection, in file order
    RemoveById(String, Option<String>, u8),
}

fn pick_kth(len: usize, k: u8) -> Option<usize> {
    match (len, k) {
        (0, _) => None,
        (_, 0) => Some(0),
        (l, 1) => Some(l / 2),
        (l, _) => Some(l - 1),
    }
}

#[derive(Serialize, Deserialize, Hash, Clone, Debug)]
struct History {
    file: usize,
    ops: Vec<Op>,
}

fn initial_files() -> Vec<&'static [u8]> {
    vec![
        b"[a]\n\tk = 1\n[c]\n\tk = 2\n",
        b"# top\n[a]\n\tk = 1 # one\n\tk = 2\n; mid\n[a \"b\"]\n\tk = 3\n[a]\n\tj = 4\n",
        b"[a]\r\n\tk = x\\\r\n  y\r\n[c]\r\n\tk\r\n",
        b"[A]\nK=1\n[a.b]\nk = \"q r\" \n",
        b"[a]k=1\n[c] ; c\n\tk = 1\n\n\n[a \"B\"]\n",
        b"[c]\n\tk = v",
        b"",
        // continuation-line values BEFORE other keys of the same section: 1 continuation without comment, 2 continuations with trailing comment
        b"[a]\n\tk = x\\\n  y\n\tj = 2\n[c]\n\tk = p\\\n q\\\n r ; t\n\tj = 5 # five\n\tl = 6\n",
        // the same key repeated: single k, multi-line j with comment, multi-line k (the last k) followed by l; a.b: multi-line k followed by a single k
        b"[a]\n\tk = 1\n\tj = m\\\n n # cj\n\tk = x\\\n y\n\tl = 7\n[a \"b\"]\n\tk = u\\\n v\n\tk = w\n",
        // three sections of the same name, and three with the same name and subsection, the same key in each
        b"[a]\n\tk = 1\n[a \"b\"]\n\tk = 2\n[a]\n\tk = 3\n[a \"b\"]\n\tk = 4\n[a]\n\tk = 5\n[a \"b\"]\n\tk = 6\n",
        // CRLF continuation followed by another key
        b"[c]\r\n\tk = a\\\r\n b\r\n\tj = 1\r\n",
    ]
}

fn ops() -> Vec<Op> {
    let keys: [(&str, Option<&str>); 3] = [("a", None), ("a", Some("b")), ("c", None)];
    let vals: [&[u8]; 2] = [b"1", b" q;\"\\#\t"];
    let mut v = Vec::new();
    let s = |x: &str| x.to_string();
    let o = |x: Option<&str>| x.map(str::to_string);
    for (sec, sub) in keys {
        for val in vals {
            v.push(Op::Set(s(sec), o(sub), s("k"), B(val.to_vec())));
            v.push(Op::Push(s(sec), o(sub), s("k"), B(val.to_vec())));
        }
        // comment characters inside and at the end of a word (no surrounding whitespace that would force quotes anyway)
        v.push(Op::Set(s(sec), o(sub), s("k"), B(b"u#v;w#".to_vec())));
        v.push(Op::SetAll(s(sec), o(sub), s("k"), B(b"z".to_vec())));
        v.push(Op::RemoveValue(s(sec), o(sub), s("k")));
        v.push(Op::DeleteAll(s(sec), o(sub), s("k")));
        v.push(Op::NewSection(s(sec), o(sub)));
        v.push(Op::RemoveSection(s(sec), o(sub)));
    }
    // neighbours of k: j in a and c (set / remove / delete-all / push)
    for sec in ["a", "c"] {
        v.push(Op::Set(s(sec), None, s("j"), B(b"9".to_vec())));
        v.push(Op::RemoveValue(s(sec), None, s("j")));
        v.push(Op::DeleteAll(s(sec), None, s("j")));
        v.push(Op::SetAll(s(sec), None, s("j"), B(b"z".to_vec())));
    }
    for sub in [None, Some("b")] {
        for k in 0..3u8 {
            v.push(Op::RemoveById(s("a"), o(sub), k));
        }
    }
    v.push(Op::Rename(s("a"), None, s("c"), None));
    v.push(Op::Rename(s("a"), o(Some("b")), s("a"), None));
    v.push(Op::Rename(s("c"), None, s("a"), o(Some("b"))));
    v.push(Op::Rename(s("a"), None, s("a"), o(Some("B"))));
    v
}

fn matches(sec: &Sec, name: &str, sub: &Option<String>) -> bool {
    sec.name.eq_ignore_ascii_case(name.as_bytes()) && sec.sub.as_deref() == sub.as_deref().map(str::as_bytes)
}
fn keq(a: &[u8], b: &str) -> bool {
    a.eq_ignore_ascii_case(b.as_bytes())
}

/// The reference model: what the edit means on the ordered list of sections. Returns the indices (in the *new* list)
/// of sections whose comments are "don't care" (a removed value may take a same-line comment with it).
fn apply_model(m: &mut Vec<Sec>, comments: &mut Vec<Option<Vec<Vec<u8>>>>, op: &Op) {
    let last = |m: &Vec<Sec>, n: &str, s: &Option<String>| m.iter().rposition(|x| matches(x, n, s));
    let new_sec = |n: &str, s: &Option<String>| Sec { name: n.as_bytes().to_vec(), sub: s.as_ref().map(|s| s.as_bytes().to_vec()), entries: vec![] };
    match op {
        Op::Set(n, s, k, v) => match last(m, n, s) {
            Some(i) => match m[i].entries.iter().rposition(|(key, _)| keq(key, k)) {
                Some(j) => m[i].entries[j].1 = v.0.clone(),
                None => m[i].entries.push((k.as_bytes().to_vec(), v.0.clone())),
            },
            None => {
                let mut sec = new_sec(n, s);
                sec.entries.push((k.as_bytes().to_vec(), v.0.clone()));
                m.push(sec);
                comments.push(Some(vec![]));
            }
        },
        Op::Push(n, s, k, v) => match last(m, n, s) {
            Some(i) => m[i].entries.push((k.as_bytes().to_vec(), v.0.clone())),
            None => {
                let mut sec = new_sec(n, s);
                sec.entries.push((k.as_bytes().to_vec(), v.0.clone()));
                m.push(sec);
                comments.push(Some(vec![]));
            }
        },
        Op::RemoveValue(n, s, k) => {
            if let Some(i) = last(m, n, s) {
                if let Some(j) = m[i].entries.iter().rposition(|(key, _)| keq(key, k)) {
                    m[i].entries.remove(j);
                    comments[i] = None;
                }
            }
        }
        Op::SetAll(n, s, k, v) => {
            for sec in m.iter_mut().filter(|x| matches(x, n, s)) {
                for e in sec.entries.iter_mut().filter(|(key, _)| keq(key, k)) {
                    e.1 = v.0.clone();
                }
            }
        }
        Op::DeleteAll(n, s, k) => {
            for (i, sec) in m.iter_mut().enumerate().filter(|(_, x)| matches(x, n, s)) {
                let before = sec.entries.len();
                sec.entries.retain(|(key, _)| !keq(key, k));
                if sec.entries.len() != before {
                    comments[i] = None;
                }
            }
        }
        Op::NewSection(n, s) => {
            m.push(new_sec(n, s));
            comments.push(Some(vec![]));
        }
        Op::RemoveSection(n, s) => {
            if let Some(i) = last(m, n, s) {
                m.remove(i);
                comments.remove(i);
            }
        }
        Op::Rename(n, s, n2, s2) => {
            if let Some(i) = last(m, n, s) {
                m[i].name = n2.as_bytes().to_vec();
                m[i].sub = s2.as_ref().map(|s| s.as_bytes().to_vec());
            }
        }
        Op::RemoveById(n, s, k) => {
            let idx: Vec<usize> = m.iter().enumerate().filter(|(_, x)| matches(x, n, s)).map(|(i, _)| i).collect();
            if let Some(j) = pick_kth(idx.len(), *k) {
                m.remove(idx[j]);
                comments.remove(idx[j]);
            }
        }
    }
}

/// The real thing: load `text`, apply `op` through the public mutation API, serialize.
fn apply_real(text: &[u8], op: &Op) -> Result<Vec<u8>, String> {
    let mut file = load(text).map_err(|e| format!("state does not load: {e}"))?;
    apply_real_on(&mut file, op)?;
    Ok(file.to_bstring().into())
}

/// Apply `op` to a live in-memory file.
fn apply_real_on(file: &mut gix_config::File<'_>, op: &Op) -> Result<(), String> {
    let sub = |s: &Option<String>| -> Option<Vec<u8>> { s.as_ref().map(|s| s.as_bytes().to_vec()) };
    fn bs(s: &Option<Vec<u8>>) -> Option<&BStr> {
        s.as_deref().map(|s| s.as_bstr())
    }
    match op {
        Op::Set(n, s, k, v) => {
            let s = sub(s);
            file.set_raw_value_by(n.as_str(), bs(&s), k.clone(), v.as_bstr()).map_err(|e| format!("set_raw_value_by failed: {e}"))?;
        }
        Op::Push(n, s, k, v) => {
            let s = sub(s);
            let mut sec = file.section_mut_or_create_new(n.as_str(), bs(&s)).map_err(|e| format!("section_mut_or_create_new failed: {e}"))?;
            let key = gix_config::parse::section::ValueName::try_from(k.clone()).map_err(|e| e.to_string())?;
            sec.push(key, Some(v.as_bstr()));
        }
        Op::RemoveValue(n, s, k) => {
            let s = sub(s);
            if let Ok(mut sec) = file.section_mut(n.as_str(), bs(&s)) {
                sec.remove(k);
            }
        }
        Op::SetAll(n, s, k, v) => {
            let s = sub(s);
            if let Ok(mut vals) = file.raw_values_mut_by(n.as_str(), bs(&s), k.as_str()) {
                vals.set_all(v.as_bstr());
            };
        }
        Op::DeleteAll(n, s, k) => {
            let s = sub(s);
            if let Ok(mut vals) = file.raw_values_mut_by(n.as_str(), bs(&s), k.as_str()) {
                vals.delete_all();
            };
        }
        Op::NewSection(n, s) => {
            file.new_section(n.clone(), sub(s).map(|s| Cow::Owned(s.into()))).map_err(|e| format!("new_section failed: {e}"))?;
        }
        Op::RemoveSection(n, s) => {
            let s = sub(s);
            file.remove_section(n.as_str(), bs(&s));
        }
        Op::Rename(n, s, n2, s2) => {
            let s = sub(s);
            let _ = file.rename_section(n.as_str(), bs(&s), n2.clone(), sub(s2).map(|s| Cow::Owned(s.into())));
        }
        Op::RemoveById(n, s, k) => {
            let s = sub(s);
            // sections in file order, matched on the header itself (independent of the name lookup tables)
            let ids: Vec<_> = file
                .sections_and_ids()
                .filter(|(sec, _)| sec.header().name().eq_ignore_ascii_case(n.as_bytes()) && sec.header().subsection_name().map(|x| x.to_vec()) == s)
                .map(|(_, id)| id)
                .collect();
            if let Some(j) = pick_kth(ids.len(), *k) {
                if file.remove_section_by_id(ids[j]).is_none() {
                    return Err("remove_section_by_id returned None for an existing id".into());
                }
            }
        }
    }
    Ok(())
}

/// comments per section (index aligned with `model`), frontmatter comments first.
fn comments_of(text: &[u8]) -> Result<(Vec<Vec<u8>>, Vec<Vec<Vec<u8>>>), String> {
    let ev = events(text)?;
    let mut front = Vec::new();
    let mut secs: Vec<Vec<Vec<u8>>> = Vec::new();
    for e in &ev {
        match e {
            Event::SectionHeader(_) => secs.push(Vec::new()),
            Event::Comment(c) => {
                let t = c.text.trim_end_with(|c| c == '\r').as_bytes().to_vec();
                match secs.last_mut() {
                    Some(s) => s.push(t),
                    None => front.push(t),
                }
            }
            _ => {}
        }
    }
    Ok((front, secs))
}

fn lower_keys(mut m: Vec<Sec>) -> Vec<Sec> {
    for s in &mut m {
        s.name.make_ascii_lowercase();
        for e in &mut s.entries {
            e.0.make_ascii_lowercase();
        }
    }
    m
}

/// Does `Set(name, sub, key)` address an entry written without `=` (implicit boolean)?
fn set_targets_implicit(text: &[u8], op: &Op) -> bool {
    let Op::Set(n, s, k, _) = op else { return false };
    let Ok(ev) = events(text) else { return false };
    // (section index, key, explicit) per entry
    let mut secs: Vec<(Vec<u8>, Option<Vec<u8>>, Vec<(Vec<u8>, bool)>)> = Vec::new();
    for e in &ev {
        match e {
            Event::SectionHeader(h) => secs.push((h.name().to_vec(), h.subsection_name().map(|s| s.to_vec()), Vec::new())),
            Event::SectionValueName(name) => {
                if let Some(sec) = secs.last_mut() {
                    sec.2.push((name.to_vec(), false))
                }
            }
            Event::KeyValueSeparator => {
                if let Some(e) = secs.last_mut().and_then(|s| s.2.last_mut()) {
                    e.1 = true
                }
            }
            _ => {}
        }
    }
    secs.iter()
        .rev()
        .find(|(name, sub, _)| name.eq_ignore_ascii_case(n.as_bytes()) && sub.as_deref() == s.as_deref().map(str::as_bytes))
        .and_then(|(_, _, entries)| entries.iter().rev().find(|(key, _)| keq(key, k)))
        .map_or(false, |(_, explicit)| !explicit)
}

struct Step {
    text: Vec<u8>,
    class: &'static str,
}

/// One validated transition. Err = violation message (`class: detail`).
fn step(text: &[u8], op: &Op) -> Result<Step, String> {
    step_inner(text, op).map_err(|m| {
        // known finding: `set` on an entry without `=` inserts the value without a separator
        if set_targets_implicit(text, op) && (m.starts_with("wrong-content:") || m.starts_with("unparseable:")) {
            format!("set-on-implicit-boolean: {}", m.split_once(": ").map_or(m.as_str(), |x| x.1))
        } else {
            m
        }
    })
}
fn step_inner(text: &[u8], op: &Op) -> Result<Step, String> {
    let before = load(text).map_err(|e| format!("reload: state {} does not load: {e}", show(text)))?;
    let mut expect = model(&before);
    let (front, per) = comments_of(text).map_err(|e| format!("reload: {e}"))?;
    // comments after the last section that belong to no section body are attributed to the last section by the parser; fine for us
    let mut comments: Vec<Option<Vec<Vec<u8>>>> = per.into_iter().map(Some).collect();
    let m0 = expect.clone();
    apply_model(&mut expect, &mut comments, op);
    let changed = expect != m0;
    let new = match vkit::catch(|| apply_real(text, op)) {
        Ok(Ok(t)) => t,
        Ok(Err(e)) => return Err(format!("api-error: {op:?} on {}: {e}", show(text))),
        Err(p) => return Err(format!("panic: {op:?} on {}: {p}", show(text))),
    };
    let new_ref: &[u8] = &new;
    let after = load(new_ref).map_err(|e| format!("unparseable: {op:?} on {} wrote {} which does not parse: {e}", show(text), show(&new)))?;
    let got = model(&after);
    drop(after);
    if lower_keys(got.clone()) != lower_keys(expect.clone()) {
        return Err(format!(
            "wrong-content: {op:?} on {} wrote {}; expected {} but gitoxide reads {}",
            show(text),
            show(&new),
            show_secs(&expect),
            show_secs(&got)
        ));
    }
    let (front2, per2) = comments_of(&new).map_err(|e| format!("unparseable: {e}"))?;
    if front2 != front {
        return Err(format!("comment-lost: {op:?} on {} wrote {}: comments before the first section changed", show(text), show(&new)));
    }
    for (i, want) in comments.iter().enumerate() {
        if let Some(want) = want {
            if per2.get(i) != Some(want) {
                return Err(format!(
                    "comment-lost: {op:?} on {} wrote {}: comments of section #{i} were {:?}, now {:?}",
                    show(text),
                    show(&new),
                    want.iter().map(|c| show(c)).collect::<Vec<_>>(),
                    per2.get(i).map(|v| v.iter().map(|c| show(c)).collect::<Vec<_>>())
                ));
            }
        }
    }
    let class = match (op, changed) {
        (_, false) => "no-op",
        (Op::Set(..), _) => "set",
        (Op::Push(..), _) => "push",
        (Op::RemoveValue(..), _) => "remove-value",
        (Op::SetAll(..), _) => "set-all",
        (Op::DeleteAll(..), _) => "delete-all",
        (Op::NewSection(..), _) => "new-section",
        (Op::RemoveSection(..), _) => "remove-section",
        (Op::Rename(..), _) => "rename-section",
        (Op::RemoveById(..), _) => "remove-section-by-id",
    };
    Ok(Step { text: new, class })
}

/// Several edits on ONE in-memory `File` (no reload in between), compared with the model applied step by step.
fn memory_eval(h: &History) -> vkit::Verdict {
    let files = initial_files();
    let Some(text) = files.get(h.file) else { vkit::machinery!("no such initial file") };
    let mut file = match load(text) {
        Ok(f) => f,
        Err(e) => vkit::machinery!("initial file does not load: {e}"),
    };
    let mut expect = model(&file);
    let (front, per) = match comments_of(text) {
        Ok(c) => c,
        Err(e) => vkit::machinery!("initial file: {e}"),
    };
    let mut comments: Vec<Option<Vec<Vec<u8>>>> = per.into_iter().map(Some).collect();
    let m0 = expect.clone();
    let desc = format!("{:?} applied in memory to {}", h.ops, show(text));
    for op in &h.ops {
        // the known finding `set-on-implicit-boolean` is reported by sub `history`; sequences running into it end here
        let now: Vec<u8> = file.to_bstring().into();
        if set_targets_implicit(&now, op) {
            return vkit::ok_trivial("memory/ends-at-known-finding");
        }
        apply_model(&mut expect, &mut comments, op);
        match vkit::catch(|| apply_real_on(&mut file, op)) {
            Ok(Ok(())) => {}
            Ok(Err(e)) => return vkit::bad("api-error", format!("{op:?} in {desc}: {e}")),
            Err(p) => return vkit::bad("panic", format!("{op:?} in {desc}: {p}")),
        }
    }
    let new: Vec<u8> = file.to_bstring().into();
    drop(file);
    let got = match load(&new) {
        Ok(f) => model(&f),
        Err(e) => return vkit::bad("unparseable", format!("{desc} wrote {} which does not parse: {e}", show(&new))),
    };
    if lower_keys(got.clone()) != lower_keys(expect.clone()) {
        return vkit::bad("wrong-content", format!("{desc} wrote {}; expected {} but gitoxide reads {}", show(&new), show_secs(&expect), show_secs(&got)));
    }
    let (front2, per2) = match comments_of(&new) {
        Ok(c) => c,
        Err(e) => return vkit::bad("unparseable", e),
    };
    if front2 != front {
        return vkit::bad("comment-lost", format!("{desc} wrote {}: comments before the first section changed", show(&new)));
    }
    for (i, want) in comments.iter().enumerate() {
        if let Some(want) = want {
            if per2.get(i) != Some(want) {
                return vkit::bad("comment-lost", format!("{desc} wrote {}: comments of section #{i} changed", show(&new)));
            }
        }
    }
    if expect == m0 {
        vkit::ok_trivial("memory/no-op")
    } else {
        vkit::ok(if h.ops.iter().any(|o| matches!(o, Op::RemoveById(..))) { "memory/with-remove-by-id" } else { "memory/sequence" })
    }
}

// ---- sub `values`: every value string through every value-writing API, read back by gitoxide and git ----
#[derive(Serialize, Deserialize, Hash, Clone, Debug)]
struct ValueCase {
    value: B,
}
const VALUE_BASE: &[u8] = b"[a]\n\tk = old\n\tm = one\n\tm = two\n\tv = old # c\n\tlast = keep\n";
/// (key, API that wrote it)
const VALUE_KEYS: [(&str, &str); 5] = [
    ("k", "SectionMut::set on an existing key (File::set_raw_value_by)"),
    ("n", "File::set_raw_value_by on a new key"),
    ("p", "SectionMut::push"),
    ("m", "MultiValueMut::set_all"),
    ("v", "ValueMut::set"),
];

/// Write `value` through 5 APIs into one file. Ok(text) after gitoxide's own re-read agreed.
fn values_write_and_reread(value: &[u8]) -> Result<Vec<u8>, String> {
    let v = value.as_bstr();
    let text = vkit::catch(|| -> Result<Vec<u8>, String> {
        let mut file = load(VALUE_BASE).map_err(|e| format!("base: {e}"))?;
        file.set_raw_value_by("a", None, "k".to_string(), v).map_err(|e| e.to_string())?;
        file.set_raw_value_by("a", None, "n".to_string(), v).map_err(|e| e.to_string())?;
        {
            let mut sec = file.section_mut("a", None).map_err(|e| e.to_string())?;
            let key = gix_config::parse::section::ValueName::try_from("p".to_string()).map_err(|e| e.to_string())?;
            sec.push(key, Some(v));
        }
        file.raw_values_mut_by("a", None, "m").map_err(|e| e.to_string())?.set_all(v);
        file.raw_value_mut_by("a", None, "v").map_err(|e| e.to_string())?.set(v);
        Ok(file.to_bstring().into())
    });
    let text = match text {
        Ok(Ok(t)) => t,
        Ok(Err(e)) => return Err(format!("api-error: setting {}: {e}", show(value))),
        Err(p) => return Err(format!("panic: setting {}: {p}", show(value))),
    };
    let file = load(&text).map_err(|e| format!("unparseable: setting {} wrote {} which does not parse: {e}", show(value), show(&text)))?;
    for (key, api) in VALUE_KEYS {
        let got: Vec<Vec<u8>> = file.raw_values_by("a", None, key).map(|v| v.into_iter().map(|c| c.to_vec()).collect()).unwrap_or_default();
        let want: Vec<&[u8]> = if key == "m" { vec![value, value] } else { vec![value] };
        if got.iter().map(|g| g.as_slice()).collect::<Vec<_>>() != want {
            return Err(format!(
                "value-changed: {api}: set a.{key} = {} wrote {}; gitoxide reads back {:?}",
                show(value),
                show(&text),
                got.iter().map(|g| show(g)).collect::<Vec<_>>()
            ));
        }
    }
    // the untouched neighbour and the comment survive
    if file.raw_values_by("a", None, "last").map(|v| v.into_iter().map(|c| c.to_vec()).collect::<Vec<_>>()).unwrap_or_default() != vec![b"keep".to_vec()] {
        return Err(format!("value-changed: setting {} wrote {}: untouched key a.last changed", show(value), show(&text)));
    }
    drop(file);
    Ok(text)
}

/// git's reading of the written file must give the value that was set for all 5 keys.
fn values_git_check(value: &[u8], text: &[u8], git: &Option<Flat>) -> Result<(), String> {
    let Some(git) = git else { return Err(format!("git-rejects: setting {} wrote {} which git config refuses", show(value), show(text))) };
    for (key, api) in VALUE_KEYS {
        let full = format!("a.{key}");
        let got: Vec<&[u8]> = git.iter().filter(|(k, _)| k == full.as_bytes()).map(|(_, v)| v.as_deref().unwrap_or(b"<implicit>")).collect();
        let want: Vec<&[u8]> = if key == "m" { vec![value, value] } else { vec![value] };
        if got != want {
            return Err(format!(
                "git-value-changed: {api}: set a.{key} = {} wrote {}; git config reads back {:?}",
                show(value),
                show(text),
                got.iter().map(|g| show(g)).collect::<Vec<_>>()
            ));
        }
    }
    Ok(())
}

fn values_sub(run: &'static Run) {
    let toks: [&[u8]; 9] = [b"a", b"#", b";", b" ", b"b", b"\"", b"\\", b"\t", b"\n"];
    let len = run.pick(4usize, 5);
    let written: std::sync::Mutex<Vec<(ValueCase, Vec<u8>)>> = Default::default();
    let dir = vkit::scratch::Dir::new("c28v");
    run.sub(
        "values",
        |emit| {
            // explicit realistic shapes first, then the whole token space
            for v in ["https://example.com/repo.git#main", "a;b", "trailing#", "x;", "# x", "a #b", "a#b", "a ;b", "x #", "#", ";"] {
                emit(ValueCase { value: B(v.as_bytes().to_vec()) });
            }
            vkit::enumerate::strings(&toks, 0, len, |s| emit(ValueCase { value: B(s.to_vec()) }));
        },
        |c: &ValueCase| -> vkit::Verdict {
            let text = match values_write_and_reread(&c.value) {
                Ok(t) => t,
                Err(m) => return Err(m),
            };
            if run.is_replay() {
                let g = git_lists(dir.path(), &[&text]);
                values_git_check(&c.value, &text, &g[0])?;
            } else {
                written.lock().unwrap().push((c.clone(), text));
            }
            let inner = c.value.windows(2).any(|w| !w[0].is_ascii_whitespace() && (w[1] == b'#' || w[1] == b';'));
            let any = c.value.iter().any(|b| *b == b'#' || *b == b';');
            vkit::ok(if inner {
                "values/comment-char-inside-or-after-word"
            } else if any {
                "values/comment-char-at-word-start"
            } else if c.value.iter().any(|b| b"\"\\\t\n".contains(b)) {
                "values/needs-escape"
            } else {
                "values/plain"
            })
        },
    );
    if run.is_replay() {
        return;
    }
    // git reads every written file (batched)
    let written = written.into_inner().unwrap();
    let chunks: Vec<&[(ValueCase, Vec<u8>)]> = written.chunks(64).collect();
    let next = std::sync::atomic::AtomicUsize::new(0);
    let calls = std::sync::atomic::AtomicU64::new(0);
    std::thread::scope(|sc| {
        for _ in 0..16 {
            sc.spawn(|| {
                let d = vkit::scratch::Dir::new("c28vb");
                loop {
                    let i = next.fetch_add(1, std::sync::atomic::Ordering::Relaxed);
                    let Some(chunk) = chunks.get(i) else { break };
                    let files: Vec<&Vec<u8>> = chunk.iter().map(|(_, t)| t).collect();
                    let lists = git_lists(d.path(), &files);
                    calls.fetch_add(1, std::sync::atomic::Ordering::Relaxed);
                    for ((case, text), g) in chunk.iter().zip(&lists) {
                        run.mc_validated(1);
                        match values_git_check(&case.value, text, g) {
                            Ok(()) => run.outcome("values/git-reads-what-was-set"),
                            Err(m) => run.violation("values", case, m),
                        }
                    }
                }
            });
        }
    });
    run.mc_transitions(written.len() as u64 * 5);
    run.cov("values_git_batch_calls", calls.load(std::sync::atomic::Ordering::Relaxed));
    run.cov("values_written_and_read_back", written.len());
    run.require("values with # or ; inside or at the end of a word were written", run.outcome_count("values/comment-char-inside-or-after-word") > 0);
    run.require("git read back written values", run.outcome_count("values/git-reads-what-was-set") > 0);
}

/// What gitoxide reads from `text`, in git's listing form.
fn gix_flat(text: &[u8]) -> Result<Flat, String> {
    Ok(flat_of_events(&events(text)?))
}

/// One git call for many states (include file + --show-origin). Returns per-file listings, None where git refused.
fn git_lists(dir: &std::path::Path, files: &[&Vec<u8>]) -> Vec<Option<Flat>> {
    let mut res: Vec<Option<Flat>> = vec![None; files.len()];
    let mut from = 0;
    while from < files.len() {
        let part = &files[from..];
        let mut master = b"[include]\n".to_vec();
        for (i, t) in part.iter().enumerate() {
            if let Err(e) = std::fs::write(dir.join(format!("c{i}")), t) {
                vkit::machinery!("write batch file: {e}");
            }
            master.extend_from_slice(format!("\tpath = c{i}\n").as_bytes());
        }
        if let Err(e) = std::fs::write(dir.join("master"), &master) {
            vkit::machinery!("write master: {e}");
        }
        let o = vkit::git::try_git(dir, &["config", "-f", "master", "--includes", "--show-origin", "-z", "--list"]);
        if o.code.is_none() {
            vkit::machinery!("git died: {}", o.err_text());
        }
        let failed = if o.ok {
            None
        } else {
            let e = o.err_text();
            match e.rsplit("in file c").next().and_then(|t| t.trim().parse::<usize>().ok()) {
                Some(j) if e.contains("bad config line") && j < part.len() => Some(j),
                _ => vkit::machinery!("git batch failed unexpectedly: {e}"),
            }
        };
        let upto = failed.unwrap_or(part.len());
        for r in res[from..from + upto].iter_mut() {
            *r = Some(Vec::new());
        }
        let mut toks = o.stdout.split(|b| *b == 0);
        while let Some(origin) = toks.next() {
            if origin.is_empty() {
                break;
            }
            let Some(rec) = toks.next() else { vkit::machinery!("odd batch output") };
            let name = origin.strip_prefix(b"file:").unwrap_or(origin);
            if name == b"master" {
                continue;
            }
            let idx: usize = std::str::from_utf8(&name[1..]).ok().and_then(|n| n.parse().ok()).unwrap_or_else(|| vkit::machinery!("origin {}", show(origin)));
            if idx < upto {
                res[from + idx].as_mut().expect("set").extend(parse_list_z(rec));
            }
        }
        match failed {
            Some(j) => from += j + 1,
            None => break,
        }
    }
    res
}

fn git_check(text: &[u8], git: &Option<Flat>) -> Result<(), String> {
    let ours = gix_flat(text).map_err(|e| format!("unparseable: {e}"))?;
    match git {
        None => Err(format!("git-rejects: git config refuses the written text {}", show(text))),
        Some(g) if *g != ours => Err(format!("git-differs: written text {}: git lists {:?}, gitoxide reads {:?}", show(text), g, ours)),
        Some(_) => Ok(()),
    }
}

pub fn run(run: &'static Run) {
    let depth = run.pick(2usize, 3);
    let mlen = run.pick(2usize, 3);
    let vlen = run.pick(4usize, 5);
    let files = initial_files();
    let ops = ops();
    run.rule(format!(
        "states = serialized config texts reachable from {} initial files (duplicate sections, comments, CRLF + continuation + implicit boolean, upper case + legacy header, header and key on one line + empty section, no final newline, empty file, continuation-line values with 1 and 2 continuations with/without trailing comment placed before other keys incl. a repeated key name, CRLF continuation before another key) by <= {depth} edits; \
         {} edits: set/push (values `1`, one needing quotes+escapes, and for set `u#v;w#` with comment characters inside/at the end of a word) / set-all / remove / delete-all of key k in a, a.b, c and of its neighbour j in a, c; new/remove section a, a.b, c; 4 renames; breadth-first with dedup on the text. \
         + remove_section_by_id of the first/middle/last section named a / a.b; \
         sub `values`: 11 realistic values + every string of <= {vlen} tokens over (a # ; SP b '\"' '\\' TAB LF) written through SectionMut::set (existing key), set_raw_value_by (new key), SectionMut::push, MultiValueMut::set_all and ValueMut::set into one file, serialized, then read back by gitoxide (raw_values_by) AND by `git config -f --list -z`: all must return exactly the value that was set, the neighbour key must keep its value; \
         sub `memory`: every sequence of 2..={mlen} of these edits applied to ONE in-memory File per initial file (no reload in between), result compared with the model applied step by step; \
         each transition: parse state -> one real API call -> to_bstring; validated against an ordered-list reference model (sections, keys, values), comment preservation per section, and `git config --list -z` on every distinct new state",
        files.len(),
        ops.len()
    ));
    run.assume("reference semantics: set/remove/rename/remove-section address the LAST section with that name (case-insensitive) and exact subsection, and the LAST matching key in it; push appends; set-all/delete-all address every matching entry; missing targets are no-ops; new_section always appends");
    run.assume("comments of a section from which a value was removed are not compared (a same-line comment may go with the value); every other comment must survive in its section, in order");
    run.assume("git 2.39.5 lists the written text (batched through an include file, --show-origin); it must equal gitoxide's own reading of that text, which in turn must equal the model");
    run.budget_secs(run.pick(36.0, 560.0));

    // ---- sub `values`: value alphabet through every value-writing API ----
    values_sub(run);

    // ---- sub `memory`: all sequences of edits on one in-memory File ----
    {
        let ops = &ops;
        let nfiles = files.len();
        run.sub_with(
            "memory",
            vkit::Opts::default().chunk(1 << 14),
            |emit| {
                for file in 0..nfiles {
                    vkit::enumerate::seqs(ops, 2, mlen, |seq| emit(History { file, ops: seq.to_vec() }));
                }
            },
            memory_eval,
        );
        run.mc_transitions(run.sub_evaluations("memory") * 2);
        run.mc_validated(run.sub_evaluations("memory"));
    }

    // replay: one history, step by step, git called per step
    if let Some(h) = run.replay_case::<History>("history") {
        let dir = vkit::scratch::Dir::new("c28r");
        let mut text = files.get(h.file).map(|f| f.to_vec()).unwrap_or_default();
        let mut msg = None;
        for op in &h.ops {
            match step(&text, op) {
                Ok(s) => {
                    let g = git_lists(dir.path(), &[&s.text]);
                    if let Err(m) = git_check(&s.text, &g[0]) {
                        msg = Some(m);
                        break;
                    }
                    text = s.text;
                }
                Err(m) => {
                    msg = Some(m);
                    break;
                }
            }
        }
        run.count("history", 1);
        match msg {
            Some(m) => {
                println!("replay history: VIOLATION {m}");
                run.violation("history", &h, m);
            }
            None => println!("replay history: pass"),
        }
        return;
    }
    if run.is_replay() {
        return;
    }

    let dir = vkit::scratch::Dir::new("c28");
    let mut seen: HashSet<Vec<u8>> = HashSet::new();
    let mut frontier: Vec<(Vec<u8>, History)> = Vec::new();
    for (i, f) in files.iter().enumerate() {
        run.require("initial file parses", load(f).is_ok());
        if seen.insert(f.to_vec()) {
            run.mc_state(vkit::hash_of(&f.to_vec()));
            frontier.push((f.to_vec(), History { file: i, ops: vec![] }));
        }
    }
    let mut max_depth = 0;
    let mut git_calls = 0u64;
    let mut sampled: HashSet<&'static str> = HashSet::new();
    'bfs: for d in 1..=depth {
        let mut next: Vec<(Vec<u8>, History)> = Vec::new();
        let mut fresh: HashMap<Vec<u8>, History> = HashMap::new();
        for (text, hist) in &frontier {
            for op in &ops {
                if run.over_budget() {
                    run.cap_hit(format!("time budget reached at depth {d}"));
                    break 'bfs;
                }
                let mut h = hist.clone();
                h.ops.push(op.clone());
                run.count("history", 1);
                run.mc_transitions(1);
                match step(text, op) {
                    Ok(s) => {
                        run.mc_validated(1);
                        run.outcome(s.class);
                        if s.class != "no-op" {
                            run.nontrivial("history", vkit::hash_of(&h));
                        }
                        if sampled.insert(s.class) {
                            run.sample(serde_json::json!({"sub": "history", "outcome": s.class, "case": &h, "result": show(&s.text)}));
                        }
                        if seen.insert(s.text.clone()) {
                            run.mc_state(vkit::hash_of(&s.text));
                            fresh.insert(s.text.clone(), h.clone());
                            next.push((s.text, h));
                        }
                    }
                    Err(m) => run.violation("history", &h, m),
                }
            }
        }
        // git reads every distinct new state
        let states: Vec<&Vec<u8>> = fresh.keys().collect();
        let chunks: Vec<(usize, &[&Vec<u8>])> = states.chunks(64).enumerate().collect();
        let chunks = &chunks;
        let nextc = std::sync::atomic::AtomicUsize::new(0);
        let nextc = &nextc;
        let results: Vec<(usize, Vec<Option<Flat>>)> = std::thread::scope(|sc| {
            let hs: Vec<_> = (0..16)
                .map(|_| {
                    sc.spawn(move || {
                        let d = vkit::scratch::Dir::new("c28b");
                        let mut out = Vec::new();
                        loop {
                            let i = nextc.fetch_add(1, std::sync::atomic::Ordering::Relaxed);
                            let Some((ci, c)) = chunks.get(i) else { break };
                            out.push((*ci, git_lists(d.path(), c)));
                        }
                        out
                    })
                })
                .collect();
            hs.into_iter().flat_map(|h| h.join().expect("git worker")).collect()
        });
        let _ = &dir;
        for (ci, lists) in results {
            git_calls += 1;
            for (j, g) in lists.iter().enumerate() {
                let text = states[ci * 64 + j];
                run.mc_validated(1);
                if let Err(m) = git_check(text, g) {
                    run.violation("history", &fresh[text], m);
                } else {
                    run.outcome("git-agrees");
                }
            }
        }
        max_depth = d;
        frontier = next;
        if frontier.is_empty() {
            break;
        }
    }
    run.cov("max_depth", max_depth);
    run.cov("oracle_calls_git", git_calls);
    run.cov("edits", ops.len());
    run.cov("deadlocks", 0);
    for c in ["set", "push", "remove-value", "set-all", "delete-all", "new-section", "remove-section", "remove-section-by-id", "rename-section", "no-op", "git-agrees", "memory/sequence", "memory/with-remove-by-id"] {
        run.require(&format!("outcome {c} reached"), run.outcome_count(c) > 0);
    }
}
