mod c26;
mod c27;
mod c28;
mod common;
use vkit::{Check, Level};
fn main() {
    let checks: &[Check] = &[
        Check { id: "C26", level: Level::Exploration, run: c26::run },
        Check { id: "C27", level: Level::Exploration, run: c27::run },
        Check { id: "C28", level: Level::ModelChecking, run: c28::run },
    ];
    vkit::main(checks);
}
