mod c26;
mod common;
use vkit::{Check, Level};
fn main() {
    let checks: &[Check] = &[Check { id: "C26", level: Level::Exploration, run: c26::run }];
    vkit::main(checks);
}
