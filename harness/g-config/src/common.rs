//! Helpers shared by C26/C27/C28: semantic model of a config text as read by gitoxide, and as listed by git.
use bstr::ByteSlice;
use gix_config::{
    file::{init::Options, Metadata},
    parse::{self, Event},
    File,
};
use std::path::Path;

/// One section as gitoxide sees it: exact header name, optional subsection, ordered (key, normalized value) entries.
#[derive(Clone, PartialEq, Eq, Debug, Hash)]
pub struct Sec {
    pub name: Vec<u8>,
    pub sub: Option<Vec<u8>>,
    pub entries: Vec<(Vec<u8>, Vec<u8>)>,
}

pub fn show(b: &[u8]) -> String {
    format!("{:?}", b.as_bstr())
}

pub fn show_secs(s: &[Sec]) -> String {
    let mut out = String::new();
    for sec in s {
        out.push_str(&format!("[{} {:?}]", show(&sec.name), sec.sub.as_ref().map(|s| show(s))));
        for (k, v) in &sec.entries {
            out.push_str(&format!(" {}={}", show(k), show(v)));
        }
        out.push(';');
    }
    out
}

/// All events of `input` in order (headers included), or the parse error text.
pub fn events(input: &[u8]) -> Result<Vec<Event<'_>>, String> {
    let mut out = Vec::new();
    parse::from_bytes(input, &mut |e| out.push(e)).map_err(|e| e.to_string())?;
    Ok(out)
}

pub fn concat(ev: &[Event<'_>]) -> Vec<u8> {
    let mut out = Vec::new();
    for e in ev {
        e.write_to(&mut out).expect("write to vec");
    }
    out
}

pub fn load(input: &[u8]) -> Result<File<'_>, String> {
    File::from_bytes_no_includes(input, Metadata::api(), Options::default()).map_err(|e| e.to_string())
}

/// The ordered semantic content of a loaded file (public API only).
pub fn model(file: &File<'_>) -> Vec<Sec> {
    file.sections()
        .map(|s| Sec {
            name: s.header().name().to_vec(),
            sub: s.header().subsection_name().map(|n| n.to_vec()),
            entries: s.body().clone().into_iter().map(|(k, v)| (k.to_vec(), v.to_vec())).collect(),
        })
        .collect()
}

/// Flat `(canonical key, value)` list in file order the way `git config --list -z` prints it:
/// section lower-cased, subsection verbatim, variable lower-cased; value `None` for an implicit boolean.
pub fn flat_of_events(ev: &[Event<'_>]) -> Vec<(Vec<u8>, Option<Vec<u8>>)> {
    let mut out = Vec::new();
    let mut prefix: Vec<u8> = Vec::new();
    let mut key: Option<Vec<u8>> = None;
    let mut explicit = false;
    let mut partial: Vec<u8> = Vec::new();
    for e in ev {
        match e {
            Event::SectionHeader(h) => {
                prefix = h.name().to_ascii_lowercase();
                if let Some(sub) = h.subsection_name() {
                    prefix.push(b'.');
                    if h.is_legacy() {
                        prefix.extend_from_slice(&sub.to_ascii_lowercase());
                    } else {
                        prefix.extend_from_slice(sub);
                    }
                }
                prefix.push(b'.');
            }
            Event::SectionValueName(k) => {
                let mut full = prefix.clone();
                full.extend_from_slice(&k.to_ascii_lowercase());
                key = Some(full);
                explicit = false;
                partial.clear();
            }
            Event::KeyValueSeparator => explicit = true,
            Event::Value(v) => {
                if let Some(k) = key.take() {
                    out.push((k, explicit.then(|| gix_config::value::normalize_bstr(v.as_ref()).to_vec())));
                }
            }
            Event::ValueNotDone(v) => partial.extend_from_slice(v),
            Event::ValueDone(v) => {
                partial.extend_from_slice(v);
                if let Some(k) = key.take() {
                    out.push((k, Some(gix_config::value::normalize_bstring(std::mem::take(&mut partial)).to_vec())));
                }
            }
            _ => {}
        }
    }
    out
}

/// `git config -f <file> --list -z`: `key LF value NUL` per entry, `key NUL` for an implicit boolean.
/// Returns None if git rejects the file.
pub fn git_list(dir: &Path, file: &Path) -> Option<Vec<(Vec<u8>, Option<Vec<u8>>)>> {
    let out = vkit::git::try_git(dir, &[std::ffi::OsStr::new("config"), "-f".as_ref(), file.as_os_str(), "--list".as_ref(), "-z".as_ref()]);
    if !out.ok {
        if out.code.is_none() {
            vkit::machinery!("git config --list died: {}", out.err_text());
        }
        return None;
    }
    Some(parse_list_z(&out.stdout))
}

pub fn parse_list_z(stdout: &[u8]) -> Vec<(Vec<u8>, Option<Vec<u8>>)> {
    let mut res = Vec::new();
    let mut rest = stdout;
    while !rest.is_empty() {
        let end = rest.iter().position(|b| *b == 0).unwrap_or(rest.len());
        let rec = &rest[..end];
        match rec.iter().position(|b| *b == b'\n') {
            Some(p) => res.push((rec[..p].to_vec(), Some(rec[p + 1..].to_vec()))),
            None => res.push((rec.to_vec(), None)),
        }
        rest = &rest[(end + 1).min(rest.len())..];
    }
    res
}
