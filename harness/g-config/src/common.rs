//! Helpers shared by C26/C27/C28: semantic model of a config text as read by gitoxide, and as listed by git.
use bstr::ByteSlice;
use gix_config::{
    file::{init::Options, Metadata},
    parse::{self, Event},
    File,
};
use std::path::Path;

/// One section as gitoxide sees it: exact header name, optional subsection, ordered (key, normalized value) entries.
#[derive(Clone, PartialEq, Eq, Debug, Hash)]
pub struct Sec {
    pub name: Vec<u8>,
    pub sub: Option<Vec<u8>>,
    pub entries: Vec<(Vec<u8>, Vec<u8>)>,
}

pub fn show(b: &[u8]) -> String {
    format!("{:?}", b.as_bstr())
}

pub fn show_secs(s: &[Sec]) -> String {
    let mut out = String::new();
    for sec in s {
        out.push_str(&format!("[{} {:?}]", show(&sec.name), sec.sub.as_ref().map(|s| show(s))));
        for (k, v) in &sec.entries {
            out.push_str(&format!(" {}={}", show(k), show(v)));
        }
        out.push(';');
    }
    out
}

/// All events of `input` in order (headers included), or the parse error text.
pub fn events(input: &[u8]) -> Result<Vec<Event<'_>>, String> {
    let mut out = Vec::new();
    parse::from_bytes(input, &mut |e| out.push(e)).map_err(|e| e.to_string())?;
    Ok(out)
}

pub fn concat(ev: &[Event<'_>]) -> Vec<u8> {
    let mut out = Vec::new();
    for e in ev {
        e.write_to(&mut out).expect("write to vec");
    }
    out
}

pub fn load(input: &[u8]) -> Result<File<'_>, String> {
    File::from_bytes_no_includes(input, Metadata::api(), Options::default()).map_err(|e| e.to_string())
}

/// The ordered semantic content of a loaded file (public API only).
pub fn model(file: &File<'_>) -> Vec<Sec> {
    file.sections()
        .map(|s| Sec {
            name: s.header().name().to_vec(),
            sub: s.header().subsection_name().map(|n| n.to_vec()),
            entries: s.body().clone().into_iter().map(|(k, v)| (k.to_vec(), v.to_vec())).collect(),
        })
        .collect()
}

/// Flat `(canonical key, value)` list in file order the way `git config --list -z` prints it:
/// section lower-cased, subsection verbatim, variable lower-cased; value `None` for an implicit boolean.
pub fn flat_of_events(ev: &[Event<'_>]) -> Vec<(Vec<u8>, Option<Vec<u8>>)> {
    let mut out = Vec::new();
    let mut prefix: Vec<u8> = Vec::new();
    let mut key: Option<Vec<u8>> = None;
    let mut explicit = false;
    let mut partial: Vec<u8> = Vec::new();
    for e in ev {
        match e {
            Event::SectionHeader(h) => {
                prefix = h.name().to_ascii_lowercase();
                if let Some(sub) = h.subsection_name() {
                    prefix.push(b'.');
                    if h.is_legacy() {
                        prefix.extend_from_slice(&sub.to_ascii_lowercase());
                    } else {
                        prefix.extend_from_slice(sub);
                    }
                }
                prefix.push(b'.');
            }
            Event::SectionValueName(k) => {
                let mut full = prefix.clone();
                full.extend_from_slice(&k.to_ascii_lowercase());
                key = Some(full);
                explicit = false;
                partial.clear();
            }
            Event::KeyValueSeparator => explicit = true,
            Event::Value(v) => {
                if let Some(k) = key.take() {
                    out.push((k, explicit.then(|| gix_config::value::normalize_bstr(v.as_ref()).to_vec())));
                }
            }
            Event::ValueNotDone(v) => partial.extend_from_slice(v),
            Event::ValueDone(v) => {
                partial.extend_from_slice(v);
                if let Some(k) = key.take() {
                    out.push((k, Some(gix_config::value::normalize_bstring(std::mem::take(&mut partial)).to_vec())));
                }
            }
            _ => {}
        }
    }
    out
}

/// `git config -f <file> --list -z`: `key LF value NUL` per entry, `key NUL` for an implicit boolean.
/// Returns None if git rejects the file.
pub fn git_list(dir: &Path, file: &Path) -> Option<Vec<(Vec<u8>, Option<Vec<u8>>)>> {
    let out = vkit::git::try_git(dir, &[std::ffi::OsStr::new("config"), "-f".as_ref(), file.as_os_str(), "--list".as_ref(), "-z".as_ref()]);
    if !out.ok {
        if out.code.is_none() {
            vkit::machinery!("git config --list died: {}", out.err_text());
        }
        return None;
    }
    Some(parse_list_z(&out.stdout))
}

pub fn parse_list_z(stdout: &[u8]) -> Vec<(Vec<u8>, Option<Vec<u8>>)> {
    let mut res = Vec::new();
    let mut rest = stdout;
    while !rest.is_empty() {
        let end = rest.iter().position(|b| *b == 0).unwrap_or(rest.len());
        let rec = &rest[..end];
        match rec.iter().position(|b| *b == b'\n') {
            Some(p) => res.push((rec[..p].to_vec(), Some(rec[p + 1..].to_vec()))),
            None => res.push((rec.to_vec(), None)),
        }
        rest = &rest[(end + 1).min(rest.len())..];
    }
    res
}

// ---------------------------------------------------------------------------------------------------------------------
// Transcription of git 2.39 config.c (git_parse_source/get_base_var/get_extended_base_var/get_value/parse_value).
// Used only as a *pre-filter and batching aid*: every answer that decides a verdict is confirmed by the git binary.
// ---------------------------------------------------------------------------------------------------------------------
struct Src<'a> {
    b: &'a [u8],
    at: usize,
    eof: bool,
}
impl Src<'_> {
    fn fgetc(&mut self) -> Option<u8> {
        let c = self.b.get(self.at).copied();
        if c.is_some() {
            self.at += 1;
        }
        c
    }
    fn next(&mut self) -> u8 {
        let mut c = self.fgetc();
        if c == Some(b'\r') {
            c = self.fgetc();
            if c != Some(b'\n') {
                if c.is_some() {
                    self.at -= 1;
                }
                c = Some(b'\r');
            }
        }
        match c {
            Some(c) => c,
            None => {
                self.eof = true;
                b'\n'
            }
        }
    }
}
fn git_isspace(c: u8) -> bool {
    matches!(c, b' ' | b'\t' | b'\n' | b'\r')
}
fn iskeychar(c: u8) -> bool {
    c.is_ascii_alphanumeric() || c == b'-'
}

fn parse_value(s: &mut Src<'_>) -> Option<Vec<u8>> {
    let (mut quote, mut comment, mut space) = (false, false, 0usize);
    let mut v = Vec::new();
    loop {
        let mut c = s.next();
        if c == b'\n' {
            return if quote { None } else { Some(v) };
        }
        if comment {
            continue;
        }
        if git_isspace(c) && !quote {
            if !v.is_empty() {
                space += 1;
            }
            continue;
        }
        if !quote && (c == b';' || c == b'#') {
            comment = true;
            continue;
        }
        while space > 0 {
            v.push(b' ');
            space -= 1;
        }
        if c == b'\\' {
            c = s.next();
            match c {
                b'\n' => continue,
                b't' => c = b'\t',
                b'b' => c = 8,
                b'n' => c = b'\n',
                b'\\' | b'"' => {}
                _ => return None,
            }
            v.push(c);
            continue;
        }
        if c == b'"' {
            quote = !quote;
            continue;
        }
        v.push(c);
    }
}

/// What `git config -f F --list` would print for `text`, or None if git refuses the file.
pub fn git_transcription(text: &[u8]) -> Option<Vec<(Vec<u8>, Option<Vec<u8>>)>> {
    let mut s = Src { b: text, at: 0, eof: false };
    let mut out = Vec::new();
    let mut var: Vec<u8> = Vec::new();
    let mut baselen = 0usize;
    let mut comment = false;
    const BOM: &[u8] = b"\xef\xbb\xbf";
    let mut bom: Option<usize> = Some(0);
    loop {
        let c = s.next();
        if let Some(i) = bom {
            if i < BOM.len() {
                if c == BOM[i] && !s.eof {
                    bom = Some(i + 1);
                    continue;
                } else if i != 0 {
                    return None;
                } else {
                    bom = None;
                }
            }
        }
        if c == b'\n' {
            if s.eof {
                return Some(out);
            }
            comment = false;
            continue;
        }
        if comment || git_isspace(c) {
            continue;
        }
        if c == b'#' || c == b';' {
            comment = true;
            continue;
        }
        if c == b'[' {
            var.clear();
            // get_base_var
            let ok = loop {
                let c = s.next();
                if s.eof {
                    break false;
                }
                if c == b']' {
                    break true;
                }
                if git_isspace(c) {
                    // get_extended_base_var
                    let mut c = c;
                    let mut fail = false;
                    loop {
                        if c == b'\n' {
                            fail = true;
                            break;
                        }
                        c = s.next();
                        if !git_isspace(c) {
                            break;
                        }
                    }
                    if fail || c != b'"' {
                        break false;
                    }
                    var.push(b'.');
                    let mut bad = false;
                    loop {
                        let mut c = s.next();
                        if c == b'\n' {
                            bad = true;
                            break;
                        }
                        if c == b'"' {
                            break;
                        }
                        if c == b'\\' {
                            c = s.next();
                            if c == b'\n' {
                                bad = true;
                                break;
                            }
                        }
                        var.push(c);
                    }
                    if bad {
                        break false;
                    }
                    break s.next() == b']';
                }
                if !iskeychar(c) && c != b'.' {
                    break false;
                }
                var.push(c.to_ascii_lowercase());
            };
            if !ok || var.is_empty() {
                return None;
            }
            var.push(b'.');
            baselen = var.len();
            continue;
        }
        if !c.is_ascii_alphabetic() {
            return None;
        }
        var.truncate(baselen);
        var.push(c.to_ascii_lowercase());
        // get_value
        let mut c;
        loop {
            c = s.next();
            if s.eof || !iskeychar(c) {
                break;
            }
            var.push(c.to_ascii_lowercase());
        }
        while c == b' ' || c == b'\t' {
            c = s.next();
        }
        let mut value = None;
        if c != b'\n' {
            if c != b'=' {
                return None;
            }
            value = Some(parse_value(&mut s)?);
        }
        out.push((var.clone(), value));
    }
}
