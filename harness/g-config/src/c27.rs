//! C27 — config values are interpreted like git (E1: bounded-exhaustive texts, `git config` as filter and oracle).
use crate::common::{events, flat_of_events, git_list, load, show};
use bstr::{BStr, ByteSlice};
use serde::{Deserialize, Serialize};
use crate::common::git_transcription;
use std::collections::{HashMap, HashSet};
use std::path::PathBuf;
use std::sync::atomic::{AtomicU64, AtomicUsize, Ordering};
use std::sync::{Mutex, OnceLock};
use std::time::{Duration, Instant};
use vkit::{bad, enumerate, ok, ok_trivial, Run, Verdict, B};

#[derive(Serialize, Deserialize, Hash, Clone, Debug)]
struct Text {
    text: B,
}

type Flat = Vec<(Vec<u8>, Option<Vec<u8>>)>;

static GIT_CALLS: AtomicU64 = AtomicU64::new(0);
static CASE_VARIANT_QUERIES: AtomicU64 = AtomicU64::new(0);
static MULTI_TYPED: AtomicU64 = AtomicU64::new(0);

thread_local! {
    static SCRATCH: (vkit::scratch::Dir, PathBuf) = {
        let d = vkit::scratch::Dir::new("c27");
        let f = d.join("cfg");
        (d, f)
    };
}

fn with_file<T>(text: &[u8], f: impl FnOnce(&std::path::Path, &std::path::Path) -> T) -> T {
    SCRATCH.with(|(d, p)| {
        if let Err(e) = std::fs::write(p, text) {
            vkit::machinery!("cannot write scratch config: {e}");
        }
        f(d.path(), p)
    })
}

/// git's view of the file: None if `git config -f` refuses it.
fn git_view(text: &[u8]) -> Option<Flat> {
    GIT_CALLS.fetch_add(1, Ordering::Relaxed);
    with_file(text, |d, p| git_list(d, p))
}

/// Answers of the git binary, obtained in batches before the cases are evaluated.
#[derive(Default)]
struct Oracle {
    /// text -> what git lists (None = git refuses the file)
    map: HashMap<Vec<u8>, Option<Flat>>,
    /// texts the transcription predicts git refuses, not confirmed with the binary within the budget
    unverified_rejects: HashSet<Vec<u8>>,
}
static ORACLE: OnceLock<Mutex<Oracle>> = OnceLock::new();
static BATCH_CALLS: AtomicU64 = AtomicU64::new(0);
static TRANSCRIPTION_MISMATCH: AtomicU64 = AtomicU64::new(0);

/// One `git config -f master --includes --show-origin -z --list` over `files` (each included in order).
/// Returns the per-file listing for every file git read completely, and the index of the file git refused (if any).
fn git_batch(dir: &std::path::Path, files: &[&Vec<u8>]) -> (Vec<Flat>, Option<usize>) {
    let mut master = b"[include]\n".to_vec();
    for (i, t) in files.iter().enumerate() {
        if let Err(e) = std::fs::write(dir.join(format!("c{i}")), t) {
            vkit::machinery!("write batch file: {e}");
        }
        master.extend_from_slice(format!("\tpath = c{i}\n").as_bytes());
    }
    if let Err(e) = std::fs::write(dir.join("master"), &master) {
        vkit::machinery!("write batch master: {e}");
    }
    BATCH_CALLS.fetch_add(1, Ordering::Relaxed);
    GIT_CALLS.fetch_add(1, Ordering::Relaxed);
    let o = vkit::git::try_git(dir, &["config", "-f", "master", "--includes", "--show-origin", "-z", "--list"]);
    if o.code.is_none() {
        vkit::machinery!("git config batch died: {}", o.err_text());
    }
    let mut failed = None;
    if !o.ok {
        // fatal: bad config line N in file cJ
        let e = o.err_text();
        let j = e.rsplit("in file c").next().and_then(|t| t.trim().parse::<usize>().ok());
        match j {
            Some(j) if e.contains("bad config line") && j < files.len() => failed = Some(j),
            _ => vkit::machinery!("git config batch failed unexpectedly: {e}"),
        }
    }
    let mut per: Vec<Flat> = vec![Vec::new(); files.len()];
    let mut toks = o.stdout.split(|b| *b == 0);
    loop {
        let Some(origin) = toks.next() else { break };
        if origin.is_empty() {
            break;
        }
        let Some(rec) = toks.next() else { vkit::machinery!("odd batch output") };
        let Some(name) = origin.strip_prefix(b"file:") else { vkit::machinery!("unexpected origin {}", show(origin)) };
        if name == b"master" {
            continue;
        }
        let idx = std::str::from_utf8(&name[1..]).ok().and_then(|n| n.parse::<usize>().ok()).unwrap_or_else(|| vkit::machinery!("unexpected origin {}", show(origin)));
        per[idx].push(match rec.iter().position(|b| *b == b'\n') {
            Some(p) => (rec[..p].to_vec(), Some(rec[p + 1..].to_vec())),
            None => (rec.to_vec(), None),
        });
    }
    (per, failed)
}

/// Ask git about all `texts` (deduplicated), in parallel batches; predicted rejects are confirmed one call each until `reject_budget`.
fn build_oracle(texts: &[Vec<u8>], reject_budget: Duration) {
    let o = ORACLE.get_or_init(Default::default);
    let mut uniq: Vec<&Vec<u8>> = Vec::new();
    {
        let g = o.lock().unwrap();
        let mut seen = HashSet::new();
        for t in texts {
            if !g.map.contains_key(t) && seen.insert(t) {
                uniq.push(t);
            }
        }
    }
    let (acc, rej): (Vec<&Vec<u8>>, Vec<&Vec<u8>>) = uniq.iter().partition(|t| git_transcription(t).is_some());
    const N: usize = 96;
    let batches: Vec<&[&Vec<u8>]> = acc.chunks(N).collect();
    let next = AtomicUsize::new(0);
    let rnext = AtomicUsize::new(0);
    let start = Instant::now();
    std::thread::scope(|sc| {
        for _ in 0..16 {
            sc.spawn(|| {
                let dir = vkit::scratch::Dir::new("c27b");
                let mut local: Vec<(Vec<u8>, Option<Flat>)> = Vec::new();
                let mut check = |t: &Vec<u8>, got: Option<Flat>| {
                    if got != git_transcription(t) {
                        if TRANSCRIPTION_MISMATCH.fetch_add(1, Ordering::Relaxed) < 5 {
                            eprintln!("note: transcription differs from git on {}: git {:?}", show(t), got.as_ref().map(show_flat));
                        }
                    }
                    local.push((t.clone(), got));
                };
                loop {
                    let b = next.fetch_add(1, Ordering::Relaxed);
                    if b >= batches.len() {
                        break;
                    }
                    // piggy-back one predicted reject at the end of each batch: git must stop exactly there
                    let mut files: Vec<&Vec<u8>> = batches[b].to_vec();
                    let r = rnext.fetch_add(1, Ordering::Relaxed);
                    if let Some(t) = rej.get(r) {
                        files.push(t);
                    }
                    let mut from = 0;
                    while from < files.len() {
                        let (per, failed) = git_batch(dir.path(), &files[from..]);
                        let upto = failed.unwrap_or(files.len() - from);
                        for (i, flat) in per.into_iter().enumerate().take(upto) {
                            check(files[from + i], Some(flat));
                        }
                        match failed {
                            Some(j) => {
                                check(files[from + j], None);
                                from += j + 1;
                            }
                            None => break,
                        }
                    }
                }
                // remaining predicted rejects: one call each while the budget lasts
                loop {
                    if start.elapsed() > reject_budget {
                        break;
                    }
                    let r = rnext.fetch_add(1, Ordering::Relaxed);
                    let Some(t) = rej.get(r) else { break };
                    let (per, failed) = git_batch(dir.path(), &[t]);
                    check(t, if failed.is_some() { None } else { per.into_iter().next() });
                }
                let mut g = o.lock().unwrap();
                for (t, v) in local {
                    g.map.insert(t, v);
                }
            });
        }
    });
    let mut g = o.lock().unwrap();
    for t in rej {
        if !g.map.contains_key(t) {
            g.unverified_rejects.insert(t.clone());
        }
    }
}

/// Split a canonical key as printed by git into (section, subsection, variable).
fn split_key(k: &[u8]) -> Option<(&[u8], Option<&[u8]>, &[u8])> {
    let first = k.find_byte(b'.')?;
    let last = k.rfind_byte(b'.')?;
    Some((&k[..first], (first != last).then(|| &k[first + 1..last]), &k[last + 1..]))
}

/// git's boolean interpretation of a value (`None` value = implicit boolean). Validated against `git config --type=bool` in sub `typed`.
pub fn ref_bool(v: Option<&[u8]>) -> Option<bool> {
    let Some(v) = v else { return Some(true) };
    let l = v.to_ascii_lowercase();
    match l.as_slice() {
        b"true" | b"yes" | b"on" => Some(true),
        b"false" | b"no" | b"off" | b"" => Some(false),
        _ => {
            let i = ref_int(Some(v))?;
            // git_parse_int: |value| <= INT_MAX
            (i.unsigned_abs() <= i32::MAX as u64).then_some(i != 0)
        }
    }
}

/// git's int64 interpretation for decimal notation: optional sign, digits, optional k/m/g (either case).
pub fn ref_int(v: Option<&[u8]>) -> Option<i64> {
    let v = std::str::from_utf8(v?).ok()?;
    if v.is_empty() {
        return None;
    }
    let (num, factor) = match v.as_bytes()[v.len() - 1].to_ascii_lowercase() {
        b'k' => (&v[..v.len() - 1], 1024i64),
        b'm' => (&v[..v.len() - 1], 1024 * 1024),
        b'g' => (&v[..v.len() - 1], 1024 * 1024 * 1024),
        _ => (v, 1),
    };
    // strtoimax: optional leading whitespace, optional sign, at least one digit, nothing else
    let t = num.trim_start_matches([' ', '\t', '\n', '\r', '\x0b', '\x0c']);
    let digits = t.strip_prefix(['+', '-']).unwrap_or(t);
    if digits.is_empty() || !digits.bytes().all(|b| b.is_ascii_digit()) {
        return None;
    }
    let n: i128 = t.parse().ok()?;
    // git_parse_signed: |value * factor| <= INT64_MAX (so INT64_MIN itself is out of range)
    let n = i64::try_from(n).ok()?;
    n.checked_mul(factor).filter(|v| *v != i64::MIN)
}

/// `bool-range` = a number git refuses as boolean only because it does not fit its 32 bit `int`
fn bool_class(v: Option<&[u8]>) -> &'static str {
    let plain = v.and_then(|v| std::str::from_utf8(v).ok()).and_then(|v| v.parse::<i64>().ok());
    let suffixed = v.and_then(|v| gix_config_value::Integer::try_from(v.as_bstr()).ok()).and_then(|i| i.to_decimal());
    match plain.or(suffixed).or_else(|| ref_int(v)) {
        Some(i) if i.unsigned_abs() > i32::MAX as u64 => "bool-range",
        _ => "bool",
    }
}

fn as_str(b: &[u8]) -> Option<&str> {
    std::str::from_utf8(b).ok()
}

/// Compare gitoxide's reading of `text` with git's listing `git`.
fn compare(text: &[u8], git: &Flat) -> Verdict {
    // documented: "Global properties may be allowed in .ini parsers, but is strictly disallowed by this parser" (parse::Events docs)
    if git.iter().any(|(k, _)| !k.contains(&b'.')) {
        return ok_trivial("documented-deviation/key-outside-section");
    }
    // a section name that is empty (`[.]`, `[.a]`, `[ "x"]`) is tolerated by git by accident; outside the compared domain
    if git.iter().any(|(k, _)| k.starts_with(b".") || k.find(b"..").is_some()) {
        return ok_trivial("outside-domain/empty-section-or-subsection-part");
    }
    if text.find(b"[.").is_some() || text.find(b"[]").is_some() || text.find(b"[ ").is_some() {
        return ok_trivial("outside-domain/empty-section-or-subsection-part");
    }
    // gitoxide must be able to read what git reads
    let ev = match events(text) {
        Ok(ev) => ev,
        Err(e) => return bad("rejected-by-gitoxide", format!("git accepts {} ({} entries) but gitoxide does not parse it: {e}", show(text), git.len())),
    };
    // (A) ordered entries: keys and unquoted/unescaped values
    let ours = flat_of_events(&ev);
    if &ours != git {
        // git >= 2.45 keeps whitespace inside an unquoted value verbatim (as gitoxide does); the 2.39 oracle turns each such TAB into SP
        let detab = |f: &Flat| -> Flat { f.iter().map(|(k, v)| (k.clone(), v.as_ref().map(|v| v.iter().map(|b| if *b == b'\t' { b' ' } else { *b }).collect()))).collect() };
        if text.contains(&b'\t') && detab(&ours) == detab(git) {
            return ok_trivial("oracle-version/unquoted-internal-tab");
        }
        // known finding: git drops whitespace as long as the value is still empty, also after a continuation (`k =\<LF> v`) or an empty quote pair (`k ="" v`)
        let trim = |f: &Flat| -> Flat { f.iter().map(|(k, v)| (k.clone(), v.as_ref().map(|v| v.trim_start().to_vec()))).collect() };
        if trim(&ours) == trim(git) {
            return bad("values-continuation-leading-whitespace", format!("{}: git lists {} but gitoxide reads {}", show(text), show_flat(git), show_flat(&ours)));
        }
        return bad("values", format!("{}: git lists {} but gitoxide reads {}", show(text), show_flat(git), show_flat(&ours)));
    }
    if git.is_empty() {
        return ok_trivial("no-values");
    }
    // documented (lib.rs, "Known differences"): legacy `[section.Sub]` headers keep their case instead of being lower-cased
    let legacy_upper = ev.iter().any(|e| matches!(e, gix_config::parse::Event::SectionHeader(h) if h.is_legacy() && h.subsection_name().map_or(false, |s| s.iter().any(u8::is_ascii_uppercase))));
    if legacy_upper {
        return ok_trivial("documented-deviation/legacy-subsection-case");
    }
    // (B) lookups through the File API, per distinct key
    let file = match load(text) {
        Ok(f) => f,
        Err(e) => return bad("rejected-by-gitoxide", format!("File rejects {}: {e}", show(text))),
    };
    let mut seen: Vec<&[u8]> = Vec::new();
    let mut multi = false;
    for (key, _) in git {
        if seen.contains(&key.as_slice()) {
            continue;
        }
        seen.push(key);
        let Some((sec, sub, var)) = split_key(key) else { continue };
        let (Some(sec_s), Some(var_s)) = (as_str(sec), as_str(var)) else { continue };
        let want: Vec<&[u8]> = git.iter().filter(|(k, _)| k == key).map(|(_, v)| v.as_deref().unwrap_or(b"")).collect();
        multi |= want.len() > 1;
        let last = git.iter().rev().find(|(k, _)| k == key).expect("present");
        let sub_b: Option<&BStr> = sub.map(|s| s.as_bstr());
        // the same question asked with different case of section and variable must give the same answer
        for variant in 0..3 {
            let (s, v) = match variant {
                0 => (sec_s.to_string(), var_s.to_string()),
                1 => (sec_s.to_ascii_uppercase(), var_s.to_ascii_uppercase()),
                _ => (flip_first(sec_s), flip_first(var_s)),
            };
            if variant > 0 {
                CASE_VARIANT_QUERIES.fetch_add(1, Ordering::Relaxed);
            }
            let got = file.raw_values_by(&s, sub_b, &v).map(|v| v.into_iter().map(|c| c.to_vec()).collect::<Vec<_>>()).unwrap_or_default();
            if got.iter().map(|v| v.as_slice()).collect::<Vec<_>>() != want {
                return bad(
                    "get-all",
                    format!("{}: raw_values_by({s:?},{:?},{v:?}) = {:?} but git --get-all {} = {:?}", show(text), sub.map(show), got.iter().map(|g| show(g)).collect::<Vec<_>>(), show(key), want.iter().map(|g| show(g)).collect::<Vec<_>>()),
                );
            }
            let strings = file.strings_by(&s, sub_b, &v).map(|v| v.into_iter().map(|c| c.to_vec()).collect::<Vec<_>>()).unwrap_or_default();
            if strings != got {
                return bad("get-all", format!("{}: strings_by({s:?},{:?},{v:?}) differs from raw_values_by", show(text), sub.map(show)));
            }
            // typed multi-value reads: `git config --type=int|bool --get-all` = the typed rule applied to every listed value (all must parse)
            let all: Vec<Option<&[u8]>> = git.iter().filter(|(k, _)| k == key).map(|(_, v)| v.as_deref()).collect();
            let explicit_only = all.iter().all(Option::is_some);
            if explicit_only {
                let want_ints: Option<Vec<i64>> = all.iter().map(|v| ref_int(*v)).collect();
                let ints = file.integers_by(&s, sub_b, &v).and_then(Result::ok);
                if ints != want_ints {
                    return bad("get-all-int", format!("{}: integers_by({s:?},{:?},{v:?}) = {ints:?} but git --type=int --get-all {} = {want_ints:?}", show(text), sub.map(show), show(key)));
                }
                let want_bools: Option<Vec<bool>> = all.iter().map(|v| ref_bool(*v)).collect();
                let bools: Option<Vec<bool>> = file.values_by::<gix_config_value::Boolean>(&s, sub_b, &v).ok().map(|b| b.into_iter().map(|b| b.0).collect());
                if bools != want_bools && !all.iter().any(|v| bool_class(*v) == "bool-range") {
                    return bad("get-all-bool", format!("{}: values_by::<Boolean>({s:?},{:?},{v:?}) = {bools:?} but git --type=bool --get-all {} = {want_bools:?}", show(text), sub.map(show), show(key)));
                }
                MULTI_TYPED.fetch_add((want.len() > 1) as u64, Ordering::Relaxed);
            }
            let one = file.raw_value_by(&s, sub_b, &v).ok().map(|c| c.to_vec());
            // documented (Body::value): "we consider values without separator `=` non-existing" - single-value lookup skips implicit booleans
            if last.1.is_some() && one.as_deref() != last.1.as_deref() {
                return bad(
                    "get-last",
                    format!("{}: raw_value_by({s:?},{:?},{v:?}) = {:?} but git --get {} = {}", show(text), sub.map(show), one.as_deref().map(show), show(key), show(last.1.as_deref().unwrap_or(b""))),
                );
            }
            let b = file.boolean_by(&s, sub_b, &v).and_then(Result::ok);
            if b != ref_bool(last.1.as_deref()) {
                return bad(bool_class(last.1.as_deref()), format!("{}: boolean_by({s:?},{:?},{v:?}) = {b:?} but git --type=bool {} = {:?}", show(text), sub.map(show), show(key), ref_bool(last.1.as_deref())));
            }
            let i = file.integer_by(&s, sub_b, &v).and_then(Result::ok);
            // (integer_by is a single-value lookup: documented to skip implicit booleans, see above)
            if last.1.is_some() && i != ref_int(last.1.as_deref()) {
                return bad("int", format!("{}: integer_by({s:?},{:?},{v:?}) = {i:?} but git --type=int {} = {:?}", show(text), sub.map(show), show(key), ref_int(last.1.as_deref())));
            }
        }
        // subsections are case-sensitive: a differently-cased subsection must only see entries git lists under that exact key
        if let Some(sub) = sub {
            let flipped = flip_all(sub);
            if flipped != sub {
                CASE_VARIANT_QUERIES.fetch_add(1, Ordering::Relaxed);
                let mut other = sec.to_vec();
                other.push(b'.');
                other.extend_from_slice(&flipped);
                other.push(b'.');
                other.extend_from_slice(var);
                let want: Vec<&[u8]> = git.iter().filter(|(k, _)| *k == other).map(|(_, v)| v.as_deref().unwrap_or(b"")).collect();
                let got = file.raw_values_by(sec_s, Some(flipped.as_bstr()), var_s).map(|v| v.into_iter().map(|c| c.to_vec()).collect::<Vec<_>>()).unwrap_or_default();
                if got.iter().map(|v| v.as_slice()).collect::<Vec<_>>() != want {
                    return bad(
                        "subsection-case",
                        format!("{}: raw_values_by({sec_s:?},{},{var_s:?}) = {:?} but git --get-all {} = {:?}", show(text), show(&flipped), got.iter().map(|g| show(g)).collect::<Vec<_>>(), show(&other), want.iter().map(|g| show(g)).collect::<Vec<_>>()),
                    );
                }
            }
        }
    }
    let has = |f: &dyn Fn(&gix_config::parse::Event<'_>) -> bool| ev.iter().any(|e| f(e));
    use gix_config::parse::Event as E;
    let ncont = ev.iter().filter(|e| matches!(e, E::ValueDone(_))).count();
    let class = if multi && ncont > 1 {
        "multi-value-several-continued"
    } else if multi && ncont == 1 {
        "multi-value-one-continued"
    } else if has(&|e| matches!(e, E::ValueNotDone(_))) {
        "continuation"
    } else if multi {
        "multi-value"
    } else if git.iter().any(|(_, v)| v.is_none()) {
        "implicit-bool"
    } else if has(&|e| matches!(e, E::Value(v) if v.contains(&b'\\'))) {
        "escapes"
    } else if has(&|e| matches!(e, E::Value(v) if v.contains(&b'"'))) {
        "quotes"
    } else if git.iter().any(|(k, _)| k.iter().filter(|b| **b == b'.').count() > 1) {
        "subsection"
    } else {
        "plain"
    };
    ok(class)
}

fn flip_first(s: &str) -> String {
    let mut c = s.chars();
    match c.next() {
        Some(f) if f.is_ascii_lowercase() => f.to_ascii_uppercase().to_string() + c.as_str(),
        Some(f) => f.to_ascii_lowercase().to_string() + c.as_str(),
        None => String::new(),
    }
}
fn flip_all(s: &[u8]) -> Vec<u8> {
    s.iter().map(|b| if b.is_ascii_lowercase() { b.to_ascii_uppercase() } else { b.to_ascii_lowercase() }).collect()
}

fn show_flat(f: &Flat) -> String {
    let mut s = String::from("[");
    for (k, v) in f {
        s.push_str(&format!("{}={}, ", show(k), v.as_deref().map(show).unwrap_or_else(|| "<implicit>".into())));
    }
    s.push(']');
    s
}

/// Inputs whose reading is documented by gitoxide to differ from git; they are outside the compared domain.
fn documented_deviation(text: &[u8]) -> Option<&'static str> {
    let _ = text;
    None
}

fn eval(c: &Text) -> Verdict {
    if let Some(why) = documented_deviation(&c.text) {
        return ok_trivial(why);
    }
    let known = ORACLE.get().and_then(|o| {
        let g = o.lock().unwrap();
        if g.unverified_rejects.contains(c.text.as_slice()) {
            return Some(Err(()));
        }
        g.map.get(c.text.as_slice()).cloned().map(Ok)
    });
    let git = match known {
        Some(Err(())) => return ok_trivial("git-rejects-per-transcription-unconfirmed"),
        Some(Ok(v)) => v,
        None => git_view(&c.text), // replay
    };
    match git {
        None => ok_trivial("git-rejects"),
        Some(git) => compare(&c.text, &git),
    }
}

#[derive(Serialize, Deserialize, Hash, Clone, Debug)]
struct Typed {
    /// the value as it should be read (it is written quoted and escaped into the file)
    value: Option<B>,
}

fn typed_eval(c: &Typed) -> Verdict {
    let mut text = b"[a]\n\tk".to_vec();
    if let Some(v) = &c.value {
        text.extend_from_slice(b" = \"");
        for &b in v.iter() {
            match b {
                b'"' | b'\\' => {
                    text.push(b'\\');
                    text.push(b)
                }
                b'\n' => text.extend_from_slice(b"\\n"),
                _ => text.push(b),
            }
        }
        text.push(b'"');
    }
    text.push(b'\n');
    let q = |ty: &str| -> Option<Vec<u8>> {
        GIT_CALLS.fetch_add(1, Ordering::Relaxed);
        with_file(&text, |d, p| {
            let o = vkit::git::try_git(d, &[std::ffi::OsStr::new("config"), "-f".as_ref(), p.as_os_str(), ty.as_ref(), "-z".as_ref(), "--get".as_ref(), "a.k".as_ref()]);
            if o.code.is_none() {
                vkit::machinery!("git config died: {}", o.err_text());
            }
            o.ok.then(|| o.stdout.strip_suffix(b"\0").unwrap_or(&o.stdout).to_vec())
        })
    };
    let file = match load(&text) {
        Ok(f) => f,
        Err(e) => return bad("rejected-by-gitoxide", format!("{}: {e}", show(&text))),
    };
    let val = c.value.as_deref();
    // bool
    let gb = q("--type=bool").map(|o| o == b"true");
    if gb != ref_bool(val) {
        vkit::machinery!("reference bool({:?}) = {:?} but git says {gb:?}", val.map(show), ref_bool(val));
    }
    let b = file.boolean_by("a", None, "k").and_then(Result::ok);
    if b != gb {
        return bad(bool_class(val), format!("value {:?}: boolean = {b:?}, git --type=bool = {gb:?}", val.map(show)));
    }
    // int
    let gi = q("--type=int").and_then(|o| String::from_utf8(o).ok()).and_then(|s| s.parse::<i64>().ok());
    if gi != ref_int(val) {
        vkit::machinery!("reference int({:?}) = {:?} but git says {gi:?}", val.map(show), ref_int(val));
    }
    let i = file.integer_by("a", None, "k").and_then(Result::ok);
    if i != gi {
        return bad(if i == Some(i64::MIN) { "int-min" } else { "int" }, format!("value {:?}: integer = {i:?}, git --type=int = {gi:?}", val.map(show)));
    }
    // path
    let gp = q("--type=path");
    let home = vkit::scratch::base();
    let p = file.path_by("a", None, "k").map(|p| {
        p.interpolate(gix_config_value::path::interpolate::Context { git_install_dir: None, home_dir: Some(home), home_for_user: None })
            .ok()
            .map(|p| gix_path::into_bstr(p).to_vec())
    });
    let p = p.flatten();
    // documented (Path::interpolate): an empty path value is an error
    if p != gp && val != Some(&b""[..]) {
        return bad("path", format!("value {:?}: path = {:?}, git --type=path = {:?}", val.map(show), p.as_deref().map(show), gp.as_deref().map(show)));
    }
    ok(match (gb, gi, gp.is_some()) {
        (Some(true), None, _) => "typed/true-word",
        (Some(false), None, _) => "typed/false-word",
        (Some(_), Some(_), _) => "typed/number",
        (None, Some(_), _) => "typed/int-only",
        (None, None, true) => "typed/path-only",
        (None, None, false) => "typed/nothing",
    })
}

pub fn run(run: &'static Run) {
    let lval = run.pick(3, 4);
    let lstruct = run.pick(3, 4);
    let lhdr = run.pick(5, 6);
    let lmulti = run.pick(3, 4);
    run.rule(format!(
        "value: `[a]LF TAB k =` + all sequences of <= {lval} tokens over 15 value tokens (v w SP TAB '\"' '\\\"' '\\\\' '\\n' '\\t' backslash-LF backslash-CRLF # ; LF+'j=x' 'v  w') + (LF | nothing | CRLF); \
         multi: `[a]LF` + all sequences of 2..={lmulti} entries over 10 entries for the same key k (plain `k = 1`; one continuation `1\\LF2`; two continuation lines `3\\LF4\\LF5`; quoted value continued inside the quotes; words `x \\LFy`; CRLF continuation; `tr\\LFue`; another key j with continuation; implicit `k`; a second `[A]` header splitting the section), read through raw_values_by/strings_by/integers_by/values_by::<Boolean>; \
         structure: all sequences of <= {lstruct} lines over 14 lines ([a] [A] [a \"s\"] [a \"S\"] [a.s] [a.S] [b] k=1 K=0 k j=true ' k = 2k ' #c BOM); \
         header: every string of <= {lhdr} tokens starting with '[' over ([ a B . - 1 SP '\"' '\\' ]) + LF k=v LF; \
         typed: 22 boolean words + implicit, all strings of <= 2/3 tokens over (1 0 - k G + m x), i64/i32 boundary numbers x suffixes, 10 path forms, each through git --type=bool|int|path; \
         every text goes through `git config -f F --list -z` (filter + oracle); non-trivial = git accepts the file and lists at least one entry, all lookups compared"
    ));
    run.assume("git 2.39.5 `git config -f F --list -z` is the filter (rejected files are trivial) and the oracle for keys, order and values; --get-all/--get semantics = entries of that listing with the same canonical key (git canonicalises section and variable to lower case, subsection verbatim)");
    run.assume("typed interpretation: git --type=bool|int|path on the value; for texts of subs value/structure/header the reference functions ref_bool/ref_int are used, which sub `typed` validates against git on every typed case (a mismatch is a machinery error)");
    run.assume("documented gitoxide deviations, excluded and counted as trivial outcomes: keys before the first section are refused (parse::Events docs: global properties strictly disallowed); legacy `[a.B]` headers keep their case (lib.rs `Known differences`); single-value lookups treat a key without `=` as non-existing (Body::value docs) so --get is not compared when git's last value is an implicit boolean; `\\b` removes the previous character (normalize docs) - `\\b` is not in the alphabet");
    run.assume("oracle-version artefact: git 2.39 replaces unquoted value-internal TAB by SP, git >= 2.45 keeps it verbatim like gitoxide; such texts must agree after mapping TAB to SP. Sections with an empty name (`[.]`) and a lone CR not followed by LF are outside the alphabet/domain. Integers: decimal notation only (git's strtoimax also takes 0x.. and octal 0..)");
    run.budget_secs(run.pick(38.0, 570.0));

    let vt: [&[u8]; 15] = [b"v", b"w", b" ", b"\t", b"\"", b"\\\"", b"\\\\", b"\\n", b"\\t", b"\\\n", b"\\\r\n", b"#", b";", b"\nj=x", b"v  w"];
    let mut value_texts: Vec<Vec<u8>> = Vec::new();
    enumerate::strings(&vt, 0, lval, |s| {
        for end in [&b"\n"[..], b"", b"\r\n"] {
            let mut t = b"[a]\n\tk =".to_vec();
            t.extend_from_slice(s);
            t.extend_from_slice(end);
            value_texts.push(t);
        }
    });
    let reject_budget = Duration::from_secs_f64(run.pick(2.0, 40.0));
    let batched = |name: &str, texts: Vec<Vec<u8>>| {
        if !run.is_replay() {
            build_oracle(&texts, reject_budget);
        }
        run.sub(name, |emit| texts.into_iter().for_each(|t| emit(Text { text: B(t) })), eval);
    };
    batched("value", value_texts);

    // the same key several times in one section / split over two sections of the same name, every combination of plain and continued values
    let entries: [&[u8]; 10] = [
        b"\tk = 1\n",
        b"\tk = 1\\\n2\n",
        b"\tk = 3\\\n4\\\n5\n",
        b"\tk = \"x \\\n y\"\n",
        b"\tk = x \\\ny\n",
        b"\tk = 6\\\r\n7\r\n",
        b"\tk = tr\\\nue\n",
        b"\tj = 8\\\n9\n",
        b"\tk\n",
        b"[A]\n",
    ];
    let mut mt: Vec<Vec<u8>> = Vec::new();
    enumerate::strings(&entries, 2, lmulti, |s| {
        let mut t = b"[a]\n".to_vec();
        t.extend_from_slice(s);
        mt.push(t);
    });
    batched("multi", mt);

    let lines: [&[u8]; 14] = [
        b"[a]\n", b"[A]\n", b"[a \"s\"]\n", b"[a \"S\"]\n", b"[a.s]\n", b"[a.S]\n", b"[b]\n", b"k=1\n", b"K=0\n", b"k\n", b"j=true\n", b" k = 2k \n", b"#c\n", b"\xef\xbb\xbf",
    ];
    let mut st: Vec<Vec<u8>> = Vec::new();
    enumerate::strings(&lines, 0, lstruct, |s| st.push(s.to_vec()));
    batched("structure", st);

    let hdr: [&[u8]; 10] = [b"[", b"a", b"B", b".", b"-", b"1", b" ", b"\"", b"\\", b"]"];
    let mut ht: Vec<Vec<u8>> = Vec::new();
    enumerate::strings(&hdr, 0, lhdr, |s| {
        if s.first() != Some(&b'[') {
            return;
        }
        let mut t = s.to_vec();
        t.extend_from_slice(b"\nk=v\n");
        ht.push(t);
    });
    batched("header", ht);

    run.sub_with(
        "typed",
        vkit::Opts::default().chunk(64),
        |emit| {
            emit(Typed { value: None });
            let mut seen = std::collections::HashSet::new();
            let mut e = |v: Vec<u8>| {
                // decimal notation only: strtoimax's octal (010) and hex (0x1) forms are outside the stated domain
                let d = v.strip_prefix(b"-").or_else(|| v.strip_prefix(b"+")).unwrap_or(&v);
                if d.len() > 1 && d[0] == b'0' && (d[1].is_ascii_digit() || d[1] == b'x') {
                    return;
                }
                if seen.insert(v.clone()) {
                    emit(Typed { value: Some(B(v)) })
                }
            };
            for w in ["", "true", "false", "yes", "no", "on", "off", "TRUE", "False", "oN", "tru", "truee", "y", "n", "t", "f", "1", "0", "-1", "2", "always", "never"] {
                e(w.as_bytes().to_vec());
            }
            let nt: [&[u8]; 8] = [b"1", b"0", b"-", b"k", b"G", b"+", b"m", b"x"];
            enumerate::strings(&nt[..run.pick(5, 8)], 1, run.pick(2, 3), |s| e(s.to_vec()));
            for n in [i64::MAX as i128, i64::MAX as i128 + 1, i64::MIN as i128, i64::MIN as i128 - 1, i32::MAX as i128, i32::MAX as i128 + 1, i32::MIN as i128, i32::MIN as i128 - 1,
                (i64::MAX >> 10) as i128, (i64::MAX >> 10) as i128 + 1, (i64::MAX >> 20) as i128, (i64::MAX >> 20) as i128 + 1, (i64::MAX >> 30) as i128, (i64::MAX >> 30) as i128 + 1,
                (i64::MIN >> 10) as i128, (i64::MIN >> 10) as i128 - 1, (i64::MIN >> 30) as i128, (i64::MIN >> 30) as i128 - 1, 2097151, 2097152, 2047, 2048, 1, 2].into_iter().take(run.pick(10, 24)) {
                for suf in if run.quick() { &["", "k"][..] } else { &["", "k", "K", "m", "M", "g", "G", "t", "kk"][..] } {
                    e(format!("{n}{suf}").into_bytes());
                }
            }
            for p in ["~/x", "~/", "/abs", "rel/p", "~nosuchuser-verif/x", "a~/b", "./~/x"] {
                e(p.as_bytes().to_vec());
            }
        },
        typed_eval,
    );
    run.cov("oracle_calls_git", GIT_CALLS.load(Ordering::Relaxed));
    run.cov("oracle_batch_calls", BATCH_CALLS.load(Ordering::Relaxed));
    run.cov("transcription_vs_git_mismatches", TRANSCRIPTION_MISMATCH.load(Ordering::Relaxed));
    if let Some(o) = ORACLE.get() {
        let g = o.lock().unwrap();
        run.cov("texts_answered_by_git", g.map.len());
        run.cov("texts_git_accepts", g.map.values().filter(|v| v.is_some()).count());
        run.cov("predicted_rejects_not_confirmed_with_git", g.unverified_rejects.len());
    }
    run.cov("case_variant_queries", CASE_VARIANT_QUERIES.load(Ordering::Relaxed));
    run.cov("typed_multi_value_reads", MULTI_TYPED.load(Ordering::Relaxed));
    if !run.is_replay() {
        for c in ["multi-value-several-continued", "multi-value-one-continued", "continuation", "multi-value", "implicit-bool", "escapes", "quotes", "subsection", "plain", "git-rejects", "typed/number", "typed/true-word"] {
            run.require(&format!("outcome class {c} was reached"), run.outcome_count(c) > 0);
        }
        run.require("case variants of section/variable/subsection were queried", CASE_VARIANT_QUERIES.load(Ordering::Relaxed) > 0);
    }
}
