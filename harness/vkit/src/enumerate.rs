//! Bounded-exhaustive enumeration combinators (callback style, simplest first).

/// All sequences over `alpha` with length in `min..=max`, shortest first, lexicographic by alphabet index.
pub fn seqs<T: Clone>(alpha: &[T], min: usize, max: usize, mut f: impl FnMut(&[T])) {
    for len in min..=max {
        if len == 0 {
            f(&[]);
            continue;
        }
        if alpha.is_empty() {
            continue;
        }
        let mut idx = vec![0usize; len];
        let mut cur: Vec<T> = idx.iter().map(|&i| alpha[i].clone()).collect();
        loop {
            f(&cur);
            let mut p = len;
            loop {
                if p == 0 {
                    break;
                }
                p -= 1;
                idx[p] += 1;
                if idx[p] < alpha.len() {
                    cur[p] = alpha[idx[p]].clone();
                    break;
                }
                idx[p] = 0;
                cur[p] = alpha[0].clone();
                if p == 0 {
                    p = usize::MAX;
                    break;
                }
            }
            if p == usize::MAX {
                break;
            }
        }
    }
}

/// All byte strings that are concatenations of `min..=max` tokens.
pub fn strings(tokens: &[&[u8]], min: usize, max: usize, mut f: impl FnMut(&[u8])) {
    let mut buf = Vec::new();
    seqs(tokens, min, max, |ts| {
        buf.clear();
        for t in ts {
            buf.extend_from_slice(t);
        }
        f(&buf);
    });
}

/// All subsets of `u` with size in `min..=max` (elements keep universe order), smallest first.
pub fn subsets<T: Clone>(u: &[T], min: usize, max: usize, mut f: impl FnMut(&[T])) {
    fn rec<T: Clone>(u: &[T], start: usize, want: usize, cur: &mut Vec<T>, f: &mut impl FnMut(&[T])) {
        if cur.len() == want {
            f(cur);
            return;
        }
        for i in start..u.len() {
            if u.len() - i < want - cur.len() {
                break;
            }
            cur.push(u[i].clone());
            rec(u, i + 1, want, cur, f);
            cur.pop();
        }
    }
    for k in min..=max.min(u.len()) {
        rec(u, 0, k, &mut Vec::new(), &mut f);
    }
}

/// All permutations of `items` (Heap-free simple recursion; fine for n<=8).
pub fn permutations<T: Clone>(items: &[T], mut f: impl FnMut(&[T])) {
    fn rec<T: Clone>(rest: &mut Vec<T>, cur: &mut Vec<T>, f: &mut impl FnMut(&[T])) {
        if rest.is_empty() {
            f(cur);
            return;
        }
        for i in 0..rest.len() {
            let x = rest.remove(i);
            cur.push(x);
            rec(rest, cur, f);
            let x = cur.pop().unwrap();
            rest.insert(i, x);
        }
    }
    rec(&mut items.to_vec(), &mut Vec::new(), &mut f);
}

/// All ways to cut a stream of `len` bytes into chunks with at most `max_cuts` cut positions (strictly inside).
/// Calls `f` with the sorted cut positions (possibly empty).
pub fn cuts(len: usize, max_cuts: usize, mut f: impl FnMut(&[usize])) {
    let pos: Vec<usize> = (1..len).collect();
    subsets(&pos, 0, max_cuts, |c| f(c));
}

/// Interesting u64 values: 0, 1, every 2^k-1 / 2^k / 2^k+1, every 10^k-1 / 10^k / 10^k+1, MAX.
pub fn boundaries_u64() -> Vec<u64> {
    let mut v = vec![0u64, 1, u64::MAX, u64::MAX - 1];
    for k in 1..64 {
        let p = 1u64 << k;
        v.extend([p - 1, p, p.wrapping_add(1)]);
    }
    let mut p = 1u64;
    for _ in 0..19 {
        p *= 10;
        v.extend([p - 1, p, p + 1]);
    }
    v.sort_unstable();
    v.dedup();
    v
}

/// Interesting i64 values: the u64 boundaries that fit, their negatives, MIN, MAX.
pub fn boundaries_i64() -> Vec<i64> {
    let mut v = vec![i64::MIN, i64::MIN + 1, i64::MAX];
    for u in boundaries_u64() {
        if u <= i64::MAX as u64 {
            v.push(u as i64);
            v.push(-(u as i64));
        }
    }
    v.sort_unstable();
    v.dedup();
    v
}

/// Deterministic pseudo-random bytes (LCG) — *not* a source of test cases, only incompressible filler content.
pub fn lcg_bytes(n: usize, seed: u64) -> Vec<u8> {
    let mut s = seed.wrapping_mul(6364136223846793005).wrapping_add(1442695040888963407);
    (0..n)
        .map(|_| {
            s = s.wrapping_mul(6364136223846793005).wrapping_add(1442695040888963407);
            (s >> 33) as u8
        })
        .collect()
}

#[cfg(test)]
mod tests {
    use super::*;
    #[test]
    fn seq_counts() {
        let mut n = 0;
        seqs(&[1, 2, 3], 0, 3, |_| n += 1);
        assert_eq!(n, 1 + 3 + 9 + 27);
        let mut v = Vec::new();
        seqs(&[0, 1], 2, 2, |s| v.push(s.to_vec()));
        assert_eq!(v, vec![vec![0, 0], vec![0, 1], vec![1, 0], vec![1, 1]]);
    }
    #[test]
    fn subset_counts() {
        let mut n = 0;
        subsets(&[1, 2, 3, 4], 0, 4, |_| n += 1);
        assert_eq!(n, 16);
        let mut n = 0;
        cuts(4, 2, |_| n += 1);
        assert_eq!(n, 1 + 3 + 3);
        let mut n = 0;
        permutations(&[1, 2, 3, 4], |_| n += 1);
        assert_eq!(n, 24);
    }
}
