//! vkit: plumbing shared by all checks — bounded-exhaustive enumeration driver, evidence writer,
//! replay files, known findings, watchdog, git oracle helpers, scratch directories.
//!
//! A check is a function `fn(&Run)`. It declares sub-checks with [`Run::sub`]: a *generator* that emits every
//! case of a finite space (simplest first) and an *evaluator* `Fn(&Case) -> Verdict` that runs the real code
//! and the oracle on one case. vkit evaluates all cases on all cores under `catch_unwind`, counts, keeps
//! samples, writes one replay file per violation and the evidence file, and maps the result to the exit code
//! (0 held, 1 violation, 2 machinery failure).
pub mod bytes;
pub mod enumerate;
pub mod git;
pub mod scratch;

pub use bytes::B;
pub use serde;
pub use serde_json;
use serde::{de::DeserializeOwned, Serialize};
use serde_json::{json, Map, Value};
use std::any::Any;
use std::borrow::Cow;
use std::collections::{BTreeMap, HashSet};
use std::hash::{Hash, Hasher};
use std::panic::{catch_unwind, AssertUnwindSafe};
use std::path::PathBuf;
use std::sync::atomic::{AtomicBool, AtomicUsize, Ordering};
use std::sync::Mutex;
use std::time::{Duration, Instant};

#[derive(Clone, Copy, PartialEq, Eq, Debug)]
pub enum Tier {
    Quick,
    Thorough,
}

#[derive(Clone, Copy, PartialEq, Eq, Debug)]
pub enum Level {
    Exploration,
    FaultEnumeration,
    ModelChecking,
}
impl Level {
    fn as_str(self) -> &'static str {
        match self {
            Level::Exploration => "exploration",
            Level::FaultEnumeration => "fault_enumeration",
            Level::ModelChecking => "model_checking",
        }
    }
}

pub struct Check {
    pub id: &'static str,
    pub level: Level,
    pub run: fn(&'static Run),
}

/// What a passing evaluation reports.
pub struct Pass {
    /// outcome class (for the distinct-outcomes count; "one outcome from many cases means nothing collided")
    pub class: Cow<'static, str>,
    /// is this case non-trivial by the check's stated rule?
    pub nontrivial: bool,
}
pub type Verdict = Result<Pass, String>;
/// passing, non-trivial case
pub fn ok(class: impl Into<Cow<'static, str>>) -> Verdict {
    Ok(Pass { class: class.into(), nontrivial: true })
}
/// passing but trivial case (e.g. both sides rejected at the first byte)
pub fn ok_trivial(class: impl Into<Cow<'static, str>>) -> Verdict {
    Ok(Pass { class: class.into(), nontrivial: false })
}
/// violation: `class` identifies the failure shape (used by known findings), `detail` is free text
pub fn bad(class: &str, detail: impl std::fmt::Display) -> Verdict {
    Err(format!("{class}: {detail}"))
}

/// Panic payload for failures of the harness itself (oracle unavailable, fixture creation failed).
pub struct Machinery(pub String);
#[macro_export]
macro_rules! machinery {
    ($($t:tt)*) => { std::panic::panic_any($crate::Machinery(format!($($t)*))) };
}

pub trait Case: Serialize + DeserializeOwned + Hash + Send + Sync {}
impl<T: Serialize + DeserializeOwned + Hash + Send + Sync> Case for T {}

#[derive(Clone)]
pub struct Opts {
    chunk: usize,
    watchdog: Option<Duration>,
    isolate: bool,
    serial: bool,
}
impl Default for Opts {
    fn default() -> Self {
        Opts { chunk: 8192, watchdog: None, isolate: false, serial: false }
    }
}
impl Opts {
    /// cases per parallel batch (small for slow evaluators so time caps are honoured promptly)
    pub fn chunk(mut self, n: usize) -> Self {
        self.chunk = n.max(1);
        self
    }
    /// report a case that runs longer than this as a violation of class `hang` (and stop the run)
    pub fn watchdog(mut self, secs: f64) -> Self {
        // never below 20 s, and stretched like the time budgets: a case that merely waits for a CPU on a loaded machine (or during
        // a stall of the virtual machine) must not be reported as a hang - a real hang never returns and is caught just the same
        let scale = std::env::var("VERIF_BUDGET_SCALE").ok().and_then(|s| s.parse::<f64>().ok()).filter(|f| *f >= 1.0).unwrap_or(1.0);
        self.watchdog = Some(Duration::from_secs_f64(secs.max(20.0) * scale));
        self
    }
    /// record the in-flight case on disk so that the driver can attribute an abort/stack overflow
    pub fn isolate(mut self) -> Self {
        self.isolate = true;
        self
    }
    /// evaluate on the calling thread only (for evaluators that use process-global state)
    pub fn serial(mut self) -> Self {
        self.serial = true;
        self
    }
}

#[derive(Default)]
struct SubStat {
    evaluations: u64,
    nontrivial: u64,
    violations: u64,
}

struct ViolationRec {
    sub: String,
    message: String,
    replay: String,
}

#[derive(Default)]
struct State {
    evaluations: u64,
    nontrivial: HashSet<u64>,
    outcomes: BTreeMap<String, u64>,
    first_sample: Option<Value>,
    last_sample: Option<Value>,
    class_samples: BTreeMap<String, Value>,
    extra_samples: Vec<Value>,
    violations_total: u64,
    violation_classes: BTreeMap<String, u64>,
    violations: Vec<ViolationRec>,
    known_hits: BTreeMap<usize, u64>,
    subs: BTreeMap<String, SubStat>,
    states: HashSet<u64>,
    transitions: u64,
    validated: u64,
    rule: Vec<String>,
    assumptions: Vec<String>,
    extra: Map<String, Value>,
    caps: Vec<String>,
    machinery: Vec<String>,
}

struct Known {
    sub: Option<String>,
    class: String,
    case_match: Option<String>,
    what: String,
}

pub struct Run {
    pub id: &'static str,
    pub tier: Tier,
    pub seed: u64,
    pub level: Level,
    pub root: PathBuf,
    pub threads: usize,
    replay: Option<(String, Value)>,
    state: Mutex<State>,
    known: Vec<Known>,
    start: Instant,
    budget: Mutex<Option<Instant>>,
    finished: AtomicBool,
}

const MAX_SLOTS: usize = 256;
struct Inflight {
    since: Instant,
    limit: Duration,
    sub: String,
    case: String,
}
static INFLIGHT: Mutex<Vec<Option<Inflight>>> = Mutex::new(Vec::new());
static WATCHDOG_STARTED: AtomicBool = AtomicBool::new(false);
static SLOT_COUNTER: AtomicUsize = AtomicUsize::new(0);
thread_local! {
    static LAST_PANIC: std::cell::RefCell<Option<String>> = const { std::cell::RefCell::new(None) };
    static QUIET: std::cell::Cell<u32> = const { std::cell::Cell::new(0) };
}

pub fn hash_of<T: Hash + ?Sized>(t: &T) -> u64 {
    #[allow(deprecated)]
    let mut h = std::hash::SipHasher::new_with_keys(0x7665726966, 0x6b6974);
    t.hash(&mut h);
    h.finish()
}

fn panic_message(p: Box<dyn Any + Send>) -> Result<String, String> {
    // Ok = subject panic, Err = machinery
    if let Some(m) = p.downcast_ref::<Machinery>() {
        return Err(m.0.clone());
    }
    let loc = LAST_PANIC.with(|l| l.borrow_mut().take()).unwrap_or_default();
    let msg = if let Some(s) = p.downcast_ref::<&str>() {
        (*s).to_string()
    } else if let Some(s) = p.downcast_ref::<String>() {
        s.clone()
    } else {
        "<non-string panic>".into()
    };
    Ok(format!("{msg} @ {loc}"))
}

/// Run `f`, turning a panic into `Err(text)`. Machinery panics are propagated.
pub fn catch<T>(f: impl FnOnce() -> T) -> Result<T, String> {
    QUIET.with(|q| q.set(q.get() + 1));
    let r = catch_unwind(AssertUnwindSafe(f));
    QUIET.with(|q| q.set(q.get() - 1));
    match r {
        Ok(v) => Ok(v),
        Err(p) => match panic_message(p) {
            Ok(m) => Err(m),
            Err(m) => std::panic::panic_any(Machinery(m)),
        },
    }
}

pub fn main(checks: &[Check]) -> ! {
    let args: Vec<String> = std::env::args().skip(1).collect();
    if args.first().map(String::as_str) == Some("--list") {
        for c in checks {
            println!("{} {}", c.id, c.level.as_str());
        }
        std::process::exit(0);
    }
    if args.len() < 2 {
        eprintln!("usage: <bin> <id> quick|thorough | <id> --replay <path>");
        std::process::exit(2);
    }
    let check = match checks.iter().find(|c| c.id == args[0]) {
        Some(c) => c,
        None => {
            eprintln!("unknown check {}", args[0]);
            std::process::exit(2);
        }
    };
    let root = PathBuf::from(std::env::var("VERIF_ROOT").unwrap_or_else(|_| "/verif".into()));
    let mut tier = Tier::Quick;
    let mut replay = None;
    if args[1] == "--replay" {
        let path = args.get(2).expect("replay path");
        let text = std::fs::read_to_string(path).unwrap_or_else(|e| {
            eprintln!("cannot read replay {path}: {e}");
            std::process::exit(2)
        });
        let v: Value = serde_json::from_str(&text).expect("replay json");
        if v["tier"] == "thorough" {
            tier = Tier::Thorough;
        }
        replay = Some((v["sub"].as_str().unwrap_or("").to_string(), v["case"].clone()));
    } else if args[1] == "thorough" {
        tier = Tier::Thorough;
    } else if args[1] != "quick" {
        eprintln!("tier must be quick or thorough");
        std::process::exit(2);
    }
    let seed = std::env::var("VERIF_SEED").ok().and_then(|s| s.parse::<i64>().ok()).unwrap_or(0) as u64;
    let threads = std::env::var("VERIF_THREADS")
        .ok()
        .and_then(|s| s.parse().ok())
        .unwrap_or_else(|| std::thread::available_parallelism().map(|n| n.get()).unwrap_or(4))
        .min(MAX_SLOTS);
    let known = load_known(&root, check.id);
    let run: &'static Run = Box::leak(Box::new(Run {
        id: check.id,
        tier,
        seed,
        level: check.level,
        root,
        threads,
        replay,
        state: Mutex::new(State::default()),
        known,
        start: Instant::now(),
        budget: Mutex::new(None),
        finished: AtomicBool::new(false),
    }));
    let default_hook = std::panic::take_hook();
    std::panic::set_hook(Box::new(move |info| {
        let loc = info.location().map(|l| format!("{}:{}", l.file(), l.line())).unwrap_or_default();
        LAST_PANIC.with(|l| *l.borrow_mut() = Some(loc));
        if QUIET.with(|q| q.get()) == 0 && info.payload().downcast_ref::<Machinery>().is_none() {
            default_hook(info);
        }
    }));
    scratch::init();
    let r = catch_unwind(AssertUnwindSafe(|| (check.run)(run)));
    if let Err(p) = r {
        match panic_message(p) {
            Ok(m) => run.machinery_error(format!("check body panicked outside a case: {m}")),
            Err(m) => run.machinery_error(m),
        }
    }
    run.finish()
}

fn load_known(root: &std::path::Path, id: &str) -> Vec<Known> {
    let path = root.join("known_findings.json");
    let Ok(text) = std::fs::read_to_string(&path) else { return Vec::new() };
    let v: Value = match serde_json::from_str(&text) {
        Ok(v) => v,
        Err(e) => {
            eprintln!("known_findings.json unreadable: {e}");
            std::process::exit(2)
        }
    };
    let mut out = Vec::new();
    for f in v["findings"].as_array().cloned().unwrap_or_default() {
        if f["property"] == id && f["status"] == "open" {
            out.push(Known {
                sub: f["sub"].as_str().map(str::to_string),
                class: f["class"].as_str().unwrap_or("").to_string(),
                case_match: f["case_match"].as_str().map(str::to_string),
                what: f["what"].as_str().unwrap_or("").to_string(),
            });
        }
    }
    out
}

struct LocalAcc {
    evals: u64,
    nontrivial: Vec<u64>,
    outcomes: BTreeMap<String, (u64, usize)>, // class -> (count, first index)
    bad: Vec<(usize, String)>,
    machinery: Vec<String>,
}

impl Run {
    pub fn quick(&self) -> bool {
        self.tier == Tier::Quick
    }
    pub fn is_replay(&self) -> bool {
        self.replay.is_some()
    }
    /// value depending on tier
    pub fn pick<T>(&self, quick: T, thorough: T) -> T {
        if self.quick() {
            quick
        } else {
            thorough
        }
    }
    /// Describe alphabet, bound and non-triviality rule (goes to evidence `rule`).
    pub fn rule(&self, text: impl Into<String>) {
        self.state.lock().unwrap().rule.push(text.into());
    }
    pub fn assume(&self, text: impl Into<String>) {
        self.state.lock().unwrap().assumptions.push(text.into());
    }
    /// extra coverage key
    pub fn cov(&self, key: &str, v: impl Serialize) {
        self.state.lock().unwrap().extra.insert(key.into(), serde_json::to_value(v).unwrap());
    }
    /// add to a numeric coverage key
    pub fn cov_add(&self, key: &str, n: u64) {
        let mut st = self.state.lock().unwrap();
        let cur = st.extra.get(key).and_then(Value::as_u64).unwrap_or(0);
        st.extra.insert(key.into(), json!(cur + n));
    }
    /// Wall-clock budget for the generators of this run; when exceeded further cases are dropped and the run is
    /// reported as capped (exhaustive=false). Never turns into a verdict.
    pub fn budget_secs(&self, secs: f64) {
        // VERIF_BUDGET_SCALE: stretch all time budgets (for runs on a heavily loaded machine)
        let secs = secs * std::env::var("VERIF_BUDGET_SCALE").ok().and_then(|s| s.parse::<f64>().ok()).unwrap_or(1.0);
        *self.budget.lock().unwrap() = Some(Instant::now() + Duration::from_secs_f64(secs));
    }
    pub fn over_budget(&self) -> bool {
        self.budget.lock().unwrap().map(|d| Instant::now() > d).unwrap_or(false)
    }
    pub fn cap_hit(&self, what: impl Into<String>) {
        let what = what.into();
        let mut st = self.state.lock().unwrap();
        if !st.caps.contains(&what) {
            st.caps.push(what);
        }
    }
    pub fn machinery_error(&self, msg: impl Into<String>) {
        let msg = msg.into();
        eprintln!("MACHINERY: {msg}");
        self.state.lock().unwrap().machinery.push(msg);
    }
    /// Vacuity guard: a counter that must be non-zero for the exploration to mean anything.
    pub fn require(&self, what: &str, cond: bool) {
        if !cond && !self.is_replay() {
            self.machinery_error(format!("vacuity guard failed: {what}"));
        }
    }
    /// number of evaluations so far in sub-check `sub`
    pub fn sub_evaluations(&self, sub: &str) -> u64 {
        self.state.lock().unwrap().subs.get(sub).map(|s| s.evaluations).unwrap_or(0)
    }
    pub fn outcome_count(&self, class: &str) -> u64 {
        self.state.lock().unwrap().outcomes.get(class).copied().unwrap_or(0)
    }

    // ---- model-checking counters (explicit-state / schedule exploration) ----
    pub fn mc_state(&self, canonical_hash: u64) -> bool {
        self.state.lock().unwrap().states.insert(canonical_hash)
    }
    pub fn mc_states_bulk(&self, hashes: impl IntoIterator<Item = u64>) {
        self.state.lock().unwrap().states.extend(hashes);
    }
    pub fn mc_transitions(&self, n: u64) {
        self.state.lock().unwrap().transitions += n;
    }
    pub fn mc_validated(&self, n: u64) {
        self.state.lock().unwrap().validated += n;
    }

    // ---- manual recording API (for BFS-style checks that do not fit `sub`) ----
    pub fn count(&self, sub: &str, evaluations: u64) {
        let mut st = self.state.lock().unwrap();
        st.evaluations += evaluations;
        st.subs.entry(sub.into()).or_default().evaluations += evaluations;
    }
    pub fn nontrivial(&self, sub: &str, key_hash: u64) {
        let mut st = self.state.lock().unwrap();
        if st.nontrivial.insert(hash_of(&(sub, key_hash))) {
            st.subs.entry(sub.into()).or_default().nontrivial += 1;
        }
    }
    pub fn outcome(&self, class: &str) {
        *self.state.lock().unwrap().outcomes.entry(class.into()).or_default() += 1;
    }
    pub fn sample(&self, v: impl Serialize) {
        let mut st = self.state.lock().unwrap();
        if st.extra_samples.len() < 12 {
            st.extra_samples.push(serde_json::to_value(v).unwrap());
        }
    }
    /// In replay mode: the stored case if it belongs to `sub`.
    pub fn replay_case<C: DeserializeOwned>(&self, sub: &str) -> Option<C> {
        match &self.replay {
            Some((s, c)) if s == sub => match serde_json::from_value(c.clone()) {
                Ok(c) => Some(c),
                Err(e) => {
                    self.machinery_error(format!("replay case does not deserialize: {e}"));
                    None
                }
            },
            _ => None,
        }
    }
    /// Record a violation found by a manual explorer. `message` must start with `<class>: `.
    pub fn violation(&self, sub: &str, case: impl Serialize, message: String) {
        let case = serde_json::to_value(case).unwrap();
        self.record_violation(sub, &case, message);
    }

    fn record_violation(&self, sub: &str, case: &Value, message: String) {
        let case_text = case.to_string();
        let class = message.split(':').next().unwrap_or("").trim().to_string();
        for (i, k) in self.known.iter().enumerate() {
            if k.class == class
                && k.sub.as_deref().map(|s| s == sub).unwrap_or(true)
                && k.case_match.as_deref().map(|m| case_text.contains(m)).unwrap_or(true)
            {
                *self.state.lock().unwrap().known_hits.entry(i).or_default() += 1;
                return;
            }
        }
        let mut st = self.state.lock().unwrap();
        st.violations_total += 1;
        *st.violation_classes.entry(format!("{sub}/{class}")).or_default() += 1;
        st.subs.entry(sub.into()).or_default().violations += 1;
        let same_class = st.violations.iter().filter(|v| v.sub == sub && v.message.split(':').next() == Some(class.as_str())).count();
        if st.violations.len() < 8 && same_class < 2 && !self.is_replay() {
            let h = hash_of(&(sub, &case_text));
            let dir = self.root.join("replays").join(self.id);
            let _ = std::fs::create_dir_all(&dir);
            let path = dir.join(format!("{}-{:016x}.json", sub.replace(['/', ' '], "_"), h));
            let body = json!({
                "property": self.id, "sub": sub, "case": case, "message": message,
                "tier": if self.tier == Tier::Quick {"quick"} else {"thorough"}, "seed": self.seed,
            });
            let _ = std::fs::write(&path, serde_json::to_string_pretty(&body).unwrap());
            st.violations.push(ViolationRec { sub: sub.into(), message, replay: path.display().to_string() });
        } else if self.is_replay() {
            st.violations.push(ViolationRec { sub: sub.into(), message, replay: "<replayed>".into() });
        }
    }

    /// Declare and run a sub-check: `gen` emits every case (simplest first), `eval` decides one case.
    pub fn sub<C, G, E>(&self, name: &str, gen: G, eval: E)
    where
        C: Case,
        G: FnOnce(&mut dyn FnMut(C)),
        E: Fn(&C) -> Verdict + Sync,
    {
        self.sub_with(name, Opts::default(), gen, eval)
    }

    pub fn sub_with<C, G, E>(&self, name: &str, opts: Opts, gen: G, eval: E)
    where
        C: Case,
        G: FnOnce(&mut dyn FnMut(C)),
        E: Fn(&C) -> Verdict + Sync,
    {
        if let Some((sub, _)) = &self.replay {
            if sub != name {
                return;
            }
            let Some(case) = self.replay_case::<C>(name) else { return };
            let a = self.eval_one(name, &opts, 0, &case, &eval);
            let b = self.eval_one(name, &opts, 0, &case, &eval);
            let show = |r: &Result<Verdict, String>| match r {
                Ok(Ok(p)) => format!("pass[{}]", p.class),
                Ok(Err(m)) => format!("VIOLATION {m}"),
                Err(m) => format!("machinery {m}"),
            };
            if show(&a) != show(&b) {
                self.machinery_error(format!("replay is not deterministic: {} vs {}", show(&a), show(&b)));
            }
            println!("replay {name}: {}", show(&a));
            self.count(name, 1);
            match a {
                Ok(Err(m)) => self.record_violation(name, &serde_json::to_value(&case).unwrap(), m),
                Err(m) => self.machinery_error(m),
                Ok(Ok(_)) => {}
            }
            return;
        }
        let mut buf: Vec<C> = Vec::with_capacity(opts.chunk.min(1 << 16));
        let mut base = 0usize;
        let mut dropped = false;
        {
            let mut emit = |c: C| {
                if dropped {
                    return;
                }
                buf.push(c);
                if buf.len() >= opts.chunk {
                    self.eval_chunk(name, &opts, base, &buf, &eval);
                    base += buf.len();
                    buf.clear();
                    if self.over_budget() {
                        dropped = true;
                        self.cap_hit(format!("time budget reached in sub-check {name} after {base} cases"));
                    }
                }
            };
            gen(&mut emit);
        }
        if !buf.is_empty() {
            self.eval_chunk(name, &opts, base, &buf, &eval);
        }
    }

    fn eval_one<C: Case, E: Fn(&C) -> Verdict + Sync>(
        &self,
        name: &str,
        opts: &Opts,
        slot: usize,
        case: &C,
        eval: &E,
    ) -> Result<Verdict, String> {
        let guard = opts.watchdog.is_some() || opts.isolate;
        if guard {
            let text = serde_json::to_string(case).unwrap();
            if opts.isolate {
                let _ = std::fs::write(
                    scratch::base().join(format!("inflight.{slot}")),
                    json!({"sub": name, "case": serde_json::to_value(case).unwrap()}).to_string(),
                );
            }
            if let Some(limit) = opts.watchdog {
                self.start_watchdog();
                let mut g = INFLIGHT.lock().unwrap();
                if g.len() <= slot {
                    g.resize_with(slot + 1, || None);
                }
                g[slot] = Some(Inflight { since: Instant::now(), limit, sub: name.into(), case: text });
            }
        }
        QUIET.with(|q| q.set(q.get() + 1));
        let r = catch_unwind(AssertUnwindSafe(|| eval(case)));
        QUIET.with(|q| q.set(q.get() - 1));
        if guard {
            if opts.watchdog.is_some() {
                INFLIGHT.lock().unwrap()[slot] = None;
            }
            if opts.isolate {
                let _ = std::fs::remove_file(scratch::base().join(format!("inflight.{slot}")));
            }
        }
        match r {
            Ok(v) => Ok(v),
            Err(p) => match panic_message(p) {
                Ok(m) => Ok(Err(format!("panic: {m}"))),
                Err(m) => Err(m),
            },
        }
    }

    fn eval_chunk<C: Case, E: Fn(&C) -> Verdict + Sync>(&self, name: &str, opts: &Opts, base: usize, buf: &[C], eval: &E) {
        let threads = if opts.serial { 1 } else { self.threads.min(buf.len()).max(1) };
        let next = AtomicUsize::new(0);
        let block = (buf.len() / (threads * 8)).clamp(1, 256);
        let work = |slot: usize| -> LocalAcc {
            let mut acc =
                LocalAcc { evals: 0, nontrivial: Vec::new(), outcomes: BTreeMap::new(), bad: Vec::new(), machinery: Vec::new() };
            loop {
                let lo = next.fetch_add(block, Ordering::Relaxed);
                if lo >= buf.len() {
                    break;
                }
                for i in lo..(lo + block).min(buf.len()) {
                    acc.evals += 1;
                    match self.eval_one(name, opts, slot, &buf[i], eval) {
                        Ok(Ok(p)) => {
                            if p.nontrivial {
                                acc.nontrivial.push(hash_of(&(name, &buf[i])));
                            }
                            let e = acc.outcomes.entry(p.class.into_owned()).or_insert((0, i));
                            e.0 += 1;
                        }
                        Ok(Err(m)) => acc.bad.push((i, m)),
                        Err(m) => acc.machinery.push(m),
                    }
                }
            }
            acc
        };
        let accs: Vec<LocalAcc> = if threads == 1 {
            vec![work(SLOT_COUNTER.fetch_add(1, Ordering::Relaxed) % MAX_SLOTS)]
        } else {
            std::thread::scope(|s| {
                let hs: Vec<_> = (0..threads).map(|t| s.spawn(move || work(t))).collect();
                hs.into_iter().map(|h| h.join().expect("worker")).collect()
            })
        };
        let mut bad: Vec<(usize, String)> = Vec::new();
        {
            let mut st = self.state.lock().unwrap();
            if st.first_sample.is_none() {
                st.first_sample = Some(json!({"sub": name, "case": serde_json::to_value(&buf[0]).unwrap()}));
            }
            st.last_sample = Some(json!({"sub": name, "case": serde_json::to_value(&buf[buf.len() - 1]).unwrap()}));
            for acc in accs {
                st.evaluations += acc.evals;
                let ss = st.subs.entry(name.into()).or_default();
                ss.evaluations += acc.evals;
                let mut added = 0;
                for h in acc.nontrivial {
                    if st.nontrivial.insert(h) {
                        added += 1;
                    }
                }
                st.subs.get_mut(name).unwrap().nontrivial += added;
                for (class, (n, first)) in acc.outcomes {
                    *st.outcomes.entry(class.clone()).or_default() += n;
                    let key = format!("{name}/{class}");
                    if st.class_samples.len() < 24 && !st.class_samples.contains_key(&key) {
                        st.class_samples
                            .insert(key, json!({"sub": name, "outcome": class, "case": serde_json::to_value(&buf[first]).unwrap()}));
                    }
                }
                bad.extend(acc.bad);
                for m in acc.machinery {
                    eprintln!("MACHINERY: {m}");
                    st.machinery.push(m);
                }
            }
        }
        bad.sort();
        let _ = base;
        for (i, m) in bad {
            self.record_violation(name, &serde_json::to_value(&buf[i]).unwrap(), m);
        }
    }

    fn start_watchdog(&'_ self) {
        if WATCHDOG_STARTED.swap(true, Ordering::SeqCst) {
            return;
        }
        // SAFETY of lifetime: Run is leaked in main().
        let me: &'static Run = unsafe { &*(self as *const Run) };
        std::thread::spawn(move || loop {
            std::thread::sleep(Duration::from_millis(50));
            let mut hit = None;
            {
                let g = INFLIGHT.lock().unwrap();
                for f in g.iter().flatten() {
                    if f.since.elapsed() > f.limit {
                        hit = Some((f.sub.clone(), f.case.clone(), f.limit));
                        break;
                    }
                }
            }
            if let Some((sub, case, limit)) = hit {
                let case: Value = serde_json::from_str(&case).unwrap_or(Value::Null);
                // A verdict needs a reproducible case: the same case is run again on its own (fresh process, same deadline), up to
                // two times. A real hang (a loop that does not advance, a dead-lock on the default schedule) hangs again or fails;
                // a case that only stalled once (free-running OS threads, a starved machine) passes: it is then reported as NOT
                // JUDGED (cap, exhaustive=false), not as a violation.
                if !me.is_replay() && std::env::var_os("VERIF_NO_HANG_RETRY").is_none() && !me.hang_reproduces(&sub, &case, limit) {
                    me.cap_hit(format!(
                        "one case of sub-check {sub} was still running after {:.0}s but finished normally when run again on its own (twice): not judged, run stopped there; case {}",
                        limit.as_secs_f64(),
                        case.to_string().chars().take(300).collect::<String>()
                    ));
                    me.finish();
                }
                me.record_violation(&sub, &case, format!("hang: case still running after {:.1}s (deadline)", limit.as_secs_f64()));
                me.cap_hit("run stopped at the first hanging case");
                me.finish();
            }
        });
    }

    /// Run the case of a watchdog hit again in a process of its own. True = it hangs or fails again (or cannot be re-run).
    fn hang_reproduces(&self, sub: &str, case: &Value, limit: Duration) -> bool {
        let Ok(exe) = std::env::current_exe() else { return true };
        let dir = self.root.join("replays").join(self.id);
        let _ = std::fs::create_dir_all(&dir);
        let path = dir.join(format!("hang-retry-{}.json", std::process::id()));
        let body = json!({
            "property": self.id, "sub": sub, "case": case, "message": "hang: retry",
            "tier": if self.tier == Tier::Quick {"quick"} else {"thorough"}, "seed": self.seed,
        });
        if std::fs::write(&path, serde_json::to_string_pretty(&body).unwrap()).is_err() {
            return true;
        }
        let mut reproduced = false;
        for _ in 0..2 {
            let child = std::process::Command::new(&exe)
                .arg(self.id)
                .arg("--replay")
                .arg(&path)
                .env("VERIF_NO_HANG_RETRY", "1")
                .stdin(std::process::Stdio::null())
                .stdout(std::process::Stdio::null())
                .stderr(std::process::Stdio::null())
                .spawn();
            let Ok(mut child) = child else {
                reproduced = true;
                break;
            };
            let start = Instant::now();
            let status = loop {
                match child.try_wait() {
                    Ok(Some(st)) => break Some(st),
                    Ok(None) if start.elapsed() > limit * 2 + Duration::from_secs(30) => {
                        let _ = child.kill();
                        let _ = child.wait();
                        break None;
                    }
                    Ok(None) => std::thread::sleep(Duration::from_millis(100)),
                    Err(_) => break None,
                }
            };
            if status.map_or(true, |st| st.code() != Some(0)) {
                reproduced = true;
                break;
            }
        }
        let _ = std::fs::remove_file(&path);
        reproduced
    }

    /// Write evidence, print verdict lines, exit.
    pub fn finish(&self) -> ! {
        if self.finished.swap(true, Ordering::SeqCst) {
            // another thread is finishing; wait for it to exit the process
            loop {
                std::thread::sleep(Duration::from_secs(1));
            }
        }
        let st = self.state.lock().unwrap();
        let wall = self.start.elapsed().as_secs_f64();
        let mut samples: Vec<Value> = Vec::new();
        samples.extend(st.first_sample.clone());
        samples.extend(st.class_samples.values().cloned());
        samples.extend(st.extra_samples.iter().cloned());
        samples.extend(st.last_sample.clone());
        let mut cov = Map::new();
        cov.insert("evaluations".into(), json!(st.evaluations));
        cov.insert("distinct_nontrivial".into(), json!(st.nontrivial.len()));
        cov.insert("rule".into(), json!(st.rule.join(" | ")));
        cov.insert("samples".into(), Value::Array(samples));
        cov.insert("exhaustive".into(), json!(st.caps.is_empty()));
        cov.insert("caps_hit".into(), json!(st.caps));
        cov.insert("distinct_outcomes".into(), json!(st.outcomes));
        cov.insert(
            "sub_checks".into(),
            Value::Object(
                st.subs
                    .iter()
                    .map(|(k, s)| (k.clone(), json!({"evaluations": s.evaluations, "distinct_nontrivial": s.nontrivial, "violations": s.violations})))
                    .collect(),
            ),
        );
        if self.level == Level::ModelChecking || !st.states.is_empty() {
            cov.insert("states".into(), json!(st.states.len()));
            cov.insert("transitions".into(), json!(st.transitions));
            cov.insert("traces_validated_against_impl".into(), json!(st.validated));
        }
        let known_lines: Vec<String> = st
            .known_hits
            .iter()
            .map(|(i, n)| format!("KNOWN-FINDING: property={} {} [class={} hits={}]", self.id, self.known[*i].what, self.known[*i].class, n))
            .collect();
        cov.insert("known_findings_observed".into(), json!(known_lines));
        cov.insert("violation_classes".into(), json!(st.violation_classes));
        for (k, v) in &st.extra {
            cov.insert(k.clone(), v.clone());
        }
        let ev = json!({
            "property_id": self.id,
            "tier": if self.tier == Tier::Quick {"quick"} else {"thorough"},
            "seed": self.seed,
            "level": self.level.as_str(),
            "coverage": Value::Object(cov),
            "assumptions": st.assumptions,
            "wall_s": (wall * 1000.0).round() / 1000.0,
            "violations": st.violations_total,
            "machinery_errors": st.machinery,
        });
        if !self.is_replay() {
            let dir = self.root.join("evidence");
            let _ = std::fs::create_dir_all(&dir);
            if let Err(e) = std::fs::write(dir.join(format!("{}.json", self.id)), serde_json::to_string_pretty(&ev).unwrap() + "\n") {
                eprintln!("MACHINERY: cannot write evidence: {e}");
                scratch::cleanup();
                std::process::exit(2);
            }
        }
        for l in &known_lines {
            println!("{l}");
        }
        for v in &st.violations {
            println!("VIOLATION property={} replay={}", self.id, v.replay);
            println!("  sub={} {}", v.sub, v.message.chars().take(600).collect::<String>());
        }
        if !st.violation_classes.is_empty() {
            println!("violation classes: {:?}", st.violation_classes);
        }
        println!(
            "{} {} evaluations={} distinct_nontrivial={} outcomes={} states={} transitions={} violations={} exhaustive={} wall={:.1}s",
            self.id,
            if self.tier == Tier::Quick { "quick" } else { "thorough" },
            st.evaluations,
            st.nontrivial.len(),
            st.outcomes.len(),
            st.states.len(),
            st.transitions,
            st.violations_total,
            st.caps.is_empty(),
            wall
        );
        // a violation was observed on the real code: report it even if some other part of the machinery failed
        let code = if st.violations_total > 0 {
            1
        } else if !st.machinery.is_empty() {
            2
        } else {
            0
        };
        drop(st);
        scratch::cleanup();
        std::process::exit(code)
    }
}
