//! `B`: a byte string that serializes as readable text (`%XX` escapes) so replay files can be read by humans.
use serde::{Deserialize, Deserializer, Serialize, Serializer};

#[derive(Clone, PartialEq, Eq, Hash, PartialOrd, Ord, Default)]
pub struct B(pub Vec<u8>);

impl B {
    pub fn new(b: impl AsRef<[u8]>) -> Self {
        B(b.as_ref().to_vec())
    }
    pub fn as_slice(&self) -> &[u8] {
        &self.0
    }
}
impl std::ops::Deref for B {
    type Target = [u8];
    fn deref(&self) -> &[u8] {
        &self.0
    }
}
impl AsRef<[u8]> for B {
    fn as_ref(&self) -> &[u8] {
        &self.0
    }
}
impl From<Vec<u8>> for B {
    fn from(v: Vec<u8>) -> Self {
        B(v)
    }
}
impl From<&[u8]> for B {
    fn from(v: &[u8]) -> Self {
        B(v.to_vec())
    }
}
impl From<&str> for B {
    fn from(v: &str) -> Self {
        B(v.as_bytes().to_vec())
    }
}
pub fn escape(b: &[u8]) -> String {
    let mut s = String::with_capacity(b.len());
    for &c in b {
        if (0x20..0x7f).contains(&c) && c != b'%' {
            s.push(c as char);
        } else {
            s.push_str(&format!("%{c:02X}"));
        }
    }
    s
}
pub fn unescape(s: &str) -> Vec<u8> {
    let b = s.as_bytes();
    let mut out = Vec::with_capacity(b.len());
    let mut i = 0;
    while i < b.len() {
        if b[i] == b'%' && i + 3 <= b.len() && s.is_char_boundary(i + 1) && s.is_char_boundary(i + 3) {
            if let Ok(v) = u8::from_str_radix(&s[i + 1..i + 3], 16) {
                out.push(v);
                i += 3;
                continue;
            }
        }
        out.push(b[i]);
        i += 1;
    }
    out
}
impl std::fmt::Debug for B {
    fn fmt(&self, f: &mut std::fmt::Formatter<'_>) -> std::fmt::Result {
        write!(f, "b\"{}\"", escape(&self.0))
    }
}
impl Serialize for B {
    fn serialize<S: Serializer>(&self, s: S) -> Result<S::Ok, S::Error> {
        s.serialize_str(&escape(&self.0))
    }
}
impl<'de> Deserialize<'de> for B {
    fn deserialize<D: Deserializer<'de>>(d: D) -> Result<Self, D::Error> {
        let s = String::deserialize(d)?;
        Ok(B(unescape(&s)))
    }
}

#[cfg(test)]
mod tests {
    use super::*;
    #[test]
    fn roundtrip() {
        for v in [&b""[..], b"a%b", b"\x00\xff%", b"%4", b"abc%", b"%%41"] {
            assert_eq!(unescape(&escape(v)), v);
        }
    }
}
