//! The installed git binary as an oracle. Environment is isolated from the host configuration.
use std::io::Write;
use std::path::Path;
use std::process::{Command, Stdio};

pub struct Out {
    pub ok: bool,
    pub code: Option<i32>,
    pub stdout: Vec<u8>,
    pub stderr: Vec<u8>,
}
impl Out {
    pub fn text(&self) -> String {
        String::from_utf8_lossy(&self.stdout).trim_end().to_string()
    }
    pub fn err_text(&self) -> String {
        String::from_utf8_lossy(&self.stderr).trim_end().to_string()
    }
}

/// A `git` command with a hermetic environment, running in `dir`.
pub fn cmd(dir: &Path) -> Command {
    let mut c = Command::new("git");
    c.current_dir(dir);
    for (k, _) in std::env::vars_os() {
        if k.to_string_lossy().starts_with("GIT_") {
            c.env_remove(k);
        }
    }
    c.env("GIT_CONFIG_NOSYSTEM", "1")
        .env("GIT_CONFIG_GLOBAL", "/dev/null")
        .env("HOME", crate::scratch::base())
        .env("XDG_CONFIG_HOME", crate::scratch::base().join("xdg"))
        .env("GIT_AUTHOR_NAME", "A U Thor")
        .env("GIT_AUTHOR_EMAIL", "author@example.com")
        .env("GIT_AUTHOR_DATE", "1112911993 +0100")
        .env("GIT_COMMITTER_NAME", "C O Mitter")
        .env("GIT_COMMITTER_EMAIL", "committer@example.com")
        .env("GIT_COMMITTER_DATE", "1112911993 +0100")
        .env("GIT_TERMINAL_PROMPT", "0")
        .env("GIT_ADVICE", "0")
        .env("LC_ALL", "C")
        .env("TZ", "UTC")
        .arg("-c")
        .arg("init.defaultBranch=main")
        .arg("-c")
        .arg("protocol.file.allow=always");
    c
}

pub fn run_cmd(mut c: Command, stdin: Option<&[u8]>) -> Out {
    c.stdin(if stdin.is_some() { Stdio::piped() } else { Stdio::null() }).stdout(Stdio::piped()).stderr(Stdio::piped());
    let mut child = match c.spawn() {
        Ok(c) => c,
        Err(e) => crate::machinery!("cannot spawn git: {e}"),
    };
    let mut writer = None;
    if let Some(data) = stdin {
        let mut si = child.stdin.take().unwrap();
        let data = data.to_vec();
        writer = Some(std::thread::spawn(move || {
            let _ = si.write_all(&data);
        }));
    }
    let out = child.wait_with_output().unwrap_or_else(|e| crate::machinery!("git wait: {e}"));
    if let Some(w) = writer {
        let _ = w.join();
    }
    Out { ok: out.status.success(), code: out.status.code(), stdout: out.stdout, stderr: out.stderr }
}

/// Run git; any outcome is returned (use when git refusing is a legitimate oracle answer).
pub fn try_git<S: AsRef<std::ffi::OsStr>>(dir: &Path, args: &[S]) -> Out {
    let mut c = cmd(dir);
    c.args(args);
    run_cmd(c, None)
}
pub fn try_git_in<S: AsRef<std::ffi::OsStr>>(dir: &Path, args: &[S], stdin: &[u8]) -> Out {
    let mut c = cmd(dir);
    c.args(args);
    run_cmd(c, Some(stdin))
}
/// Run git and require success (fixture construction): failure is a machinery error, never a verdict.
pub fn git<S: AsRef<std::ffi::OsStr>>(dir: &Path, args: &[S]) -> Vec<u8> {
    let o = try_git(dir, args);
    if !o.ok {
        let a: Vec<String> = args.iter().map(|s| s.as_ref().to_string_lossy().into_owned()).collect();
        crate::machinery!("git {:?} failed in {}: {}", a, dir.display(), o.err_text());
    }
    o.stdout
}
pub fn git_in<S: AsRef<std::ffi::OsStr>>(dir: &Path, args: &[S], stdin: &[u8]) -> Vec<u8> {
    let o = try_git_in(dir, args, stdin);
    if !o.ok {
        let a: Vec<String> = args.iter().map(|s| s.as_ref().to_string_lossy().into_owned()).collect();
        crate::machinery!("git {:?} failed in {}: {}", a, dir.display(), o.err_text());
    }
    o.stdout
}
/// stdout as trimmed text
pub fn git_text<S: AsRef<std::ffi::OsStr>>(dir: &Path, args: &[S]) -> String {
    String::from_utf8_lossy(&git(dir, args)).trim_end().to_string()
}
/// `git init` a repository in `dir` (creates it).
pub fn init(dir: &Path) {
    std::fs::create_dir_all(dir).unwrap_or_else(|e| crate::machinery!("mkdir {}: {e}", dir.display()));
    git(dir, &["init", "-q", "."]);
}
pub fn init_bare(dir: &Path) {
    std::fs::create_dir_all(dir).unwrap_or_else(|e| crate::machinery!("mkdir {}: {e}", dir.display()));
    git(dir, &["init", "-q", "--bare", "."]);
}
