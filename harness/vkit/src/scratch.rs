//! Scratch directories under /dev/shm/verif.<pid> (falls back to the system temp dir), removed on exit.
use std::path::{Path, PathBuf};
use std::sync::atomic::{AtomicU64, Ordering};
use std::sync::OnceLock;

static BASE: OnceLock<PathBuf> = OnceLock::new();
static N: AtomicU64 = AtomicU64::new(0);

pub fn init() {
    base();
}
pub fn base() -> &'static Path {
    BASE.get_or_init(|| {
        let root = if Path::new("/dev/shm").is_dir() && std::fs::metadata("/dev/shm").map(|m| !m.permissions().readonly()).unwrap_or(false) {
            PathBuf::from("/dev/shm")
        } else {
            std::env::temp_dir()
        };
        let p = root.join(format!("verif.{}", std::process::id()));
        let _ = std::fs::remove_dir_all(&p);
        std::fs::create_dir_all(&p).expect("create scratch base");
        p
    })
}
pub fn cleanup() {
    if let Some(b) = BASE.get() {
        let _ = std::fs::remove_dir_all(b);
    }
}

/// A fresh empty directory, removed when dropped.
pub struct Dir(pub PathBuf);
impl Dir {
    pub fn new(tag: &str) -> Dir {
        let p = base().join(format!("{tag}.{}", N.fetch_add(1, Ordering::Relaxed)));
        std::fs::create_dir_all(&p).expect("create scratch dir");
        Dir(p)
    }
    pub fn path(&self) -> &Path {
        &self.0
    }
    pub fn join(&self, p: impl AsRef<Path>) -> PathBuf {
        self.0.join(p)
    }
    /// keep the directory (for fixtures shared by a whole run; still removed by `cleanup` at exit)
    pub fn keep(self) -> PathBuf {
        let p = self.0.clone();
        std::mem::forget(self);
        p
    }
}
impl Drop for Dir {
    fn drop(&mut self) {
        let _ = std::fs::remove_dir_all(&self.0);
    }
}

/// Recursively copy a directory tree (files, dirs, symlinks).
pub fn copy_tree(from: &Path, to: &Path) -> std::io::Result<()> {
    std::fs::create_dir_all(to)?;
    for e in std::fs::read_dir(from)? {
        let e = e?;
        let ft = e.file_type()?;
        let dst = to.join(e.file_name());
        if ft.is_dir() {
            copy_tree(&e.path(), &dst)?;
        } else if ft.is_symlink() {
            std::os::unix::fs::symlink(std::fs::read_link(e.path())?, &dst)?;
        } else {
            std::fs::copy(e.path(), &dst)?;
        }
    }
    Ok(())
}

/// Snapshot of a directory tree: relative path -> (kind, mode, bytes / link target). Sorted.
pub fn snapshot(root: &Path) -> std::collections::BTreeMap<String, (char, u32, Vec<u8>)> {
    use std::os::unix::fs::PermissionsExt;
    fn walk(root: &Path, dir: &Path, out: &mut std::collections::BTreeMap<String, (char, u32, Vec<u8>)>) {
        let Ok(rd) = std::fs::read_dir(dir) else { return };
        for e in rd.flatten() {
            let p = e.path();
            let rel = {
                use std::os::unix::ffi::OsStrExt;
                crate::bytes::escape(p.strip_prefix(root).unwrap().as_os_str().as_bytes())
            };
            let Ok(md) = std::fs::symlink_metadata(&p) else { continue };
            let mode = md.permissions().mode() & 0o7777;
            if md.file_type().is_symlink() {
                use std::os::unix::ffi::OsStrExt;
                out.insert(rel, ('l', 0, std::fs::read_link(&p).map(|t| t.as_os_str().as_bytes().to_vec()).unwrap_or_default()));
            } else if md.is_dir() {
                out.insert(rel, ('d', mode, Vec::new()));
                walk(root, &p, out);
            } else {
                out.insert(rel, ('f', mode, std::fs::read(&p).unwrap_or_default()));
            }
        }
    }
    let mut out = Default::default();
    walk(root, root, &mut out);
    out
}
