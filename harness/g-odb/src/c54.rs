//! C54 — gix_fsck::Connectivity reports exactly the missing objects reachable through present trees, each once
//! (E1: all small histories x every subset of deleted trees/blobs; in-memory and real loose object databases).
use gix_hash::ObjectId;
use gix_object::Kind;
use serde::{Deserialize, Serialize};
use std::collections::{BTreeMap, BTreeSet, HashMap, HashSet};
use std::path::PathBuf;
use std::sync::atomic::{AtomicU64, Ordering};
use vkit::{bad, ok, ok_trivial, Run, Verdict};

/// the three paths of every tree state: a top-level entry, an entry two directories deep, and an entry in a top-level directory whose
/// name equals the inner directory — so `d/e` and `e` are the SAME tree object when both hold the same `c`.
const PATHS: [&str; 3] = ["a", "d/e/c", "e/c"];
const GITLINK: &str = "1111111111111111111111111111111111111111";

/// entry codes: 0 absent, 1 blob "X" 100644, 2 blob "Y" 100644, 3 blob "X" 100755, 4 symlink whose target text is "X" (the same blob id as 1),
/// 5 gitlink (submodule commit that is in no object database), 6 blob "Y" 100755
fn entry_line(code: u8, path: &str) -> String {
    match code {
        0 => String::new(),
        1 => format!("M 100644 inline {path}\ndata 2\nX\n"),
        2 => format!("M 100644 inline {path}\ndata 2\nY\n"),
        3 => format!("M 100755 inline {path}\ndata 2\nX\n"),
        4 => format!("M 120000 inline {path}\ndata 2\nX\n"),
        5 => format!("M 160000 {GITLINK} {path}\n"),
        6 => format!("M 100755 inline {path}\ndata 2\nY\n"),
        _ => vkit::machinery!("bad entry code {code}"),
    }
}

/// a history: one tree state (entry code per path) per commit, oldest first
type Hist = Vec<Vec<u8>>;

#[derive(Serialize, Deserialize, Hash, Clone, Debug)]
struct Case {
    hist: Hist,
    /// (every case runs the check twice with a fresh Connectivity instance: check_commit newest commit first, and oldest first)
    /// bit i = object i of the history's universe is deleted; universe = the commits oldest first, then all trees and blobs reachable
    /// from them sorted by id
    deleted: u32,
    /// false: in-memory object database (raw objects as git wrote them); true: a real loose-only objects directory opened with gix_odb::at
    loose: bool,
    /// also run `git fsck --connectivity-only` on the loose directory and compare it with the reference models
    git: bool,
}

struct Fx {
    /// a second, loose-only repository holding the histories of the subs that work on real object directories
    loose_dir: PathBuf,
    objs: HashMap<ObjectId, (Kind, Vec<u8>)>,
    commit_of: HashMap<CommitKey, ObjectId>,
    /// harness-side parse of every commit (its root tree) and tree ((octal mode, id) per entry)
    root_of: HashMap<ObjectId, ObjectId>,
    entries_of: HashMap<ObjectId, Vec<(u32, ObjectId)>>,
}

fn parse_id(s: &str) -> ObjectId {
    ObjectId::from_hex(s.trim().as_bytes()).unwrap_or_else(|_| vkit::machinery!("bad object id {s:?}"))
}

/// (tree state, position in the history) -> commit
type CommitKey = (Vec<u8>, usize);

/// One parentless commit per (tree state, position i in a history; message "c<i>") in one `git fast-import`; commit ids are a function of the
/// key. (`Connectivity::check_commit` never reads parents, the caller decides which commits to check; so a history is a sequence of such
/// commits.) `loose_only`: git leaves only loose objects (fastimport.unpackLimit).
fn import(hists: &[Hist], loose_only: bool) -> (PathBuf, HashMap<CommitKey, ObjectId>) {
    let dir = vkit::scratch::Dir::new("c54").keep();
    vkit::git::init_bare(&dir);
    let mut keys: Vec<CommitKey> = Vec::new();
    let mut known: HashSet<CommitKey> = HashSet::new();
    for h in hists {
        for (i, st) in h.iter().enumerate() {
            if known.insert((st.clone(), i)) {
                keys.push((st.clone(), i));
            }
        }
    }
    let mut mark_of: HashMap<CommitKey, usize> = HashMap::new();
    let mut stream = String::new();
    for (k, key) in keys.iter().enumerate() {
        let mark = k + 1;
        mark_of.insert(key.clone(), mark);
        let msg = format!("c{}\n", key.1);
        stream.push_str(&format!(
            "reset refs/h/tip\n\ncommit refs/h/tip\nmark :{mark}\ncommitter C O Mitter <committer@example.com> {} +0000\ndata {}\n{msg}deleteall\n",
            1_500_000_000 + key.1,
            msg.len()
        ));
        for (slot, &code) in key.0.iter().enumerate() {
            stream.push_str(&entry_line(code, PATHS[slot]));
        }
        stream.push('\n');
    }
    let marks = dir.join("marks");
    {
        let mut c = vkit::git::cmd(&dir);
        c.args(["-c", if loose_only { "fastimport.unpackLimit=2000000000" } else { "fastimport.unpackLimit=0" }, "fast-import", "--quiet", "--force", "--done", &format!("--export-marks={}", marks.display())]);
        let o = vkit::git::run_cmd(c, Some(format!("{stream}done\n").as_bytes()));
        if !o.ok {
            vkit::machinery!("fast-import failed: {}", o.err_text());
        }
    }
    if loose_only && std::fs::read_dir(dir.join("objects/pack")).map(|d| d.count()).unwrap_or(0) != 0 {
        vkit::machinery!("fixture object database is not loose-only");
    }
    let text = std::fs::read_to_string(&marks).unwrap_or_else(|e| vkit::machinery!("marks: {e}"));
    let mut by_mark: HashMap<usize, ObjectId> = HashMap::new();
    for l in text.lines() {
        let (m, hex) = l.split_once(' ').unwrap_or_else(|| vkit::machinery!("bad marks line {l}"));
        by_mark.insert(m.trim_start_matches(':').parse().unwrap_or_else(|_| vkit::machinery!("bad mark {l}")), parse_id(hex));
    }
    let commit_of: HashMap<CommitKey, ObjectId> =
        mark_of.into_iter().map(|(p, m)| (p, *by_mark.get(&m).unwrap_or_else(|| vkit::machinery!("mark {m} missing")))).collect();
    (dir, commit_of)
}

fn build(hists: &[Hist], loose_hists: &[Hist]) -> Fx {
    let (dir, commit_of) = import(hists, false);
    let (loose_dir, loose_commits) = import(loose_hists, true);
    for (h, id) in &loose_commits {
        if commit_of.get(h) != Some(id) {
            vkit::machinery!("commit ids of the two fixture repositories differ for {h:?}");
        }
    }
    // raw objects exactly as git stores them
    let out = vkit::git::git(&dir, &["cat-file", "--batch", "--batch-all-objects", "--unordered"]);
    let mut objs = HashMap::new();
    let mut at = 0usize;
    while at < out.len() {
        let nl = out[at..].iter().position(|&b| b == b'\n').unwrap_or_else(|| vkit::machinery!("cat-file output truncated")) + at;
        let head = String::from_utf8_lossy(&out[at..nl]).to_string();
        let f: Vec<&str> = head.split(' ').collect();
        if f.len() != 3 {
            vkit::machinery!("bad cat-file header {head:?}");
        }
        let size: usize = f[2].parse().unwrap_or_else(|_| vkit::machinery!("bad size in {head:?}"));
        let kind = match f[1] {
            "blob" => Kind::Blob,
            "tree" => Kind::Tree,
            "commit" => Kind::Commit,
            other => vkit::machinery!("unexpected object type {other}"),
        };
        let data = out.get(nl + 1..nl + 1 + size).unwrap_or_else(|| vkit::machinery!("cat-file output truncated")).to_vec();
        objs.insert(parse_id(f[0]), (kind, data));
        at = nl + 1 + size + 1;
    }
    let mut root_of = HashMap::new();
    let mut entries_of = HashMap::new();
    for (id, (kind, data)) in &objs {
        match kind {
            Kind::Commit => {
                root_of.insert(*id, commit_tree(data));
            }
            Kind::Tree => {
                entries_of.insert(*id, tree_entries(data));
            }
            _ => {}
        }
    }
    Fx { loose_dir, objs, commit_of, root_of, entries_of }
}

// ------------------------------------------------------------------ harness-side object parsing (independent of gitoxide's decoders)

fn commit_tree(data: &[u8]) -> ObjectId {
    let text = String::from_utf8_lossy(data);
    let l = text.lines().next().unwrap_or_default();
    parse_id(l.strip_prefix("tree ").unwrap_or_else(|| vkit::machinery!("commit does not start with a tree line")))
}

/// (octal mode, id) per entry
fn tree_entries(data: &[u8]) -> Vec<(u32, ObjectId)> {
    let mut out = Vec::new();
    let mut at = 0;
    while at < data.len() {
        let sp = data[at..].iter().position(|&b| b == b' ').unwrap_or_else(|| vkit::machinery!("bad tree")) + at;
        let mode = u32::from_str_radix(&String::from_utf8_lossy(&data[at..sp]), 8).unwrap_or_else(|_| vkit::machinery!("bad tree mode"));
        let nul = data[sp..].iter().position(|&b| b == 0).unwrap_or_else(|| vkit::machinery!("bad tree")) + sp;
        let id = ObjectId::from_bytes_or_panic(data.get(nul + 1..nul + 21).unwrap_or_else(|| vkit::machinery!("bad tree")));
        out.push((mode, id));
        at = nul + 21;
    }
    out
}

impl Fx {
    fn obj(&self, id: &ObjectId) -> &(Kind, Vec<u8>) {
        self.objs.get(id).unwrap_or_else(|| vkit::machinery!("object {id} not in fixture"))
    }
    fn root(&self, commit: &ObjectId) -> ObjectId {
        *self.root_of.get(commit).unwrap_or_else(|| vkit::machinery!("commit {commit} not in fixture"))
    }
    fn entries(&self, tree: &ObjectId) -> &[(u32, ObjectId)] {
        self.entries_of.get(tree).unwrap_or_else(|| vkit::machinery!("tree {tree} not in fixture"))
    }
    fn commits(&self, h: &Hist) -> Vec<ObjectId> {
        h.iter().enumerate().map(|(i, st)| *self.commit_of.get(&(st.clone(), i)).unwrap_or_else(|| vkit::machinery!("history not in fixture: {h:?}"))).collect()
    }
    /// the commits oldest first, then every tree/blob in their closure sorted by id
    fn universe(&self, h: &Hist) -> Vec<ObjectId> {
        let commits = self.commits(h);
        let mut set: BTreeSet<ObjectId> = BTreeSet::new();
        let mut stack: Vec<ObjectId> = commits.iter().map(|c| self.root(c)).collect();
        while let Some(t) = stack.pop() {
            if !set.insert(t) {
                continue;
            }
            for &(mode, id) in self.entries(&t) {
                match mode {
                    0o40000 => stack.push(id),
                    0o160000 => {}
                    _ => {
                        set.insert(id);
                    }
                }
            }
        }
        let mut u = commits;
        u.extend(set);
        u
    }
}

struct Model {
    /// what a connectivity check of `order` must report
    missing: BTreeMap<ObjectId, Kind>,
    /// how often a reported object is referenced from present reachable objects (>1 = the seen-set is what keeps it reported once)
    max_refs: usize,
    /// deleted objects that must NOT be reported because every path to them leads through a deleted tree (or commit)
    hidden: usize,
}

fn model(fx: &Fx, order: &[ObjectId], deleted: &HashSet<ObjectId>) -> Model {
    let mut missing = BTreeMap::new();
    let mut refs: HashMap<ObjectId, usize> = HashMap::new();
    let mut visited: HashSet<ObjectId> = HashSet::new();
    for c in order {
        if deleted.contains(c) {
            continue;
        }
        let mut stack = vec![fx.root(c)];
        *refs.entry(stack[0]).or_default() += 1;
        while let Some(t) = stack.pop() {
            if deleted.contains(&t) {
                missing.insert(t, Kind::Tree);
                continue;
            }
            if !visited.insert(t) {
                continue;
            }
            for &(mode, id) in fx.entries(&t) {
                match mode {
                    0o40000 => {
                        *refs.entry(id).or_default() += 1;
                        stack.push(id);
                    }
                    0o160000 => {}
                    _ => {
                        *refs.entry(id).or_default() += 1;
                        if deleted.contains(&id) {
                            missing.insert(id, Kind::Blob);
                        }
                    }
                }
            }
        }
    }
    let max_refs = missing.keys().map(|k| refs[k]).max().unwrap_or(0);
    let hidden = deleted.iter().filter(|d| fx.obj(d).0 != Kind::Commit && !missing.contains_key(*d)).count();
    Model { missing, max_refs, hidden }
}

/// object database over the fixture's raw objects minus the deleted ones
struct MemDb<'a> {
    fx: &'a Fx,
    deleted: &'a HashSet<ObjectId>,
}
impl gix_object::Find for MemDb<'_> {
    fn try_find<'a>(&self, id: &gix_hash::oid, buffer: &'a mut Vec<u8>) -> Result<Option<gix_object::Data<'a>>, gix_object::find::Error> {
        let id = id.to_owned();
        if self.deleted.contains(&id) {
            return Ok(None);
        }
        match self.fx.objs.get(&id) {
            None => Ok(None),
            Some((kind, data)) => {
                buffer.clear();
                buffer.extend_from_slice(data);
                Ok(Some(gix_object::Data { kind: *kind, data: buffer }))
            }
        }
    }
}
impl gix_object::Exists for MemDb<'_> {
    fn exists(&self, id: &gix_hash::oid) -> bool {
        let id = id.to_owned();
        !self.deleted.contains(&id) && self.fx.objs.contains_key(&id)
    }
}

/// run the real connectivity check: (callback invocations in order, per commit: did check_commit fail?)
fn connectivity<T: gix_object::Find + gix_object::Exists>(db: T, order: &[ObjectId]) -> (Vec<(ObjectId, Kind)>, Vec<Option<String>>) {
    let mut reported = Vec::new();
    let mut results = Vec::new();
    {
        let mut check = gix_fsck::Connectivity::new(db, |id: &ObjectId, kind: Kind| reported.push((*id, kind)));
        for c in order {
            results.push(check.check_commit(c).err().map(|e| e.to_string()));
        }
    }
    (reported, results)
}

/// a loose-only objects directory holding the universe minus the deleted objects (hard links to the files git wrote)
fn materialize(fx: &Fx, universe: &[ObjectId], deleted: &HashSet<ObjectId>) -> vkit::scratch::Dir {
    let dir = vkit::scratch::Dir::new("c54case");
    for p in ["objects/info", "objects/pack", "refs/heads"] {
        std::fs::create_dir_all(dir.join(p)).unwrap_or_else(|e| vkit::machinery!("mkdir: {e}"));
    }
    std::fs::write(dir.join("HEAD"), "ref: refs/heads/main\n").unwrap_or_else(|e| vkit::machinery!("write HEAD: {e}"));
    std::fs::write(dir.join("config"), "[core]\n\trepositoryformatversion = 0\n\tbare = true\n").unwrap_or_else(|e| vkit::machinery!("write config: {e}"));
    for id in universe {
        if deleted.contains(id) {
            continue;
        }
        let hex = id.to_string();
        let sub = dir.join("objects").join(&hex[..2]);
        std::fs::create_dir_all(&sub).unwrap_or_else(|e| vkit::machinery!("mkdir: {e}"));
        let from = fx.loose_dir.join("objects").join(&hex[..2]).join(&hex[2..]);
        std::fs::hard_link(&from, sub.join(&hex[2..])).or_else(|_| std::fs::copy(&from, sub.join(&hex[2..])).map(|_| ())).unwrap_or_else(|e| vkit::machinery!("link {}: {e}", from.display()));
    }
    dir
}

fn states(alpha: [&[u8]; 3]) -> Vec<Vec<u8>> {
    let mut out = Vec::new();
    for &a in alpha[0] {
        for &b in alpha[1] {
            for &c in alpha[2] {
                out.push(vec![a, b, c]);
            }
        }
    }
    out
}

fn histories(states: &[Vec<u8>], max_len: usize) -> Vec<Hist> {
    let mut out = Vec::new();
    vkit::enumerate::seqs(states, 1, max_len, |s| out.push(s.to_vec()));
    out
}

pub fn run(run: &'static Run) {
    let quick = run.quick();
    run.rule(
        "histories: sequences of <=3 commits (parentless — check_commit never reads parents, the caller chooses the commits; commit i has message c<i>); each commit's tree is a state over the 3 paths a, d/e/c, e/c (root with blob + two directories, a nested \
         directory; d/e and e are the same tree object when their c agree). Families: plain = each path in {absent, blob X, blob Y} (27 states); \
         modes = a in {absent, X, X executable, symlink with target text X (= blob X), gitlink}, d/e/c in {absent, X, Y, symlink, gitlink}, e/c in {absent, X, Y} \
         (75 states); tiny = each path in {absent, X} (8 states). Deletions: EVERY subset of the trees and blobs in the closure of the history (<=11 objects; \
         includes root trees and the empty tree). Every case runs twice: one Connectivity instance, check_commit on every commit newest-first; a fresh instance, oldest-first. \
         Sub mem (in-memory object database over the raw objects git wrote): quick plain len<=2 + tiny len 3 + modes len 1; thorough plain len<=3 + modes len<=2. \
         Sub loose (real loose-only objects directory, gix_odb::at): quick plain len 1 + tiny len 2; thorough plain len<=2 + modes len 1. \
         Sub commits-deleted (mem): quick plain len 1 + tiny len<=2, thorough plain len<=2; every subset of ALL objects containing at least one commit. \
         Sub git-crosscheck (loose + git fsck): quick tiny len 1; thorough plain len 1 + tiny len 2. non-trivial = at least one object deleted",
    );
    run.assume("oracle = reference model in the harness (own parsers for commit/tree objects): reported set == deleted objects reachable from the present commits through present trees, kind Tree if referenced with mode 040000 else Blob, gitlinks never; every object reported exactly once per Connectivity instance; check_commit returns Ok for every present commit");
    run.assume("missing COMMITS are outside the property statement; the documented behaviour (check_commit returns an error, nothing is reported for that commit, other commits unaffected) is checked in sub commits-deleted");
    run.assume("the reference model is cross-checked with git 2.39.5 `fsck --connectivity-only --no-dangling` ('missing <kind> <id>' lines, one ref per commit) on every case of sub git-crosscheck; a model/git disagreement is a machinery error. (`git rev-list --missing=print` is not used: it treats the empty tree as always present.)");
    run.budget_secs(run.pick(36.0, 560.0));

    let plain = states([&[0, 1, 2], &[0, 1, 2], &[0, 1, 2]]);
    let modes = states([&[0, 1, 3, 4, 5], &[0, 1, 2, 4, 5], &[0, 1, 2]]);
    let tiny = states([&[0, 1], &[0, 1], &[0, 1]]);
    let dedup = |v: Vec<Hist>| -> Vec<Hist> {
        let mut seen = HashSet::new();
        v.into_iter().filter(|h| seen.insert(h.clone())).collect()
    };
    let cat = |parts: Vec<Vec<Hist>>| dedup(parts.into_iter().flatten().collect());
    let mut mem = if quick { cat(vec![histories(&plain, 2), histories(&tiny, 3), histories(&modes, 1)]) } else { cat(vec![histories(&plain, 3), histories(&modes, 2)]) };
    let mut loose = if quick { cat(vec![histories(&plain, 1), histories(&tiny, 2)]) } else { cat(vec![histories(&plain, 2), histories(&modes, 1)]) };
    let mut commits_deleted = if quick { cat(vec![histories(&plain, 1), histories(&tiny, 2)]) } else { histories(&plain, 2) };
    let mut gitx = if quick { histories(&tiny, 1) } else { cat(vec![histories(&plain, 1), histories(&tiny, 2)]) };
    for sub in ["mem", "loose", "commits-deleted", "git-crosscheck"] {
        if let Some(c) = run.replay_case::<Case>(sub) {
            mem = vec![c.hist.clone()];
            loose.clear();
            commits_deleted.clear();
            gitx.clear();
        }
    }
    if run.is_replay() {
        loose = mem.clone();
    }
    let t0 = std::time::Instant::now();
    let fx = build(&cat(vec![mem.clone(), loose.clone(), commits_deleted.clone(), gitx.clone()]), &cat(vec![loose.clone(), gitx.clone()]));
    run.cov("secs_fixture", t0.elapsed().as_secs_f64());
    run.cov("fixture_objects", fx.objs.len());
    run.cov("histories_mem", mem.len());
    run.cov("histories_loose", loose.len());
    let fx = &fx;

    static HIDDEN: AtomicU64 = AtomicU64::new(0);
    static MULTI_REF: AtomicU64 = AtomicU64::new(0);
    static ROOT_MISSING: AtomicU64 = AtomicU64::new(0);
    static GIT_CALLS: AtomicU64 = AtomicU64::new(0);
    static GIT_AGREES: AtomicU64 = AtomicU64::new(0);
    static CHECK_COMMIT_CALLS: AtomicU64 = AtomicU64::new(0);

    let eval = |c: &Case| -> Verdict {
        let universe = fx.universe(&c.hist);
        if universe.len() > 31 || c.deleted >> universe.len() != 0 {
            vkit::machinery!("bad case: {} objects, mask {:#x}", universe.len(), c.deleted);
        }
        let k = c.hist.len();
        let deleted: HashSet<ObjectId> = universe.iter().enumerate().filter(|(i, _)| c.deleted >> i & 1 == 1).map(|(_, id)| *id).collect();
        let name = |id: &ObjectId| -> String {
            let i = universe.iter().position(|u| u == id);
            match i {
                Some(i) if i < k => format!("commit#{i}"),
                Some(_) => format!("{} {}", fx.obj(id).0, id.to_hex_with_len(8)),
                None => format!("foreign {id}"),
            }
        };
        let case_dir = c.loose.then(|| materialize(fx, &universe, &deleted));
        let mut last: Option<Model> = None;
        for newest_first in [true, false] {
            if !newest_first && k == 1 {
                continue;
            }
        let mut order: Vec<ObjectId> = universe[..k].to_vec();
        if newest_first {
            order.reverse();
        }
        let how = if newest_first { "newest commit first" } else { "oldest commit first" };
        let m = model(fx, &order, &deleted);
        let (reported, results) = if let Some(case_dir) = &case_dir {
            let db = match gix_odb::at(case_dir.join("objects")) {
                Ok(db) => db,
                Err(e) => vkit::machinery!("gix_odb::at failed: {e}"),
            };
            if c.git && newest_first {
                for (i, id) in universe[..k].iter().enumerate() {
                    std::fs::write(case_dir.join(format!("refs/heads/c{i}")), format!("{id}\n")).unwrap_or_else(|e| vkit::machinery!("write ref: {e}"));
                }
                let out = vkit::git::try_git(case_dir.path(), &["-c", "core.commitGraph=false", "-c", "core.multiPackIndex=false", "fsck", "--connectivity-only", "--no-dangling"]);
                GIT_CALLS.fetch_add(1, Ordering::Relaxed);
                let mut git_missing: BTreeMap<ObjectId, Kind> = BTreeMap::new();
                for l in out.text().lines().chain(out.err_text().lines()) {
                    if let Some(rest) = l.strip_prefix("missing ") {
                        let (kind, hex) = rest.split_once(' ').unwrap_or_else(|| vkit::machinery!("bad fsck line {l:?}"));
                        let kind = match kind {
                            "tree" => Kind::Tree,
                            "blob" => Kind::Blob,
                            other => vkit::machinery!("git fsck misses a {other}"),
                        };
                        git_missing.insert(parse_id(hex), kind);
                    }
                }
                if git_missing != m.missing {
                    vkit::machinery!("git fsck disagrees with the reference model: git {git_missing:?}, model {:?}, case {c:?}", m.missing);
                }
                if out.ok != git_missing.is_empty() {
                    vkit::machinery!("git fsck exit status {:?} with {} missing objects: {}", out.code, git_missing.len(), out.err_text());
                }
                GIT_AGREES.fetch_add(1, Ordering::Relaxed);
            }
            connectivity(db, &order)
        } else {
            connectivity(MemDb { fx, deleted: &deleted }, &order)
        };
        CHECK_COMMIT_CALLS.fetch_add(order.len() as u64, Ordering::Relaxed);
        // check_commit results
        for (c_id, r) in order.iter().zip(&results) {
            match (deleted.contains(c_id), r) {
                (false, Some(e)) => return bad("commit-error", format!("{how}: check_commit({}) failed although the commit is present: {e}", name(c_id))),
                (true, None) => return bad("missing-commit-ok", format!("{how}: check_commit({}) returned Ok although the commit object is missing", name(c_id))),
                _ => {}
            }
        }
        // each once
        let mut seen: HashMap<ObjectId, Kind> = HashMap::new();
        for (id, kind) in &reported {
            if seen.insert(*id, *kind).is_some() {
                return bad("duplicate", format!("{how}: {} reported more than once; reports: {:?}", name(id), reported.iter().map(|(i, _)| name(i)).collect::<Vec<_>>()));
            }
        }
        // exactly the model's set
        for (id, kind) in &m.missing {
            match seen.get(id) {
                None => return bad("missed", format!("{how}: {} is missing and reachable through present trees but was not reported; reports: {:?}", name(id), reported.iter().map(|(i, _)| name(i)).collect::<Vec<_>>())),
                Some(k2) if k2 != kind => return bad("wrong-kind", format!("{how}: {} reported as {k2}, referenced as {kind}", name(id))),
                _ => {}
            }
        }
        for (id, _) in &reported {
            if !m.missing.contains_key(id) {
                let why = if deleted.contains(id) { "is only referenced from missing trees" } else { "is present" };
                return bad("spurious", format!("{how}: {} was reported but {why}; expected {:?}", name(id), m.missing.keys().map(&name).collect::<Vec<_>>()));
            }
        }
        last = Some(m);
        }
        let m = last.unwrap_or_else(|| vkit::machinery!("no order evaluated"));
        if m.hidden > 0 {
            HIDDEN.fetch_add(1, Ordering::Relaxed);
        }
        if m.max_refs > 1 {
            MULTI_REF.fetch_add(1, Ordering::Relaxed);
        }
        let roots: HashSet<ObjectId> = universe[..k].iter().map(|c| fx.root(c)).collect();
        if m.missing.keys().any(|i| roots.contains(i)) {
            ROOT_MISSING.fetch_add(1, Ordering::Relaxed);
        }
        let trees = m.missing.values().filter(|k| **k == Kind::Tree).count();
        let blobs = m.missing.len() - trees;
        let class = format!(
            "{}{}{}{}{}",
            if c.loose { "loose:" } else { "mem:" },
            match (trees > 0, blobs > 0) {
                (false, false) => "nothing-reported",
                (true, false) => "trees",
                (false, true) => "blobs",
                (true, true) => "trees+blobs",
            },
            if m.hidden > 0 { "+hidden" } else { "" },
            if m.max_refs > 1 { "+multi-ref" } else { "" },
            if deleted.iter().any(|d| universe[..k].contains(d)) { "+commit-missing" } else { "" },
        );
        if c.deleted == 0 {
            ok_trivial(class)
        } else {
            ok(class)
        }
    };

    let emit_all = |hists: &[Hist], loose: bool, git: bool, commits: bool, emit: &mut dyn FnMut(Case)| {
        for h in hists {
            let u = fx.universe(h);
            let k = h.len();
            let bits = u.len();
            for mask in 0u32..1 << bits {
                let commit_bits = mask & ((1 << k) - 1);
                if commits != (commit_bits != 0) {
                    continue;
                }
                emit(Case { hist: h.clone(), deleted: mask, loose, git });
            }
        }
    };
    let t0 = std::time::Instant::now();
    run.sub_with("mem", vkit::Opts::default().chunk(16384), |emit| emit_all(&mem, false, false, false, emit), &eval);
    run.cov("secs_mem", t0.elapsed().as_secs_f64());
    let t0 = std::time::Instant::now();
    run.sub_with("commits-deleted", vkit::Opts::default().chunk(16384), |emit| emit_all(&commits_deleted, false, false, true, emit), &eval);
    run.cov("secs_commits-deleted", t0.elapsed().as_secs_f64());
    let t0 = std::time::Instant::now();
    run.sub_with("loose", vkit::Opts::default().chunk(512), |emit| emit_all(&loose, true, false, false, emit), &eval);
    run.cov("secs_loose", t0.elapsed().as_secs_f64());
    let t0 = std::time::Instant::now();
    run.sub_with("git-crosscheck", vkit::Opts::default().chunk(64), |emit| emit_all(&gitx, true, true, false, emit), &eval);
    run.cov("secs_git-crosscheck", t0.elapsed().as_secs_f64());

    run.cov("check_commit_calls", CHECK_COMMIT_CALLS.load(Ordering::Relaxed));
    run.cov("cases_with_hidden_missing_objects", HIDDEN.load(Ordering::Relaxed));
    run.cov("cases_with_missing_object_referenced_more_than_once", MULTI_REF.load(Ordering::Relaxed));
    run.cov("cases_with_missing_root_tree", ROOT_MISSING.load(Ordering::Relaxed));
    run.cov("git_fsck_calls", GIT_CALLS.load(Ordering::Relaxed));
    run.cov("git_fsck_agrees_with_model", GIT_AGREES.load(Ordering::Relaxed));
    if !run.is_replay() {
        run.require("cases with deleted objects hidden behind deleted trees were explored", HIDDEN.load(Ordering::Relaxed) > 0);
        run.require("cases where a missing object is referenced more than once were explored", MULTI_REF.load(Ordering::Relaxed) > 0);
        run.require("cases with a missing root tree were explored", ROOT_MISSING.load(Ordering::Relaxed) > 0);
        run.require("git fsck was consulted and agreed with the expected set", GIT_AGREES.load(Ordering::Relaxed) > 0);
    }
}
