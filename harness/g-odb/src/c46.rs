//! C46 — merge bases agree with git (E1: all small commit DAGs x all queries).
use crate::dag::{self, Dag};
use gix_hash::ObjectId;
use serde::{Deserialize, Serialize};
use std::sync::atomic::{AtomicU64, Ordering};
use vkit::{bad, ok, ok_trivial, Run, Verdict};

#[derive(Serialize, Deserialize, Hash, Clone, Debug)]
struct Case {
    dag: Dag,
    first: u8,
    others: Vec<u8>,
    /// use the commit-graph file
    graph: bool,
    /// also ask `git merge-base --all`
    git: bool,
}

#[derive(Serialize, Deserialize, Hash, Clone, Debug)]
struct ReuseCase {
    dag: Dag,
    graph: bool,
}

fn queries(n: usize, mut f: impl FnMut(u8, Vec<u8>)) {
    for first in 0..n as u8 {
        for a in 0..n as u8 {
            if a == first {
                continue;
            }
            f(first, vec![a]);
        }
        for a in 0..n as u8 {
            for b in 0..n as u8 {
                if a == first || b == first || a == b {
                    continue;
                }
                f(first, vec![a, b]);
            }
        }
    }
}

fn names(ids: &[ObjectId], got: &[ObjectId]) -> Result<Vec<usize>, String> {
    got.iter().map(|g| ids.iter().position(|i| i == g).ok_or_else(|| format!("id {g} is not part of the DAG"))).collect()
}

pub fn run(run: &'static Run) {
    let quick = run.quick();
    run.rule(
        "DAGs: every commit DAG with n commits where commit i has an ordered parent list of <=3 earlier commits (pairs in both orders, triples \
         ascending and descending; octopus, criss-cross, multiple roots included) x 5 committer-date patterns (increasing, all equal, skewed = \
         every parent newer than its child, zigzag, equal pairs); quick: n<=4 plus n=5 with ascending parent lists and patterns skewed/equal-pairs; \
         thorough: n<=5 all, plus n=6 with ascending parent lists, skewed dates. Queries: every (first, others) with others = 1 or 2 other commits \
         (ordered), each with and without commit-graph; plus every DAG once with all its queries on one reused Graph. \
         non-trivial = the two sides are not in an ancestor relation with each other trivially, i.e. expected bases != {first} and != others",
    );
    run.assume("oracle = exact reference model (maximal elements of ancestors(first) ∩ ⋃ancestors(others)); the model is compared with `git merge-base --all` (git 2.39.5) on every query of every DAG with n<=3 (quick: skewed dates only) and n=4 with date patterns equal/skewed (thorough); a model/git disagreement is a machinery error");
    run.assume("result compared as a set (the statement says 'exactly the set'); duplicates in gitoxide's answer are a violation");
    run.budget_secs(run.pick(36.0, 540.0));

    let all: &[u8] = &[0, 1, 2, 3, 4];
    let spec: Vec<(usize, bool, &[u8])> = if quick {
        vec![(1, true, all), (2, true, all), (3, true, all), (4, true, all), (5, false, &[2, 4])]
    } else {
        vec![(1, true, all), (2, true, all), (3, true, all), (4, true, all), (5, true, all), (6, false, &[2])]
    };
    let dags: Vec<Dag> = match run.replay_case::<serde_json::Value>("queries").or_else(|| run.replay_case::<serde_json::Value>("reused-graph")).or_else(|| run.replay_case::<serde_json::Value>("git-crosscheck")) {
        Some(v) => vec![serde_json::from_value(v["dag"].clone()).unwrap_or_else(|e| vkit::machinery!("replay case: {e}"))],
        None => dag::all_dags(&spec),
    };
    let repo = dag::build_repo("c46", &dags);
    dag::write_commit_graph(&repo);
    let objects = repo.objects();
    let cg = dag::load_commit_graph(&objects);
    run.cov("dags", dags.len());
    let (repo, objects, cg, dags) = (&repo, &objects, &cg, &dags);

    static GIT_CALLS: AtomicU64 = AtomicU64::new(0);
    static MULTI: AtomicU64 = AtomicU64::new(0);
    static NONE: AtomicU64 = AtomicU64::new(0);

    let check_one = move |d: &Dag, ids: &[ObjectId], first: usize, others: &[usize], graph: &mut gix_revision::Graph<'_, '_, gix_revision::graph::Commit<gix_revision::merge_base::Flags>>| -> Result<Vec<usize>, String> {
        let want = dag::model_merge_bases(d, first, others);
        let oids: Vec<ObjectId> = others.iter().map(|&o| ids[o]).collect();
        let got = match gix_revision::merge_base(ids[first], &oids, graph) {
            Ok(g) => g,
            Err(e) => return Err(format!("error: merge_base({first}, {others:?}) failed: {e}")),
        };
        if got.as_ref().map(|g| g.is_empty()).unwrap_or(false) {
            return Err(format!("empty-some: merge_base({first}, {others:?}) returned Some(vec![])"));
        }
        let mut got = names(ids, &got.unwrap_or_default()).map_err(|e| format!("foreign-id: {e}"))?;
        let len = got.len();
        got.sort();
        got.dedup();
        if got.len() != len {
            return Err(format!("duplicate: merge_base({first}, {others:?}) lists a base twice: {got:?}"));
        }
        if got != want {
            return Err(format!("wrong-bases: merge_base(c{first}, {others:?}) = {got:?}, git merge-base --all = {want:?}"));
        }
        Ok(want)
    };

    let eval = |c: &Case| -> Verdict {
            let ids = repo.ids_of(&c.dag);
            let odb = dag::odb(objects);
            let first = c.first as usize;
            let others: Vec<usize> = c.others.iter().map(|&o| o as usize).collect();
            if c.git {
                let mut args = vec!["merge-base".to_string(), "--all".into(), ids[first].to_string()];
                args.extend(others.iter().map(|&o| ids[o].to_string()));
                let out = vkit::git::try_git(&repo.git_dir, &args);
                GIT_CALLS.fetch_add(1, Ordering::Relaxed);
                if !out.ok && out.code != Some(1) {
                    vkit::machinery!("git merge-base failed: {}", out.err_text());
                }
                let hex: Vec<ObjectId> = out.text().lines().map(|l| ObjectId::from_hex(l.trim().as_bytes()).unwrap_or_else(|_| vkit::machinery!("bad line {l}"))).collect();
                let mut g = names(ids, &hex).unwrap_or_else(|e| vkit::machinery!("{e}"));
                g.sort();
                let m = dag::model_merge_bases(&c.dag, first, &others);
                if g != m {
                    vkit::machinery!("reference model disagrees with git: git {g:?} model {m:?} case {c:?}");
                }
            }
            let mut graph = gix_revision::Graph::new(&odb, c.graph.then_some(cg));
            match check_one(&c.dag, ids, first, &others, &mut graph) {
                Err(e) => {
                    let (class, detail) = e.split_once(": ").unwrap_or(("other", &e));
                    bad(class, detail)
                }
                Ok(want) => {
                    if want.is_empty() {
                        NONE.fetch_add(1, Ordering::Relaxed);
                        ok("no-base")
                    } else if want.len() > 1 {
                        MULTI.fetch_add(1, Ordering::Relaxed);
                        ok(if want.len() == 2 { "two-bases" } else { "three-or-more-bases" })
                    } else if want[0] == first || others.contains(&want[0]) {
                        ok_trivial("ancestor")
                    } else {
                        ok("one-base")
                    }
                }
            }
        };

    run.sub_with(
        "queries",
        vkit::Opts::default().chunk(8192),
        |emit| {
            for d in dags {
                let n = d.n();
                queries(n, |first, others| {
                    for graph in [false, true] {
                        emit(Case { dag: d.clone(), first, others: others.clone(), graph, git: false });
                    }
                });
            }
        },
        &eval,
    );
    run.sub_with(
        "reused-graph",
        vkit::Opts::default().chunk(1024),
        |emit| {
            for d in dags {
                for graph in [false, true] {
                    emit(ReuseCase { dag: d.clone(), graph });
                }
            }
        },
        |c: &ReuseCase| -> Verdict {
            let ids = repo.ids_of(&c.dag);
            let odb = dag::odb(objects);
            let mut graph = gix_revision::Graph::new(&odb, c.graph.then_some(cg));
            let mut qs = Vec::new();
            queries(c.dag.n(), |f, o| qs.push((f as usize, o.iter().map(|&x| x as usize).collect::<Vec<_>>())));
            let mut multi = false;
            for (i, (first, others)) in qs.iter().enumerate() {
                match check_one(&c.dag, ids, *first, others, &mut graph) {
                    Err(e) => {
                        let (class, detail) = e.split_once(": ").unwrap_or(("other", &e));
                        return bad(&format!("reused-{class}"), format!("query #{i} on a reused Graph: {detail}"));
                    }
                    Ok(w) => multi |= w.len() > 1,
                }
            }
            if qs.is_empty() {
                ok_trivial("no-queries")
            } else if multi {
                ok("reused-multi")
            } else {
                ok("reused")
            }
        },
    );
    // git cross-check of the reference model last: one git process per query
    run.sub_with(
        "git-crosscheck",
        vkit::Opts::default().chunk(64),
        |emit| {
            for d in dags {
                let n = d.n();
                let pat_ok = d.dates == dag::date_pattern(n, 1) || d.dates == dag::date_pattern(n, 2);
                if if quick { n <= 3 && d.dates == dag::date_pattern(n, 2) } else { n <= 3 || (n == 4 && pat_ok) } {
                    queries(n, |first, others| emit(Case { dag: d.clone(), first, others, graph: false, git: true }));
                }
            }
        },
        &eval,
    );
    run.cov("git_calls", GIT_CALLS.load(Ordering::Relaxed));
    run.cov("queries_with_several_bases", MULTI.load(Ordering::Relaxed));
    run.cov("queries_without_base", NONE.load(Ordering::Relaxed));
    run.require("queries with more than one merge base were explored", MULTI.load(Ordering::Relaxed) > 0);
    run.require("queries without any merge base were explored", NONE.load(Ordering::Relaxed) > 0);
    run.require("git was consulted", GIT_CALLS.load(Ordering::Relaxed) > 0);
}
