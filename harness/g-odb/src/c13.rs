//! C13 — alternate object databases are resolved like git (E1: all small alternates graphs).
//!
//! Every case is a complete alternates graph: object directories placed at directory depths 1..3, each with an
//! `info/alternates` file naming up to two other directories (absolute or relative to the naming directory, optionally
//! ANSI-C quoted, optionally preceded by comment/blank lines). The real `gix_odb::alternate::resolve` and the real object
//! store are run on it; the oracle is a reference model of git's `link_alt_odb_entries` (pre-order, de-duplicating) and the
//! installed git itself (`git count-objects -v` lists the alternates it consults, in order).
use gix_hash::ObjectId;
use serde::{Deserialize, Serialize};
use std::path::{Path, PathBuf};
use std::sync::atomic::{AtomicU64, Ordering};
use vkit::{bad, ok, ok_trivial, Run, Verdict};

#[derive(Serialize, Deserialize, Hash, Clone, Debug)]
struct Case {
    /// directory depth (1..=3) of each object directory; node 0 is the one that is opened
    depths: Vec<u8>,
    /// per node: entries of its info/alternates file: (target node, written as relative path?)
    files: Vec<Vec<(u8, bool)>>,
    /// 0 plain, 1 every entry ANSI-C quoted (with an octal escape), 2 comment + blank lines around entries, 3 both
    deco: u8,
    /// ask the installed git as well
    git: bool,
}

fn node_rel(depth: u8, k: usize) -> String {
    match depth {
        1 => format!("n{k}"),
        2 => format!("d/n{k}"),
        _ => format!("d/e/n{k}"),
    }
}

/// relative path from the directory of node `from` to node `to`, purely lexical (no symlinks in the fixture)
fn relative(from_depth: u8, to_depth: u8, to: usize) -> String {
    let mut s = String::new();
    for _ in 0..from_depth {
        s.push_str("../");
    }
    s.push_str(&node_rel(to_depth, to));
    s
}

fn quote(p: &str) -> String {
    // escape the 'n' of the final component as octal \156 and keep everything else literal
    let cut = p.rfind('n').expect("node name");
    format!("\"{}\\156{}\"", &p[..cut], &p[cut + 1..])
}

struct Markers {
    tmpl: PathBuf,
    /// per node index: id, relative loose path, file bytes
    m: Vec<(ObjectId, String, Vec<u8>)>,
}

fn build(c: &Case, root: &Path, markers: &Markers) -> Vec<PathBuf> {
    let n = c.depths.len();
    let dirs: Vec<PathBuf> = (0..n).map(|k| root.join(node_rel(c.depths[k], k))).collect();
    for k in 0..n {
        let info = dirs[k].join("info");
        std::fs::create_dir_all(&info).unwrap_or_else(|e| vkit::machinery!("mkdir: {e}"));
        let (_, rel, bytes) = &markers.m[k];
        let p = dirs[k].join(rel);
        std::fs::create_dir_all(p.parent().unwrap()).unwrap_or_else(|e| vkit::machinery!("mkdir: {e}"));
        std::fs::write(&p, bytes).unwrap_or_else(|e| vkit::machinery!("write marker: {e}"));
        if c.files[k].is_empty() {
            continue;
        }
        let mut text = String::new();
        if c.deco & 2 != 0 {
            text.push_str("# a comment\n\n");
        }
        for (i, &(t, rel)) in c.files[k].iter().enumerate() {
            let t = t as usize;
            let mut p = if rel { relative(c.depths[k], c.depths[t], t) } else { dirs[t].to_str().unwrap().to_string() };
            if c.deco & 1 != 0 {
                p = quote(&p);
            }
            if i > 0 && c.deco & 2 != 0 {
                text.push_str("\n#../n0\n");
            }
            text.push_str(&p);
            text.push('\n');
        }
        std::fs::write(info.join("alternates"), text).unwrap_or_else(|e| vkit::machinery!("write alternates: {e}"));
    }
    dirs
}

/// Reference model. Returns (git's list of alternates in git's order, has a cycle reachable from node 0, has a diamond).
fn model(c: &Case) -> (Vec<usize>, bool, bool) {
    fn visit(c: &Case, k: usize, list: &mut Vec<usize>, dup: &mut bool) {
        for &(t, _) in &c.files[k] {
            let t = t as usize;
            if t == 0 || list.contains(&t) {
                *dup = true;
                continue;
            }
            list.push(t);
            visit(c, t, list, dup);
        }
    }
    let mut list = Vec::new();
    let mut dup = false;
    visit(c, 0, &mut list, &mut dup);
    // cycle detection: DFS colours over the reachable graph
    fn cyc(c: &Case, k: usize, colour: &mut [u8]) -> bool {
        colour[k] = 1;
        for &(t, _) in &c.files[k] {
            let t = t as usize;
            if colour[t] == 1 || (colour[t] == 0 && cyc(c, t, colour)) {
                return true;
            }
        }
        colour[k] = 2;
        false
    }
    let cycle = cyc(c, 0, &mut vec![0u8; c.depths.len()]);
    (list, cycle, dup && !cycle)
}

fn reachable_all(files: &[Vec<(u8, bool)>]) -> bool {
    let n = files.len();
    let mut seen = vec![false; n];
    let mut stack = vec![0usize];
    seen[0] = true;
    while let Some(k) = stack.pop() {
        for &(t, _) in &files[k] {
            if !seen[t as usize] {
                seen[t as usize] = true;
                stack.push(t as usize);
            }
        }
    }
    seen.iter().all(|b| *b)
}

/// every alternates file content for one node: ordered lists of <= 2 distinct targets (style filled in later)
fn node_options(n: usize) -> Vec<Vec<(u8, bool)>> {
    let mut out = vec![vec![]];
    for a in 0..n as u8 {
        out.push(vec![(a, false)]);
    }
    for a in 0..n as u8 {
        for b in 0..n as u8 {
            if a != b {
                out.push(vec![(a, false), (b, false)]);
            }
        }
    }
    out
}

/// all graph shapes on n nodes in which every node is reachable from node 0
fn gen_shapes(n: usize, mut f: impl FnMut(Vec<Vec<(u8, bool)>>)) {
    let opts = node_options(n);
    let idx: Vec<usize> = (0..opts.len()).collect();
    vkit::enumerate::seqs(&idx, n, n, |sel| {
        let files: Vec<Vec<(u8, bool)>> = sel.iter().map(|&i| opts[i].clone()).collect();
        if reachable_all(&files) {
            f(files);
        }
    });
}

/// all assignments of absolute/relative to the entries: per entry (all 2^e) or the two uniform ones
fn styles(shape: &[Vec<(u8, bool)>], per_edge: bool, mut f: impl FnMut(Vec<Vec<(u8, bool)>>)) {
    let e: usize = shape.iter().map(Vec::len).sum();
    let masks: Vec<u32> = if per_edge { (0..1u32 << e).collect() } else if e == 0 { vec![0] } else { vec![0, (1u32 << e) - 1] };
    for m in masks {
        let mut i = 0;
        let mut g = shape.to_vec();
        for file in g.iter_mut() {
            for ent in file.iter_mut() {
                ent.1 = m >> i & 1 == 1;
                i += 1;
            }
        }
        f(g);
    }
}

/// depth vectors: all 3^n, or a fixed selection in which naming directories differ in depth from the opened directory
fn placements(n: usize, how_many: usize) -> Vec<Vec<u8>> {
    let mut v = Vec::new();
    vkit::enumerate::seqs(&[1u8, 2, 3], n, n, |d| v.push(d.to_vec()));
    if how_many == 7 && n == 3 {
        v.retain(|d| matches!(d.as_slice(), [1, 1, 1] | [1, 2, 3] | [3, 2, 1] | [2, 1, 3] | [2, 3, 1] | [3, 1, 2] | [1, 3, 2]));
    }
    if how_many == 6 && n == 4 {
        v.retain(|d| {
            matches!(d.as_slice(), [1, 2, 3, 1] | [3, 2, 1, 3] | [2, 1, 3, 2] | [1, 1, 1, 1] | [2, 3, 3, 1] | [3, 1, 2, 2])
        });
    }
    v
}

pub fn run(run: &'static Run) {
    let quick = run.quick();
    run.rule(
        "graphs: N<=4 object dirs, every node's info/alternates = ordered list of <=2 distinct targets among all N nodes (self-loops, links back \
         to the opened dir, longer cycles and diamonds included), all nodes reachable from the opened dir; every node placed at directory depth \
         1/2/3 (n, d/n, d/e/n). sub acyclic: all cycle-free shapes x every absolute/relative assignment per entry (quick N=4: all-absolute and \
         all-relative) x all 3^N placements (quick N=4: 6 placements) x decoration {plain, ANSI-C quoted with an octal escape, comment+blank \
         lines, both} (N=4: plain, thorough also both). sub cyclic: all shapes with a cycle, N<=3 (thorough N<=4), N<=2 every style and \
         decoration, N>=3 all-absolute/all-relative, placements 27 (quick N=3: 7; N=4: 6). non-trivial = at least one alternate is consulted \
         or a cycle has to be reported",
    );
    run.assume("git 2.39.5: `git count-objects -v` with GIT_OBJECT_DIRECTORY lists the alternates git consults in link order; probe showed git 2.39.5 resolves relative entries at every nesting depth against the naming directory (it does not ignore them), so git is the oracle on the whole cycle-free domain");
    run.assume("cycles (incl. self-loops and links back to the opened directory): git silently skips them, the property demands an error from gitoxide; the reference model decides");
    run.assume("no symlinks in the fixture, every named directory exists, entries within one file are distinct");
    run.budget_secs(run.pick(36.0, 560.0));

    // markers: one loose blob per node index, created once with git
    let tmpl = vkit::scratch::Dir::new("c13-tmpl").keep();
    vkit::git::init_bare(&tmpl);
    let mut m = Vec::new();
    for k in 0..4 {
        let hex = String::from_utf8_lossy(&vkit::git::git_in(&tmpl, &["hash-object", "-w", "--stdin"], format!("marker {k}\n").as_bytes()))
            .trim()
            .to_string();
        let rel = format!("{}/{}", &hex[..2], &hex[2..]);
        let bytes = std::fs::read(tmpl.join("objects").join(&rel)).unwrap_or_else(|e| vkit::machinery!("read marker: {e}"));
        std::fs::remove_file(tmpl.join("objects").join(&rel)).ok();
        m.push((ObjectId::from_hex(hex.as_bytes()).unwrap(), rel, bytes));
    }
    let markers = Markers { tmpl, m };
    let markers = &markers;

    static GIT_CALLS: AtomicU64 = AtomicU64::new(0);
    static REL_NESTED: AtomicU64 = AtomicU64::new(0);
    static DIAMONDS: AtomicU64 = AtomicU64::new(0);
    static T_BUILD: AtomicU64 = AtomicU64::new(0);
    static T_GIT: AtomicU64 = AtomicU64::new(0);
    static T_GIX: AtomicU64 = AtomicU64::new(0);
    struct Timer(std::time::Instant);
    impl Drop for Timer {
        fn drop(&mut self) {
            T_GIX.fetch_add(self.0.elapsed().as_micros() as u64, Ordering::Relaxed);
        }
    }

    let eval = move |c: &Case| -> Verdict {
        let t0 = std::time::Instant::now();
        let scratch = vkit::scratch::Dir::new("c13");
        let dirs = build(c, scratch.path(), markers);
        T_BUILD.fetch_add(t0.elapsed().as_micros() as u64, Ordering::Relaxed);
        let (expect, cycle, diamond) = model(c);
        let nested_rel_differs = (1..c.depths.len()).any(|k| c.depths[k] != c.depths[0] && c.files[k].iter().any(|e| e.1));
        if nested_rel_differs {
            REL_NESTED.fetch_add(1, Ordering::Relaxed);
        }
        if diamond {
            DIAMONDS.fetch_add(1, Ordering::Relaxed);
        }

        // the installed git (its answer validates the reference model, a disagreement is a harness problem)
        if c.git {
            let mut cmd = vkit::git::cmd(&markers.tmpl);
            cmd.env("GIT_OBJECT_DIRECTORY", &dirs[0]).args(["count-objects", "-v"]);
            let t0 = std::time::Instant::now();
            let out = vkit::git::run_cmd(cmd, None);
            T_GIT.fetch_add(t0.elapsed().as_micros() as u64, Ordering::Relaxed);
            GIT_CALLS.fetch_add(1, Ordering::Relaxed);
            if !out.ok {
                vkit::machinery!("git count-objects failed: {}", out.err_text());
            }
            let got: Vec<PathBuf> =
                out.text().lines().filter_map(|l| l.strip_prefix("alternate: ")).map(PathBuf::from).collect();
            let want: Vec<PathBuf> = expect.iter().map(|&k| dirs[k].clone()).collect();
            if got != want {
                vkit::machinery!("reference model disagrees with git: git {:?}, model {:?}, case {:?}", got, want, c);
            }
        }

        let t0 = std::time::Instant::now();
        let _g = Timer(t0);
        let cwd = Path::new("/");
        let res = gix_odb::alternate::resolve(dirs[0].clone(), cwd);
        if cycle {
            return match res {
                Err(gix_odb::alternate::Error::Cycle(_)) => ok("cycle-reported"),
                Err(e) => bad("cycle-other-error", format!("cycle expected, got {e}")),
                Ok(v) => bad("cycle-not-reported", format!("alternates form a cycle but resolve returned {v:?}")),
            };
        }
        let got = match res {
            Ok(v) => v,
            Err(gix_odb::alternate::Error::Cycle(chain)) if diamond => {
                return bad(
                    "diamond-as-cycle",
                    format!("no cycle (a directory is merely named twice), git consults {expect:?}, gitoxide reports a cycle {chain:?}"),
                )
            }
            Err(e) => return bad("error", format!("git consults nodes {expect:?}, gitoxide fails: {e}")),
        };
        let canon: Vec<String> = got
            .iter()
            .map(|p| std::fs::canonicalize(p).map(|p| p.display().to_string()).unwrap_or_else(|_| format!("<nonexistent {}>", p.display())))
            .collect();
        let want: Vec<String> = expect.iter().map(|&k| dirs[k].display().to_string()).collect();
        let (mut a, mut b) = (canon.clone(), want.clone());
        a.sort();
        b.sort();
        if a != b {
            return bad("wrong-dirs", format!("git consults {want:?}, gitoxide resolves {got:?}"));
        }
        // the store must be able to read exactly the markers of the consulted directories
        let store = match gix_odb::at(dirs[0].clone()) {
            Ok(s) => s,
            Err(e) => return bad("store-open", format!("{e}")),
        };
        for k in 0..c.depths.len() {
            let should = k == 0 || expect.contains(&k);
            let has = gix_object::Exists::exists(&store, &markers.m[k].0);
            if has != should {
                return bad("readable", format!("marker of node {k}: readable={has}, expected {should} (git consults {expect:?})"));
            }
        }
        if canon != want {
            return bad("order", format!("git's order {want:?}, gitoxide's order {canon:?}"));
        }
        if expect.is_empty() {
            ok_trivial("no-alternates")
        } else if diamond {
            ok("diamond")
        } else if nested_rel_differs {
            ok("nested-relative")
        } else if expect.len() > 1 {
            ok("multi")
        } else {
            ok("single")
        }
    };

    let nogit = std::env::var_os("VERIF_C13_NOGIT").is_some();
    let uniform = |files: &Vec<Vec<(u8, bool)>>, rel: bool| files.iter().flatten().all(|e| e.1 == rel);
    let is_cyclic = |shape: &Vec<Vec<(u8, bool)>>| model(&Case { depths: vec![1; shape.len()], files: shape.clone(), deco: 0, git: false }).1;
    // ---- cycle-free graphs: every absolute/relative assignment, git as oracle ----
    run.sub_with(
        "acyclic",
        vkit::Opts::default().chunk(1024),
        |emit| {
            for n in 1..=4usize {
                let placements = placements(n, if n == 4 { run.pick(6, 81) } else { 27 });
                gen_shapes(n, |shape| {
                    if is_cyclic(&shape) {
                        return;
                    }
                    styles(&shape, n < 4 || !quick, |files| {
                        for depths in &placements {
                            for deco in [0u8, 3, 1, 2] {
                                if deco != 0 && n == 4 && (quick || deco != 3) {
                                    continue;
                                }
                                // one git process per graph is expensive: ask git where its answer can differ from the model's
                                // assumptions (relative resolution, order, de-duplication), i.e. plain all-relative graphs (quick),
                                // every plain graph with N<=3 and all-relative N=4 graphs at one mixed placement (thorough)
                                let mixed = match n { 1 => true, 2 => depths[0] != depths[1], 3 => matches!(depths.as_slice(), [1, 2, 3] | [3, 1, 2] | [2, 3, 1]), _ => depths == &[2, 1, 3, 2] };
                                let git = !nogit && deco == 0 && if quick { uniform(&files, true) && mixed && n <= 3 } else { n <= 3 || (uniform(&files, true) && mixed) };
                                emit(Case { depths: depths.clone(), files: files.clone(), deco, git });
                            }
                        }
                    });
                });
            }
        },
        &eval,
    );
    // ---- graphs with a cycle (self-loop, link back to the opened directory, longer cycles): the error must be reported ----
    run.sub_with(
        "cyclic",
        vkit::Opts::default().chunk(4096),
        |emit| {
            for n in 1..=run.pick(3usize, 4) {
                let placements = placements(n, match n { 4 => 6, 3 => run.pick(7, 27), _ => 27 });
                gen_shapes(n, |shape| {
                    if !is_cyclic(&shape) {
                        return;
                    }
                    styles(&shape, n <= 2, |files| {
                        for depths in &placements {
                            for deco in 0..(if n <= 2 { 4 } else { 1 }) {
                                emit(Case { depths: depths.clone(), files: files.clone(), deco, git: false });
                            }
                        }
                    });
                });
            }
        },
        &eval,
    );
    run.cov("t_build_us", T_BUILD.load(Ordering::Relaxed));
    run.cov("t_git_us", T_GIT.load(Ordering::Relaxed));
    run.cov("t_gix_us", T_GIX.load(Ordering::Relaxed));
    run.cov("git_calls", GIT_CALLS.load(Ordering::Relaxed));
    run.cov("cases_with_relative_entry_in_nested_dir_at_other_depth", REL_NESTED.load(Ordering::Relaxed));
    run.cov("diamond_cases", DIAMONDS.load(Ordering::Relaxed));
    run.require("nested relative entries at a depth different from the root were explored", REL_NESTED.load(Ordering::Relaxed) > 0);
    run.require("diamonds were explored", DIAMONDS.load(Ordering::Relaxed) > 0);
    run.require("git was consulted", GIT_CALLS.load(Ordering::Relaxed) > 0);
    run.require("cycles were explored", run.outcome_count("cycle-reported") > 0 || run.is_replay());
}
