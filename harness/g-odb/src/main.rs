mod c13;
mod c14;
mod c46;
mod c47;
mod c54;
mod dag;
use vkit::{Check, Level};
fn main() {
    vkit::main(&[
        Check { id: "C13", level: Level::Exploration, run: c13::run },
        Check { id: "C14", level: Level::Exploration, run: c14::run },
        Check { id: "C46", level: Level::Exploration, run: c46::run },
        Check { id: "C47", level: Level::Exploration, run: c47::run },
        Check { id: "C54", level: Level::Exploration, run: c54::run },
    ]);
}
