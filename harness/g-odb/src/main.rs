mod c13;
use vkit::{Check, Level};
fn main() {
    vkit::main(&[Check { id: "C13", level: Level::Exploration, run: c13::run }]);
}
