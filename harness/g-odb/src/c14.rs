//! C14 — commit-graph files (single file and split chains of 1..4 layers written by git) agree with the commit objects
//! (E1: all small commit DAGs x all ways to cut the commits into <=4 stages, one `git commit-graph write` per stage).
use crate::dag::{self, Dag, BASE_TIME};
use gix_commitgraph::{Graph, Position};
use gix_hash::ObjectId;
use serde::{Deserialize, Serialize};
use std::collections::{BTreeMap, HashMap};
use std::path::{Path, PathBuf};
use std::sync::atomic::{AtomicU64, Ordering};
use vkit::{bad, ok, ok_trivial, Run, Verdict};

/// One DAG in one layout. `stages` = number of commits added per stage (commits in index order, one `git commit-graph write
/// --split=no-merge` per stage => one chain file per stage); empty = one non-split `objects/info/commit-graph` file.
/// `alone`: the graph files describe only this DAG (written with --reachable from refs); otherwise they describe ALL DAGs with the same
/// number of commits of this tier at once (written with --stdin-commits), each DAG cut into stages the same way.
#[derive(Serialize, Deserialize, Hash, Clone, Debug)]
struct DagCase {
    dag: Dag,
    stages: Vec<u8>,
    alone: bool,
    /// (alone only) write with --changed-paths: every file additionally carries the BIDX/BDAT bloom filter chunks
    #[serde(default)]
    bloom: bool,
}

/// whole-file observations on the pooled graph of all n-commit DAGs in one layout
#[derive(Serialize, Deserialize, Hash, Clone, Debug)]
struct WholeCase {
    n: u8,
    stages: Vec<u8>,
}

/// what git says about one commit (root tree, committer time, parents)
#[derive(Clone, Debug)]
struct Truth {
    tree: ObjectId,
    time: i64,
    parents: Vec<ObjectId>,
}

struct Shared {
    git_dir: PathBuf,
    ids: HashMap<Dag, Vec<ObjectId>>,
    truth: HashMap<ObjectId, Truth>,
    /// reference generation numbers: 1 + max(parent generation), roots 1
    gen: HashMap<ObjectId, u32>,
}

/// absolute committer times around the 32/34 bit boundaries of the commit-graph's 34-bit time field
const BIG_TIMES: [i64; 6] = [(1 << 34) - 1, 1 << 32, 0, (1 << 32) - 1, 1 << 33, 1];
const PAT_BIG: u8 = 9;

fn dates(n: usize, pat: u8) -> Vec<i64> {
    if pat == PAT_BIG {
        (0..n).map(|i| BIG_TIMES[i % BIG_TIMES.len()] - BASE_TIME).collect()
    } else {
        dag::date_pattern(n, pat)
    }
}

fn parse_id(s: &str) -> ObjectId {
    ObjectId::from_hex(s.trim().as_bytes()).unwrap_or_else(|_| vkit::machinery!("bad object id {s:?}"))
}

/// One bare repository with all commits of `dags` (single fast-import). Commit i of a DAG has message "c<i>\n", committer time
/// BASE_TIME+dates[i], the given parents, and a root tree holding the single file `f<i>` — so root trees differ between the commits of a DAG.
fn build(dags: &[Dag]) -> Shared {
    let dir = vkit::scratch::Dir::new("c14").keep();
    vkit::git::init_bare(&dir);
    let mut stream = String::new();
    let mut mark = 0usize;
    let mut first_mark = Vec::with_capacity(dags.len());
    for d in dags {
        first_mark.push(mark + 1);
        let base = mark;
        for i in 0..d.n() {
            mark += 1;
            if d.parents[i].is_empty() {
                stream.push_str("reset refs/dag/tip\n\n");
            }
            let msg = format!("c{i}\n");
            stream.push_str(&format!(
                "commit refs/dag/tip\nmark :{mark}\ncommitter C O Mitter <committer@example.com> {} +0000\ndata {}\n{msg}",
                BASE_TIME + d.dates[i],
                msg.len()
            ));
            for (k, &p) in d.parents[i].iter().enumerate() {
                stream.push_str(&format!("{} :{}\n", if k == 0 { "from" } else { "merge" }, base + p as usize + 1));
            }
            stream.push_str(&format!("deleteall\nM 100644 inline f{i}\ndata 2\n{i}\n\n"));
        }
    }
    let marks = dir.join("marks");
    vkit::git::git_in(&dir, &["fast-import", "--quiet", "--force", "--done", &format!("--export-marks={}", marks.display())], format!("{stream}done\n").as_bytes());
    let text = std::fs::read_to_string(&marks).unwrap_or_else(|e| vkit::machinery!("marks: {e}"));
    let mut by_mark: HashMap<usize, ObjectId> = HashMap::new();
    for l in text.lines() {
        let (m, hex) = l.split_once(' ').unwrap_or_else(|| vkit::machinery!("bad marks line {l}"));
        by_mark.insert(m.trim_start_matches(':').parse().unwrap_or_else(|_| vkit::machinery!("bad mark {l}")), parse_id(hex));
    }
    let mut ids = HashMap::new();
    for (d, &fm) in dags.iter().zip(&first_mark) {
        let v: Vec<ObjectId> = (0..d.n()).map(|i| *by_mark.get(&(fm + i)).unwrap_or_else(|| vkit::machinery!("mark {} missing", fm + i))).collect();
        ids.insert(d.clone(), v);
    }
    // the commit objects as git decodes them: one rev-list for all commits
    let mut all: Vec<String> = by_mark.values().map(|i| i.to_string()).collect();
    all.sort();
    all.dedup();
    let out = vkit::git::git_in(&dir, &["rev-list", "--no-walk=unsorted", "--stdin", "--format=%H %T %ct %P"], (all.join("\n") + "\n").as_bytes());
    let mut truth = HashMap::new();
    for l in String::from_utf8_lossy(&out).lines() {
        if l.starts_with("commit ") || l.is_empty() {
            continue;
        }
        let f: Vec<&str> = l.split(' ').filter(|s| !s.is_empty()).collect();
        if f.len() < 3 {
            vkit::machinery!("bad rev-list line {l:?}");
        }
        truth.insert(
            parse_id(f[0]),
            Truth { tree: parse_id(f[1]), time: f[2].parse().unwrap_or_else(|_| vkit::machinery!("bad time in {l:?}")), parents: f[3..].iter().map(|s| parse_id(s)).collect() },
        );
    }
    if truth.len() != all.len() {
        vkit::machinery!("rev-list described {} of {} commits", truth.len(), all.len());
    }
    // the fixture must be the DAG we asked for
    for d in dags {
        let v = &ids[d];
        let mut trees: Vec<ObjectId> = Vec::new();
        for i in 0..d.n() {
            let t = &truth[&v[i]];
            let want: Vec<ObjectId> = d.parents[i].iter().map(|&p| v[p as usize]).collect();
            if t.parents != want || t.time != BASE_TIME + d.dates[i] {
                vkit::machinery!("fixture commit c{i} of {d:?} is not what the DAG says: {t:?}");
            }
            trees.push(t.tree);
        }
        trees.sort();
        trees.dedup();
        if trees.len() != d.n() {
            vkit::machinery!("root trees of {d:?} are not pairwise distinct");
        }
    }
    let mut gen: HashMap<ObjectId, u32> = HashMap::new();
    for d in dags {
        let v = &ids[d];
        for i in 0..d.n() {
            let g = 1 + d.parents[i].iter().map(|&p| gen[&v[p as usize]]).max().unwrap_or(0);
            if let Some(old) = gen.insert(v[i], g) {
                if old != g {
                    vkit::machinery!("commit {} has two generations", v[i]);
                }
            }
        }
    }
    Shared { git_dir: dir, ids, truth, gen }
}

/// all compositions of n into 1..=4 parts, fewest parts first
fn compositions(n: usize) -> Vec<Vec<u8>> {
    fn rec(rest: usize, cur: &mut Vec<u8>, out: &mut Vec<Vec<u8>>) {
        if rest == 0 {
            out.push(cur.clone());
            return;
        }
        if cur.len() == 4 {
            return;
        }
        for k in (1..=rest).rev() {
            cur.push(k as u8);
            rec(rest - k, cur, out);
            cur.pop();
        }
    }
    let mut out = Vec::new();
    rec(n, &mut Vec::new(), &mut out);
    out.sort_by_key(Vec::len);
    out
}

/// `stages` of a case -> (split?, commits per stage)
fn stage_sizes(n: usize, stages: &[u8]) -> (bool, Vec<usize>) {
    let split = !stages.is_empty();
    let v: Vec<usize> = if split { stages.iter().map(|&s| s as usize).collect() } else { vec![n] };
    if v.iter().sum::<usize>() != n || v.contains(&0) || v.len() > 4 {
        vkit::machinery!("bad case: stages {stages:?} for {n} commits");
    }
    (split, v)
}

fn flip(id: &ObjectId, byte: usize, delta: u8) -> ObjectId {
    let mut b = id.as_bytes().to_vec();
    b[byte] = b[byte].wrapping_add(delta);
    ObjectId::from_bytes_or_panic(&b)
}

fn write_file(p: &Path, s: &str) {
    std::fs::write(p, s).unwrap_or_else(|e| vkit::machinery!("write {}: {e}", p.display()));
}

/// The commit-graph files git wrote for one layout, opened with gitoxide after every stage.
struct Layout {
    _dir: vkit::scratch::Dir,
    /// ids of each file, sorted (= expected file order)
    layers: Vec<Vec<ObjectId>>,
    /// id -> (file index, position within the file)
    pos: HashMap<ObjectId, (usize, u32)>,
    /// expected graph position of the first commit of each file
    base: Vec<u32>,
    /// the graph as opened by `Graph::from_info_dir` after stage j
    after_stage: Vec<Graph>,
    /// the final graph opened in other ways
    variants: Vec<(String, Graph)>,
}

static GIT_WRITES: AtomicU64 = AtomicU64::new(0);

/// Let git write the graph files: stage j adds the commits `stage_ids[j]` (closed under parents together with the earlier stages).
/// Err = gitoxide could not open what git wrote (a violation message `class: detail`).
fn build_layout(sh: &Shared, stage_ids: &[Vec<ObjectId>], split: bool, reachable: bool, bloom: bool) -> Result<Layout, String> {
    let dir = vkit::scratch::Dir::new("c14layout");
    let info = dir.join("objects/info");
    for p in ["objects/info", "refs/heads"] {
        std::fs::create_dir_all(dir.join(p)).unwrap_or_else(|e| vkit::machinery!("mkdir: {e}"));
    }
    write_file(&dir.join("HEAD"), "ref: refs/heads/main\n");
    write_file(&dir.join("config"), "[core]\n\trepositoryformatversion = 0\n\tbare = true\n");
    write_file(&info.join("alternates"), &format!("{}\n", sh.git_dir.join("objects").display()));
    let mut layers: Vec<Vec<ObjectId>> = Vec::new();
    let mut after_stage = Vec::new();
    let mut variants = Vec::new();
    let mut chain = String::new();
    for (j, ids) in stage_ids.iter().enumerate() {
        let mut args = vec!["commit-graph", "write"];
        if split {
            args.push("--split=no-merge");
        }
        if bloom {
            args.push("--changed-paths");
        }
        if reachable {
            for (k, id) in ids.iter().enumerate() {
                write_file(&dir.join(format!("refs/heads/s{j}-{k}")), &format!("{id}\n"));
            }
            args.push("--reachable");
            vkit::git::git(dir.path(), &args);
        } else {
            args.push("--stdin-commits");
            let input: String = ids.iter().map(|i| format!("{i}\n")).collect();
            vkit::git::git_in(dir.path(), &args, input.as_bytes());
        }
        GIT_WRITES.fetch_add(1, Ordering::Relaxed);
        if split {
            chain = std::fs::read_to_string(info.join("commit-graphs/commit-graph-chain")).unwrap_or_else(|e| vkit::machinery!("git wrote no chain file: {e}"));
            if chain.lines().count() != j + 1 {
                vkit::machinery!("git wrote a chain of {} files after stage {j}", chain.lines().count());
            }
        } else if !info.join("commit-graph").is_file() {
            vkit::machinery!("git wrote no commit-graph file");
        }
        let mut l = ids.clone();
        l.sort();
        l.dedup();
        layers.push(l);
        after_stage.push(Graph::from_info_dir(&info).map_err(|e| format!("open-error: Graph::from_info_dir after stage {j} ({} files): {e}", j + 1))?);
    }
    let mut open = |how: &str, p: PathBuf| -> Result<(), String> {
        variants.push((how.to_string(), Graph::at(&p).map_err(|e| format!("open-error: {how} ({} files): {e}", stage_ids.len()))?));
        Ok(())
    };
    open("Graph::at(info dir)", info.clone())?;
    if split {
        open("Graph::at(commit-graphs dir)", info.join("commit-graphs"))?;
        if stage_ids.len() == 1 {
            open("Graph::at(the only layer file)", info.join(format!("commit-graphs/graph-{}.graph", chain.trim())))?;
        }
    } else {
        open("Graph::at(commit-graph file)", info.join("commit-graph"))?;
    }
    let mut pos = HashMap::new();
    let mut base = Vec::new();
    let mut total = 0u32;
    for (f, l) in layers.iter().enumerate() {
        base.push(total);
        for (k, id) in l.iter().enumerate() {
            if pos.insert(*id, (f, k as u32)).is_some() {
                vkit::machinery!("commit {id} is in two stages");
            }
        }
        total += l.len() as u32;
    }
    Ok(Layout { _dir: dir, layers, pos, base, after_stage, variants })
}

impl Layout {
    /// the graphs to look at: (description, graph, number of files it must consist of)
    fn graphs(&self) -> Vec<(String, &Graph, usize)> {
        let mut v: Vec<(String, &Graph, usize)> =
            self.after_stage.iter().enumerate().map(|(j, g)| (format!("Graph::from_info_dir after stage {j} of {}", self.layers.len()), g, j + 1)).collect();
        for (how, g) in &self.variants {
            v.push((format!("{how} after all {} stages", self.layers.len()), g, self.layers.len()));
        }
        v
    }
}

/// Compare what `g` (consisting of the first `files` files of the layout) says about the commits `ids` of one DAG with the commit objects.
fn check_dag(g: &Graph, how: &str, l: &Layout, files: usize, ids: &[ObjectId], sh: &Shared) -> Result<u64, String> {
    let n = g.num_commits();
    let name = |x: &ObjectId| ids.iter().position(|y| y == x).map(|j| format!("c{j}")).unwrap_or_else(|| x.to_string());
    let mut compared = 0;
    let mut probes: Vec<(String, ObjectId)> = Vec::new();
    for (i, id) in ids.iter().enumerate() {
        let id = *id;
        let (file, rank) = *l.pos.get(&id).unwrap_or_else(|| vkit::machinery!("{id} not in layout"));
        if file >= files {
            probes.push((format!("c{i} (not written yet)"), id));
            continue;
        }
        compared += 1;
        let want_pos = l.base[file] + rank;
        let t = &sh.truth[&id];
        let Some(c) = g.commit_by_id(id) else { return Err(format!("not-found: {how}: commit_by_id(c{i} = {id}) is None")) };
        if c.id() != id {
            return Err(format!("wrong-commit: {how}: commit_by_id(c{i}).id() = {}", c.id()));
        }
        let Some(pos) = g.lookup(id) else { return Err(format!("not-found: {how}: lookup(c{i} = {id}) is None")) };
        if pos.0 != want_pos {
            return Err(format!("position: {how}: lookup(c{i}) = {pos}, expected graph position {want_pos} (file {file}, entry {rank})"));
        }
        if g.id_at(pos) != id {
            return Err(format!("position: {how}: id_at(lookup(c{i}) = {pos}) = {} != {id}", g.id_at(pos)));
        }
        let at = g.commit_at(pos);
        if at.id() != id || at != c {
            return Err(format!("position: {how}: commit_at(lookup(c{i}) = {pos}) is commit {}", at.id()));
        }
        if c.root_tree_id() != t.tree {
            return Err(format!("root-tree: {how}: c{i}: root_tree_id() = {}, commit object says {}", c.root_tree_id(), t.tree));
        }
        if i128::from(c.committer_timestamp()) != i128::from(t.time) {
            return Err(format!("commit-time: {how}: c{i}: committer_timestamp() = {}, commit object says {}", c.committer_timestamp(), t.time));
        }
        if c.generation() != sh.gen[&id] {
            return Err(format!("generation: {how}: c{i}: generation() = {}, 1 + max(parent generations) = {}", c.generation(), sh.gen[&id]));
        }
        let mut got: Vec<ObjectId> = Vec::new();
        for (k, p) in c.iter_parents().enumerate() {
            if k > 16 {
                return Err(format!("parents: {how}: c{i}: parent iteration does not end"));
            }
            let p = match p {
                Ok(p) => p,
                Err(err) => return Err(format!("parent-error: {how}: c{i}: parent #{k}: {err}")),
            };
            if p.0 >= n {
                return Err(format!("parent-position: {how}: c{i}: parent #{k} has graph position {p} >= num_commits {n}"));
            }
            let pc = g.commit_at(p);
            if pc.generation() >= c.generation() {
                return Err(format!("generation: {how}: c{i}: parent #{k} at {p} has generation {} >= {}", pc.generation(), c.generation()));
            }
            got.push(g.id_at(p).to_owned());
        }
        if got != t.parents {
            return Err(format!(
                "parents: {how}: c{i}: parents through the graph = {:?}, commit object says {:?}",
                got.iter().map(name).collect::<Vec<_>>(),
                t.parents.iter().map(name).collect::<Vec<_>>()
            ));
        }
        match c.parent1() {
            Ok(p1) => {
                if p1.map(|p| g.id_at(p).to_owned()) != t.parents.first().copied() {
                    return Err(format!("parents: {how}: c{i}: parent1() = {p1:?}"));
                }
            }
            Err(err) => return Err(format!("parent-error: {how}: c{i}: parent1(): {err}")),
        }
        probes.push((format!("tree of c{i}"), t.tree));
        for (b, d) in [(0usize, 1u8), (0, 255), (19, 1), (19, 255), (1, 1)] {
            probes.push((format!("c{i} with byte {b} changed by {}", d as i8), flip(&id, b, d)));
        }
    }
    probes.push(("null".into(), ObjectId::null(gix_hash::Kind::Sha1)));
    probes.push(("all-ff".into(), ObjectId::from_bytes_or_panic(&[0xff; 20])));
    for (what, id) in probes {
        if l.pos.get(&id).map_or(false, |(f, _)| *f < files) {
            continue;
        }
        if let Some(c) = g.commit_by_id(id) {
            return Err(format!("phantom: {how}: commit_by_id({what} = {id}) found commit {}", c.id()));
        }
        if let Some(p) = g.lookup(id) {
            return Err(format!("phantom: {how}: lookup({what} = {id}) = {p}"));
        }
    }
    Ok(compared)
}

/// Whole-graph observations: size, iteration order == expected positions, gitoxide's own integrity check and its statistics.
fn check_whole(g: &Graph, how: &str, l: &Layout, files: usize, sh: &Shared) -> Result<(), String> {
    let by_pos: Vec<ObjectId> = l.layers[..files].iter().flatten().copied().collect();
    let n = g.num_commits();
    if n as usize != by_pos.len() {
        return Err(format!("num-commits: {how}: num_commits() = {n}, the files hold {} commits", by_pos.len()));
    }
    let short = |v: &[ObjectId]| if v.len() <= 8 { format!("{v:?}") } else { format!("{} ids", v.len()) };
    let it: Vec<ObjectId> = g.iter_ids().map(ToOwned::to_owned).collect();
    if it != by_pos {
        return Err(format!("iteration: {how}: iter_ids() = {}, expected {}", short(&it), short(&by_pos)));
    }
    let it: Vec<ObjectId> = g.iter_commits().map(|c| c.id().to_owned()).collect();
    if it != by_pos {
        return Err(format!("iteration: {how}: iter_commits() ids = {}, expected {}", short(&it), short(&by_pos)));
    }
    for (p, id) in by_pos.iter().enumerate() {
        if g.id_at(Position(p as u32)) != *id {
            return Err(format!("position: {how}: id_at({p}) = {}, expected {id}", g.id_at(Position(p as u32))));
        }
    }
    let mut seen = 0usize;
    match g.verify_integrity(|_| {
        seen += 1;
        Ok::<_, std::convert::Infallible>(())
    }) {
        Err(err) => Err(format!("verify-rejects: {how}: verify_integrity() fails on what git wrote: {err}")),
        Ok(o) => {
            let mut pc: BTreeMap<u32, u32> = BTreeMap::new();
            for id in &by_pos {
                *pc.entry(sh.truth[id].parents.len() as u32).or_default() += 1;
            }
            let longest = by_pos.iter().map(|id| sh.gen[id]).max().map(|g| g - 1);
            if o.num_commits as usize != by_pos.len() || seen != by_pos.len() || o.parent_counts != pc || o.longest_path_length != longest {
                return Err(format!(
                    "verify-stats: {how}: verify_integrity() = {o:?} (visited {seen}), expected {} commits, parent counts {pc:?}, longest path {longest:?}",
                    by_pos.len()
                ));
            }
            Ok(())
        }
    }
}

fn verdict_of(err: String) -> Verdict {
    let (class, detail) = err.split_once(": ").unwrap_or(("other", &err));
    bad(class, detail)
}

pub fn run(run: &'static Run) {
    let quick = run.quick();
    run.rule(
        "DAGs: every commit DAG with n commits where commit i has an ordered parent list of <=3 earlier commits (octopus, several roots; 'ordered' = pairs in \
         both orders, triples ascending and descending; 'ascending' = parent lists in index order only) x committer-time patterns {all equal, skewed = every \
         parent newer than its child, big = times 2^34-1, 2^32, 0, 2^32-1, 2^33, 1 by commit index}; every commit has its own root tree; 'wide' DAGs = every \
         ascending DAG of 4 (thorough: and 5) commits followed by one commit merging ALL of them (4/5 parents), big times. \
         Layouts per DAG: one non-split commit-graph file, and every composition of n into 1..4 stages of commits (index order) with one \
         `git commit-graph write --split=no-merge` per stage => chains of 1..4 files; the graph is opened and compared after EVERY stage, the final one \
         also through Graph::at(info dir | commit-graphs dir | file). \
         Sub dags-alone (graph files hold just that DAG, written with --reachable; DAGs with n<=2 (thorough: n<=3) also a second time with --changed-paths = extra BIDX/BDAT chunks in every file): quick n<=3 ordered x big; thorough n<=3 ordered x 3 patterns, n=4 ordered x big, wide(5) over forests (first 4 commits have <=1 parent). \
         Sub dags-pooled (graph files hold ALL DAGs of that size at once, cut into stages the same way, written with --stdin-commits; thousands of commits \
         per file, hundreds of extra-edge lists): quick n<=4 ordered x 3 patterns, n=5 ascending x big + wide(5); thorough n<=5 ordered x 3 patterns + \
         wide(5), n=6 ascending x big + wide(6). Sub pooled-graphs: whole-file observations for every pooled layout. \
         non-trivial = the DAG has at least one parent edge",
    );
    run.assume("truth about commits = git 2.39.5 (`rev-list --format='%H %T %ct %P'` of every commit, cross-checked against the DAG the fixture was built from); reference generation = 1+max(parent generation), roots 1; expected graph position = files in chain order, ids sorted within a file (git's documented layout; no-merge => file j holds exactly the commits of stage j)");
    run.assume("committer times stay within the 34 bits the format can hold; git writes generation-data (GDA2/GDO2) chunks which gitoxide ignores — generation() is the topological level of the CDAT chunk");
    run.assume("also demanded: Graph::verify_integrity accepts every git-written graph and reports matching statistics (it is gitoxide's second implementation of cross-file position arithmetic and of the generation rule)");
    run.budget_secs(run.pick(36.0, 560.0));

    const PATS: &[u8] = &[1, 2, PAT_BIG];
    let family = |n: usize, ordered: bool, pats: &[u8], out: &mut Vec<Dag>| {
        dag::shapes(n, ordered, |parents| {
            for &p in pats {
                out.push(Dag { parents: parents.clone(), dates: dates(n, p) });
            }
        });
    };
    let wide = |n: usize, out: &mut Vec<Dag>| {
        dag::shapes(n - 1, false, |mut parents| {
            parents.push((0..n as u8 - 1).collect());
            out.push(Dag { parents, dates: dates(n, PAT_BIG) });
        });
    };
    // pools: all DAGs with n commits that share graph files
    let mut pools: BTreeMap<usize, Vec<Dag>> = BTreeMap::new();
    for n in 1..=4 {
        family(n, true, PATS, pools.entry(n).or_default());
    }
    family(5, !quick, if quick { &[PAT_BIG] } else { PATS }, pools.entry(5).or_default());
    wide(5, pools.entry(5).or_default());
    if !quick {
        family(6, false, &[PAT_BIG], pools.entry(6).or_default());
        wide(6, pools.entry(6).or_default());
    }
    // alone: one git process per stage and DAG, so this family is kept small
    let mut alone: Vec<Dag> = Vec::new();
    for n in 1..=3 {
        family(n, true, if quick { &[PAT_BIG] } else { PATS }, &mut alone);
    }
    if !quick {
        family(4, true, &[PAT_BIG], &mut alone);
        // wide octopus over a forest: 4 commits with at most one parent each + one commit merging all four
        let mut w = Vec::new();
        wide(5, &mut w);
        alone.extend(w.into_iter().filter(|d| d.parents[..4].iter().all(|p| p.len() <= 1)));
    }
    // replay: only what the case needs
    let replay_dag = run.replay_case::<DagCase>("dags-alone").or_else(|| run.replay_case::<DagCase>("dags-pooled"));
    let replay_whole = run.replay_case::<WholeCase>("pooled-graphs");
    let mut only_layout: Option<Vec<u8>> = None;
    if let Some(c) = &replay_dag {
        only_layout = Some(c.stages.clone());
        if c.alone {
            pools.clear();
            alone = vec![c.dag.clone()];
        } else {
            pools.retain(|n, _| *n == c.dag.n());
            alone.clear();
        }
    }
    if let Some(c) = &replay_whole {
        only_layout = Some(c.stages.clone());
        pools.retain(|n, _| *n == c.n as usize);
        alone.clear();
    }
    let mut all: Vec<Dag> = pools.values().flatten().cloned().collect();
    all.extend(alone.iter().cloned());
    let t0 = std::time::Instant::now();
    let sh = build(&all);
    run.cov("secs_fixture_fast_import", t0.elapsed().as_secs_f64());
    run.cov("dags_pooled", pools.values().map(Vec::len).sum::<usize>());
    run.cov("dags_alone", alone.len());
    run.cov("distinct_commits", sh.truth.len());
    let sh = &sh;

    // pooled layouts, built in parallel
    let mut wanted: Vec<(usize, Vec<u8>)> = Vec::new();
    for &n in pools.keys() {
        let mut l = vec![vec![]];
        l.extend(compositions(n));
        for s in l {
            if only_layout.as_ref().map_or(true, |o| *o == s) {
                wanted.push((n, s));
            }
        }
    }
    let t0 = std::time::Instant::now();
    let built: Vec<Result<Layout, String>> = {
        let next = AtomicU64::new(0);
        let slots: Vec<std::sync::Mutex<Option<Result<Layout, String>>>> = wanted.iter().map(|_| std::sync::Mutex::new(None)).collect();
        let failed: std::sync::Mutex<Option<String>> = std::sync::Mutex::new(None);
        std::thread::scope(|s| {
            for _ in 0..8 {
                s.spawn(|| loop {
                    let k = next.fetch_add(1, Ordering::Relaxed) as usize;
                    if k >= wanted.len() {
                        break;
                    }
                    let (n, stages) = &wanted[k];
                    let r = vkit::catch(|| {
                        let (split, sizes) = stage_sizes(*n, stages);
                        let mut stage_ids: Vec<Vec<ObjectId>> = Vec::new();
                        let mut start = 0;
                        for len in sizes {
                            let mut v: Vec<ObjectId> = pools[n].iter().flat_map(|d| sh.ids[d][start..start + len].iter().copied()).collect();
                            v.sort();
                            v.dedup();
                            stage_ids.push(v);
                            start += len;
                        }
                        build_layout(sh, &stage_ids, split, false, false)
                    });
                    match r {
                        Ok(l) => *slots[k].lock().unwrap() = Some(l),
                        Err(m) => *failed.lock().unwrap() = Some(m),
                    }
                });
            }
        });
        if let Some(m) = failed.into_inner().unwrap() {
            vkit::machinery!("building pooled layouts failed: {m}");
        }
        slots.into_iter().map(|s| s.into_inner().unwrap().unwrap_or_else(|| vkit::machinery!("layout not built"))).collect()
    };
    let layouts: HashMap<(usize, Vec<u8>), Result<Layout, String>> = wanted.iter().cloned().zip(built).collect();
    run.cov("secs_pooled_layout_writes", t0.elapsed().as_secs_f64());
    run.cov("pooled_layouts", layouts.len());
    run.cov("largest_pooled_file_commits", layouts.values().filter_map(|l| l.as_ref().ok()).flat_map(|l| l.layers.iter().map(Vec::len)).max().unwrap_or(0));
    let (layouts, pools, alone) = (&layouts, &pools, &alone);

    static GRAPHS_COMPARED: AtomicU64 = AtomicU64::new(0);
    static COMMITS_COMPARED: AtomicU64 = AtomicU64::new(0);
    static CHAIN4: AtomicU64 = AtomicU64::new(0);
    static XFILE_EXTRA: AtomicU64 = AtomicU64::new(0);
    static TWO_OCTOPUS: AtomicU64 = AtomicU64::new(0);

    let eval = |c: &DagCase| -> Verdict {
        let d = &c.dag;
        let n = d.n();
        let ids = sh.ids.get(d).unwrap_or_else(|| vkit::machinery!("dag not in fixture: {d:?}"));
        let (split, sizes) = stage_sizes(n, &c.stages);
        let own;
        let layout: &Layout = if c.alone {
            let mut stage_ids = Vec::new();
            let mut start = 0;
            for &len in &sizes {
                stage_ids.push(ids[start..start + len].to_vec());
                start += len;
            }
            own = match build_layout(sh, &stage_ids, split, true, c.bloom) {
                Ok(l) => l,
                Err(e) => return verdict_of(e),
            };
            &own
        } else {
            match layouts.get(&(n, c.stages.clone())).unwrap_or_else(|| vkit::machinery!("no pooled layout for {n} {:?}", c.stages)) {
                Ok(l) => l,
                Err(e) => return verdict_of(e.clone()),
            }
        };
        for (how, g, files) in layout.graphs() {
            GRAPHS_COMPARED.fetch_add(1, Ordering::Relaxed);
            match check_dag(g, &how, layout, files, ids, sh) {
                Ok(k) => COMMITS_COMPARED.fetch_add(k, Ordering::Relaxed),
                Err(e) => return verdict_of(e),
            };
            if c.alone {
                if let Err(e) = check_whole(g, &how, layout, files, sh) {
                    return verdict_of(e);
                }
            }
        }
        // classification
        let mut stage_of = Vec::new();
        for (j, &len) in sizes.iter().enumerate() {
            stage_of.extend(std::iter::repeat(j).take(len));
        }
        let edges: usize = d.parents.iter().map(Vec::len).sum();
        let xfile = (0..n).any(|i| d.parents[i].iter().any(|&p| stage_of[p as usize] != stage_of[i]));
        let xfile_extra = (0..n).any(|i| d.parents[i].len() >= 3 && d.parents[i][1..].iter().any(|&p| stage_of[p as usize] != stage_of[i]));
        let mut oct_per_stage = vec![0usize; sizes.len()];
        for i in 0..n {
            if d.parents[i].len() >= 3 {
                oct_per_stage[stage_of[i]] += 1;
            }
        }
        if sizes.len() == 4 {
            CHAIN4.fetch_add(1, Ordering::Relaxed);
        }
        if xfile_extra {
            XFILE_EXTRA.fetch_add(1, Ordering::Relaxed);
        }
        if oct_per_stage.iter().any(|&c| c >= 2) {
            TWO_OCTOPUS.fetch_add(1, Ordering::Relaxed);
        }
        let class = format!(
            "{}{}{}{}",
            if c.bloom { "bloom:" } else { "" },
            if split { format!("chain-{}", sizes.len()) } else { "single".into() },
            match d.max_parents() {
                0 | 1 => "",
                2 => "+merge",
                3 => "+octopus",
                _ => "+wide-octopus",
            },
            if xfile { "+cross-file-parents" } else { "" }
        );
        if edges == 0 {
            ok_trivial(class)
        } else {
            ok(class)
        }
    };

    let bloom_max_n = run.pick(2, 3);
    let emit_layouts = |d: &Dag, is_alone: bool, emit: &mut dyn FnMut(DagCase)| {
        for bloom in [false, true] {
            if bloom && !(is_alone && d.n() <= bloom_max_n) {
                continue;
            }
            emit(DagCase { dag: d.clone(), stages: vec![], alone: is_alone, bloom });
            for s in compositions(d.n()) {
                emit(DagCase { dag: d.clone(), stages: s, alone: is_alone, bloom });
            }
        }
    };
    let t0 = std::time::Instant::now();
    run.sub_with(
        "dags-pooled",
        vkit::Opts::default().chunk(4096),
        |emit| {
            for ds in pools.values() {
                for d in ds {
                    emit_layouts(d, false, emit);
                }
            }
        },
        &eval,
    );
    run.cov("secs_dags-pooled", t0.elapsed().as_secs_f64());
    let t0 = std::time::Instant::now();
    run.sub_with(
        "pooled-graphs",
        vkit::Opts::default().chunk(1),
        |emit| {
            let mut keys: Vec<&(usize, Vec<u8>)> = layouts.keys().collect();
            keys.sort();
            for (n, s) in keys {
                emit(WholeCase { n: *n as u8, stages: s.clone() });
            }
        },
        |c: &WholeCase| -> Verdict {
            let l = match layouts.get(&(c.n as usize, c.stages.clone())).unwrap_or_else(|| vkit::machinery!("no pooled layout for {c:?}")) {
                Ok(l) => l,
                Err(e) => return verdict_of(e.clone()),
            };
            for (how, g, files) in l.graphs() {
                if let Err(e) = check_whole(g, &how, l, files, sh) {
                    return verdict_of(e);
                }
            }
            ok(if c.stages.is_empty() { "whole-single".to_string() } else { format!("whole-chain-{}", c.stages.len()) })
        },
    );
    run.cov("secs_pooled-graphs", t0.elapsed().as_secs_f64());
    let t0 = std::time::Instant::now();
    run.sub_with(
        "dags-alone",
        vkit::Opts::default().chunk(64),
        |emit| {
            for d in alone {
                emit_layouts(d, true, emit);
            }
        },
        &eval,
    );
    run.cov("secs_dags-alone", t0.elapsed().as_secs_f64());
    run.cov("git_commit_graph_writes", GIT_WRITES.load(Ordering::Relaxed));
    run.cov("graph_x_dag_comparisons", GRAPHS_COMPARED.load(Ordering::Relaxed));
    run.cov("commit_entries_compared", COMMITS_COMPARED.load(Ordering::Relaxed));
    run.cov("cases_with_chain_of_4", CHAIN4.load(Ordering::Relaxed));
    run.cov("cases_with_extra_edge_into_earlier_file", XFILE_EXTRA.load(Ordering::Relaxed));
    run.cov("cases_with_two_octopus_merges_in_one_file", TWO_OCTOPUS.load(Ordering::Relaxed));
    if !run.is_replay() {
        run.require("chains of 4 files were explored", CHAIN4.load(Ordering::Relaxed) > 0);
        run.require("octopus merges whose extra-edge list points into an earlier file were explored", XFILE_EXTRA.load(Ordering::Relaxed) > 0);
        run.require("files with two octopus merges (extra-edge index > 0) were explored", TWO_OCTOPUS.load(Ordering::Relaxed) > 0);
    }
}
