//! Shared by C14/C46/C47: enumeration of ALL small commit DAGs, one repository holding all of them (built with a single
//! `git fast-import`), and exact reference models of ancestry, merge bases and git's rev-list orders.
use gix_hash::ObjectId;
use serde::{Deserialize, Serialize};
use std::collections::HashMap;
use std::path::{Path, PathBuf};

pub const BASE_TIME: i64 = 1_500_000_000;

/// One commit DAG: node i has `parents[i]` (indices < i, in parent order) and committer time BASE_TIME + `dates[i]`.
#[derive(Serialize, Deserialize, Hash, Clone, Debug, PartialEq, Eq)]
pub struct Dag {
    pub parents: Vec<Vec<u8>>,
    pub dates: Vec<i64>,
}

impl Dag {
    pub fn n(&self) -> usize {
        self.parents.len()
    }
    pub fn distinct_dates(&self) -> bool {
        let mut d = self.dates.clone();
        d.sort();
        d.dedup();
        d.len() == self.dates.len()
    }
    /// reflexive ancestor sets as bit masks
    pub fn ancestors(&self) -> Vec<u32> {
        let mut a = vec![0u32; self.n()];
        for i in 0..self.n() {
            a[i] = 1 << i;
            for &p in &self.parents[i] {
                a[i] |= a[p as usize];
            }
        }
        a
    }
    pub fn max_parents(&self) -> usize {
        self.parents.iter().map(Vec::len).max().unwrap_or(0)
    }
}

/// parent lists for node i: ordered selections of <= 3 earlier nodes. `ordered`: both orders of pairs, ascending and descending triples;
/// otherwise ascending index order only.
fn parent_options(i: usize, ordered: bool) -> Vec<Vec<u8>> {
    let mut out = vec![vec![]];
    let i = i as u8;
    for a in 0..i {
        out.push(vec![a]);
    }
    for a in 0..i {
        for b in 0..i {
            if a < b || (ordered && a > b) {
                out.push(vec![a, b]);
            }
        }
    }
    for a in 0..i {
        for b in a + 1..i {
            for c in b + 1..i {
                out.push(vec![a, b, c]);
                if ordered {
                    out.push(vec![c, b, a]);
                }
            }
        }
    }
    out
}

/// date patterns: 0 increasing (children newer), 1 all equal, 2 skewed (every parent newer than its children), 3 zigzag (distinct, mixed), 4 pairs equal
pub fn date_pattern(n: usize, pat: u8) -> Vec<i64> {
    (0..n as i64)
        .map(|i| match pat {
            0 => i * 10,
            1 => 50,
            2 => (n as i64 - i) * 10,
            3 => {
                if i % 2 == 0 {
                    i * 10
                } else {
                    (n as i64 - i) * 10 + 5
                }
            }
            _ => (i / 2) * 10,
        })
        .collect()
}

/// every DAG shape with exactly n commits
pub fn shapes(n: usize, ordered: bool, mut f: impl FnMut(Vec<Vec<u8>>)) {
    fn rec(i: usize, n: usize, ordered: bool, cur: &mut Vec<Vec<u8>>, f: &mut impl FnMut(Vec<Vec<u8>>)) {
        if i == n {
            f(cur.clone());
            return;
        }
        for p in parent_options(i, ordered) {
            cur.push(p);
            rec(i + 1, n, ordered, cur, f);
            cur.pop();
        }
    }
    rec(0, n, ordered, &mut Vec::new(), &mut f);
}

/// all DAGs for a tier: (n, ordered parent lists?, date patterns)
pub fn all_dags(spec: &[(usize, bool, &[u8])]) -> Vec<Dag> {
    let mut out = Vec::new();
    for &(n, ordered, pats) in spec {
        shapes(n, ordered, |parents| {
            for &p in pats {
                out.push(Dag { parents: parents.clone(), dates: date_pattern(n, p) });
            }
        });
    }
    out
}

/// A repository that contains the commits of many DAGs.
pub struct Repo {
    pub git_dir: PathBuf,
    pub ids: HashMap<Dag, Vec<ObjectId>>,
}
impl Repo {
    pub fn objects(&self) -> PathBuf {
        self.git_dir.join("objects")
    }
    pub fn ids_of(&self, d: &Dag) -> &Vec<ObjectId> {
        self.ids.get(d).unwrap_or_else(|| vkit::machinery!("dag not in fixture: {d:?}"))
    }
}

/// Build one bare repository with all commits of `dags` using a single fast-import process. Commit i of a DAG has message "c<i>\n",
/// the empty tree, committer date BASE_TIME+dates[i] and the given parents, so ids are a function of the DAG alone.
pub fn build_repo(tag: &str, dags: &[Dag]) -> Repo {
    let dir = vkit::scratch::Dir::new(tag).keep();
    vkit::git::init_bare(&dir);
    let mut stream = String::new();
    let mut mark = 0usize;
    let mut first_mark = Vec::with_capacity(dags.len());
    for d in dags {
        first_mark.push(mark + 1);
        let base = mark;
        for i in 0..d.n() {
            mark += 1;
            if d.parents[i].is_empty() {
                stream.push_str("reset refs/dag/tip\n\n");
            }
            let msg = format!("c{i}\n");
            stream.push_str(&format!(
                "commit refs/dag/tip\nmark :{mark}\ncommitter C O Mitter <committer@example.com> {} +0000\ndata {}\n{msg}",
                BASE_TIME + d.dates[i],
                msg.len()
            ));
            for (k, &p) in d.parents[i].iter().enumerate() {
                stream.push_str(&format!("{} :{}\n", if k == 0 { "from" } else { "merge" }, base + p as usize + 1));
            }
            if !d.parents[i].is_empty() {
                // fast-import would inherit the first parent's tree anyway; all trees are the empty tree
            }
            stream.push('\n');
        }
    }
    let marks = dir.join("marks");
    vkit::git::git_in(&dir, &["-c", "fastimport.unpackLimit=0", "fast-import", "--quiet", "--force", "--done", &format!("--export-marks={}", marks.display())], format!("{stream}done\n").as_bytes());
    let text = std::fs::read_to_string(&marks).unwrap_or_else(|e| vkit::machinery!("marks: {e}"));
    let mut by_mark: HashMap<usize, ObjectId> = HashMap::new();
    for l in text.lines() {
        let (m, hex) = l.split_once(' ').unwrap_or_else(|| vkit::machinery!("bad marks line {l}"));
        by_mark.insert(
            m.trim_start_matches(':').parse().unwrap_or_else(|_| vkit::machinery!("bad mark {l}")),
            ObjectId::from_hex(hex.trim().as_bytes()).unwrap_or_else(|_| vkit::machinery!("bad id {l}")),
        );
    }
    let mut ids = HashMap::new();
    for (d, &fm) in dags.iter().zip(&first_mark) {
        let v: Vec<ObjectId> =
            (0..d.n()).map(|i| *by_mark.get(&(fm + i)).unwrap_or_else(|| vkit::machinery!("mark {} missing", fm + i))).collect();
        ids.insert(d.clone(), v);
    }
    Repo { git_dir: dir, ids }
}

/// Write one commit-graph file covering all commits in the repository.
pub fn write_commit_graph(repo: &Repo) {
    let mut all: Vec<String> = repo.ids.values().flatten().map(|i| i.to_string()).collect();
    all.sort();
    all.dedup();
    let input = all.join("\n") + "\n";
    vkit::git::git_in(&repo.git_dir, &["commit-graph", "write", "--stdin-commits"], input.as_bytes());
}

/// Write commit-graph files that cover only a part of every DAG: file `info/cg-<k>/commit-graph` holds exactly the commits with creation
/// index < k of every DAG (k = 1..=nmax). As commit i carries the message "c<i>", an object has the same index in every DAG it occurs in,
/// and a prefix in creation order is closed under ancestry, so for each DAG the file covers exactly its first k commits (all of them if k >= n).
/// Call before `write_commit_graph` (each file is written to the standard location and then moved away).
pub fn write_prefix_graphs(repo: &Repo, nmax: usize) {
    let info = repo.objects().join("info");
    for k in 1..=nmax {
        let mut some: Vec<String> = repo.ids.values().flat_map(|v| v.iter().take(k)).map(|i| i.to_string()).collect();
        some.sort();
        some.dedup();
        let _ = std::fs::remove_file(info.join("commit-graph"));
        vkit::git::git_in(&repo.git_dir, &["commit-graph", "write", "--stdin-commits"], (some.join("\n") + "\n").as_bytes());
        let dir = info.join(format!("cg-{k}"));
        std::fs::create_dir_all(&dir).unwrap_or_else(|e| vkit::machinery!("mkdir: {e}"));
        std::fs::rename(info.join("commit-graph"), dir.join("commit-graph")).unwrap_or_else(|e| vkit::machinery!("move commit-graph: {e}"));
        // the file must hold exactly the requested commits (git adds ancestors, of which there are none outside the prefix)
        let g = gix_commitgraph::Graph::from_info_dir(&dir).unwrap_or_else(|e| vkit::machinery!("partial commit-graph unreadable: {e}"));
        if g.num_commits() as usize != some.len() {
            vkit::machinery!("partial commit-graph {k} holds {} commits, expected {}", g.num_commits(), some.len());
        }
    }
}

/// the commit-graph covering the first `k` commits of every DAG
pub fn load_prefix_graph(objects: &Path, k: usize) -> gix_commitgraph::Graph {
    gix_commitgraph::Graph::from_info_dir(&objects.join("info").join(format!("cg-{k}")))
        .unwrap_or_else(|e| vkit::machinery!("partial commit-graph {k} unreadable: {e}"))
}

thread_local! {
    static GRAPHS: std::cell::RefCell<HashMap<(PathBuf, usize), gix_commitgraph::Graph>> = std::cell::RefCell::new(HashMap::new());
}
/// like `load_prefix_graph`, but re-uses the instance a previous traversal on this thread handed back with `give_back_prefix_graph`
/// (the traversals own their commit-graph; re-opening and unmapping the file per case dominated the run time)
pub fn take_prefix_graph(objects: &Path, k: usize) -> gix_commitgraph::Graph {
    GRAPHS.with(|g| g.borrow_mut().remove(&(objects.to_owned(), k))).unwrap_or_else(|| load_prefix_graph(objects, k))
}
pub fn give_back_prefix_graph(objects: &Path, k: usize, graph: Option<gix_commitgraph::Graph>) {
    if let Some(graph) = graph {
        GRAPHS.with(|g| g.borrow_mut().insert((objects.to_owned(), k), graph));
    }
}

pub fn load_commit_graph(objects: &Path) -> gix_commitgraph::Graph {
    gix_commitgraph::Graph::from_info_dir(&objects.join("info")).unwrap_or_else(|e| vkit::machinery!("commit-graph unreadable: {e}"))
}

thread_local! {
    static ODB: std::cell::RefCell<Option<(PathBuf, gix_odb::Handle)>> = const { std::cell::RefCell::new(None) };
}
/// a per-thread object database handle for `objects`
pub fn odb(objects: &Path) -> gix_odb::Handle {
    ODB.with(|c| {
        let mut c = c.borrow_mut();
        if c.as_ref().map(|(p, _)| p != objects).unwrap_or(true) {
            let h = gix_odb::at(objects).unwrap_or_else(|e| vkit::machinery!("open odb: {e}"));
            *c = Some((objects.to_owned(), h));
        }
        c.as_ref().unwrap().1.clone()
    })
}

// ---------------------------------------------------------------- reference models

/// `git merge-base --all first others..`: best common ancestors of `first` and a hypothetical merge of `others`.
pub fn model_merge_bases(d: &Dag, first: usize, others: &[usize]) -> Vec<usize> {
    let anc = d.ancestors();
    let theirs = others.iter().fold(0u32, |m, &o| m | anc[o]);
    let common = anc[first] & theirs;
    (0..d.n())
        .filter(|&c| common >> c & 1 == 1)
        .filter(|&c| !(0..d.n()).any(|e| e != c && common >> e & 1 == 1 && anc[e] >> c & 1 == 1))
        .collect()
}

/// the set a walk from `tips` hiding everything reachable from `hidden` shows (with `first_parent`, both walks follow first parents only)
pub fn model_reachable(d: &Dag, tips: &[usize], hidden: &[usize], first_parent: bool) -> u32 {
    let reach = |from: &[usize]| {
        let mut m = 0u32;
        let mut stack: Vec<usize> = from.to_vec();
        while let Some(x) = stack.pop() {
            if m >> x & 1 == 1 {
                continue;
            }
            m |= 1 << x;
            for (k, &p) in d.parents[x].iter().enumerate() {
                if !first_parent || k == 0 {
                    stack.push(p as usize);
                }
            }
        }
        m
    };
    reach(tips) & !reach(hidden)
}

/// git's default order (`git rev-list tips ^hidden`): the tips sorted by date (stable), then repeatedly the head of a list kept sorted by
/// date, parents inserted behind entries of the same date. Restricted to `set` (what limit_list leaves over).
pub fn model_default_order(d: &Dag, tips: &[usize], set: u32, first_parent: bool) -> Vec<usize> {
    let mut list: Vec<usize> = Vec::new();
    let mut seen = 0u32;
    let insert = |list: &mut Vec<usize>, x: usize| {
        let pos = list.iter().position(|&y| d.dates[y] < d.dates[x]).unwrap_or(list.len());
        list.insert(pos, x);
    };
    let mut t: Vec<usize> = Vec::new();
    for &x in tips {
        if seen >> x & 1 == 0 {
            seen |= 1 << x;
            t.push(x);
        }
    }
    t.sort_by(|a, b| d.dates[*b].cmp(&d.dates[*a])); // stable
    list.extend(t);
    let mut out = Vec::new();
    while !list.is_empty() {
        let x = list.remove(0);
        if set >> x & 1 == 1 {
            out.push(x);
        }
        for (k, &p) in d.parents[x].iter().enumerate() {
            if first_parent && k > 0 {
                break;
            }
            let p = p as usize;
            if seen >> p & 1 == 0 {
                seen |= 1 << p;
                insert(&mut list, p);
            }
        }
    }
    out
}

/// git's sort_in_topological_order on the list produced by the default walk. `by_date`: --date-order, else --topo-order (LIFO).
pub fn model_topo_order(d: &Dag, default_order: &[usize], first_parent: bool, by_date: bool) -> Vec<usize> {
    let n = d.n();
    let inset = default_order.iter().fold(0u32, |m, &x| m | 1 << x);
    let mut indeg = vec![0usize; n];
    for &x in default_order {
        indeg[x] = 1;
    }
    let parents_of = |x: usize| -> Vec<usize> {
        d.parents[x].iter().enumerate().filter(|(k, _)| !first_parent || *k == 0).map(|(_, &p)| p as usize).collect()
    };
    for &x in default_order {
        for p in parents_of(x) {
            if inset >> p & 1 == 1 {
                indeg[p] += 1;
            }
        }
    }
    // queue entries carry an insertion counter: date order = max date, then earliest inserted; topo order = LIFO
    let mut queue: Vec<(usize, usize)> = Vec::new();
    let mut ctr = 0usize;
    for &x in default_order {
        if indeg[x] == 1 {
            queue.push((x, ctr));
            ctr += 1;
        }
    }
    if !by_date {
        queue.reverse();
    }
    let mut out = Vec::new();
    loop {
        let pos = if by_date {
            let mut best: Option<usize> = None;
            for (i, &(x, c)) in queue.iter().enumerate() {
                best = match best {
                    None => Some(i),
                    Some(b) => {
                        let (bx, bc) = queue[b];
                        if d.dates[x] > d.dates[bx] || (d.dates[x] == d.dates[bx] && c < bc) {
                            Some(i)
                        } else {
                            Some(b)
                        }
                    }
                };
            }
            best
        } else if queue.is_empty() {
            None
        } else {
            Some(queue.len() - 1)
        };
        let Some(pos) = pos else { break };
        let (x, _) = queue.remove(pos);
        for p in parents_of(x) {
            if inset >> p & 1 == 0 || indeg[p] == 0 {
                continue;
            }
            indeg[p] -= 1;
            if indeg[p] == 1 {
                queue.push((p, ctr));
                ctr += 1;
            }
        }
        indeg[x] = 0;
        out.push(x);
    }
    out
}
