//! C47 — commit walks agree with git rev-list (E1: all small commit DAGs x tips x hidden x traversal modes).
use crate::dag::{self, Dag};
use gix_hash::ObjectId;
use gix_traverse::commit::{simple, topo, Parents, Simple};
use serde::{Deserialize, Serialize};
use std::sync::atomic::{AtomicU64, Ordering};
use vkit::{bad, ok, ok_trivial, Run, Verdict};

/// 0 Simple breadth-first, 1 Simple newest-first, 2 Simple oldest-first, 3 Simple first-parent, 4 Simple newest-first with cut-off,
/// 5 Topo date-order, 6 Topo topo-order, 7 Topo date-order first-parent, 8 Topo topo-order first-parent
const MODES: u8 = 9;
const MODE_NAMES: [&str; 9] = ["bfs", "newest", "oldest", "first-parent", "cutoff", "topo-date", "topo-topo", "topo-date-fp", "topo-topo-fp"];

#[derive(Serialize, Deserialize, Hash, Clone, Debug)]
struct Case {
    dag: Dag,
    tips: Vec<u8>,
    hidden: Vec<u8>,
    mode: u8,
    /// 0 = no commit-graph, k = a commit-graph that covers only the first k commits (creation order) of the DAG; k = n is the complete one
    graph: u8,
    git: bool,
}

fn mask(v: &[usize]) -> u32 {
    v.iter().fold(0, |m, &x| m | 1 << x)
}

/// cut-off used by mode 4: the median date of the DAG
fn cutoff(d: &Dag) -> i64 {
    let mut s = d.dates.clone();
    s.sort();
    s[s.len() / 2]
}

/// commits a cut-off walk may show: reachable from a tip through commits not older than the cut-off (the documented behaviour)
fn model_cutoff_set(d: &Dag, tips: &[usize], cut: i64) -> u32 {
    let mut m = 0u32;
    let mut stack: Vec<usize> = tips.iter().copied().filter(|&t| d.dates[t] >= cut).collect();
    while let Some(x) = stack.pop() {
        if m >> x & 1 == 1 {
            continue;
        }
        m |= 1 << x;
        for &p in &d.parents[x] {
            if d.dates[p as usize] >= cut {
                stack.push(p as usize);
            }
        }
    }
    m
}

/// is `seq` a run of a date-priority walk (any tie-breaking)? each shown commit must be in the frontier with the extreme date
fn valid_date_walk(d: &Dag, tips: &[usize], seq: &[usize], newest: bool, cut: Option<i64>) -> bool {
    let keep = |x: usize| cut.map_or(true, |c| d.dates[x] >= c);
    let mut frontier: Vec<usize> = Vec::new();
    let mut seen = 0u32;
    for &t in tips {
        if seen >> t & 1 == 0 {
            seen |= 1 << t;
            if keep(t) {
                frontier.push(t);
            }
        }
    }
    for &x in seq {
        let Some(pos) = frontier.iter().position(|&f| f == x) else { return false };
        let best = if newest { frontier.iter().map(|&f| d.dates[f]).max() } else { frontier.iter().map(|&f| d.dates[f]).min() };
        if Some(d.dates[x]) != best {
            return false;
        }
        frontier.remove(pos);
        for &p in &d.parents[x] {
            let p = p as usize;
            if seen >> p & 1 == 0 {
                seen |= 1 << p;
                if keep(p) {
                    frontier.push(p);
                }
            }
        }
    }
    frontier.is_empty()
}

/// is `seq` a topological order of `set` (children first; with `by_date` the newest ready commit first, any tie-breaking)?
fn valid_topo(d: &Dag, seq: &[usize], set: u32, first_parent: bool, by_date: bool) -> bool {
    let n = d.n();
    let parents_of = |x: usize| -> Vec<usize> {
        d.parents[x].iter().enumerate().filter(|(k, _)| !first_parent || *k == 0).map(|(_, &p)| p as usize).filter(|&p| set >> p & 1 == 1).collect()
    };
    let mut indeg = vec![0usize; n];
    for x in 0..n {
        if set >> x & 1 == 1 {
            for p in parents_of(x) {
                indeg[p] += 1;
            }
        }
    }
    let mut done = 0u32;
    for &x in seq {
        if set >> x & 1 == 0 || done >> x & 1 == 1 || indeg[x] != 0 {
            return false;
        }
        if by_date {
            let best = (0..n).filter(|&y| set >> y & 1 == 1 && done >> y & 1 == 0 && indeg[y] == 0).map(|y| d.dates[y]).max();
            if best != Some(d.dates[x]) {
                return false;
            }
        }
        done |= 1 << x;
        for p in parents_of(x) {
            indeg[p] -= 1;
        }
    }
    done == set
}

struct Expect {
    set: u32,
    /// exact sequence if the order is fully determined by the statement
    exact: Option<Vec<usize>>,
}

fn expect(d: &Dag, tips: &[usize], hidden: &[usize], mode: u8) -> Expect {
    let distinct = d.distinct_dates();
    match mode {
        0 | 2 => Expect { set: dag::model_reachable(d, tips, &[], false), exact: None },
        1 => {
            let set = dag::model_reachable(d, tips, &[], false);
            Expect { set, exact: distinct.then(|| dag::model_default_order(d, tips, set, false)) }
        }
        3 => {
            let set = dag::model_reachable(d, tips, &[], true);
            Expect { set, exact: (tips.len() == 1).then(|| dag::model_default_order(d, tips, set, true)) }
        }
        4 => Expect { set: model_cutoff_set(d, tips, cutoff(d)), exact: None },
        _ => {
            let fp = mode >= 7;
            let by_date = mode == 5 || mode == 7;
            let set = dag::model_reachable(d, tips, hidden, fp);
            let base = dag::model_default_order(d, tips, set, fp);
            Expect { set, exact: distinct.then(|| dag::model_topo_order(d, &base, fp, by_date)) }
        }
    }
}

fn git_args(mode: u8) -> Option<Vec<&'static str>> {
    Some(match mode {
        1 => vec![],
        3 => vec!["--first-parent"],
        5 => vec!["--date-order"],
        6 => vec!["--topo-order"],
        7 => vec!["--date-order", "--first-parent"],
        8 => vec!["--topo-order", "--first-parent"],
        _ => return None,
    })
}

fn tip_sets(n: usize, mut f: impl FnMut(Vec<u8>)) {
    for a in 0..n as u8 {
        f(vec![a]);
    }
    for a in 0..n as u8 {
        for b in a + 1..n as u8 {
            f(vec![a, b]);
            if (a + b) % 2 == 1 {
                f(vec![b, a]);
            }
        }
    }
}

pub fn run(run: &'static Run) {
    let quick = run.quick();
    run.rule(
        "DAGs as in C46 (ordered parent lists <=3, 5 committer-date patterns incl. all-equal, equal pairs and skewed): quick n<=3 full + n=4 with ascending \
         parent lists and equal/skewed/zigzag dates; thorough n<=4 full + n=5 with ascending parent lists and skewed/zigzag dates. tips: every single commit and every pair (half of the pairs also reversed); hidden: none or one \
         commit not among the tips (Topo modes only; Simple has no hidden commits); 9 modes: Simple breadth-first / newest-first / oldest-first / \
         first-parent / newest-first with cut-off at the median date; Topo date-order / topo-order, each with all parents and first-parent. Each without commit-graph and with \
         every commit-graph git writes for a prefix (in creation order, hence ancestor-closed) of k = 1..n commits of the DAG (k = n: complete graph; k < n: \
         the newer commits and possibly some tips are outside the graph). non-trivial = the expected walk shows >= 2 commits",
    );
    run.assume("each-once and the reachable set are demanded in every mode. The exact sequence is demanded where the statement determines it: newest-first and Topo orders on DAGs with pairwise distinct dates (== reference model of git's rev-list, validated against git rev-list on DAGs n<=2 quick / n<=3 thorough), first-parent chains of a single tip. With equal dates gitoxide's binary heap and git's stable list may break ties differently, there the sequence must be *a* valid run (frontier-extreme date for date walks; children before parents, newest ready commit first for --date-order)");
    run.assume("first-parent Topo modes are run without hidden commits (git's --first-parent also restricts the walk from hidden commits)");
    run.budget_secs(run.pick(36.0, 560.0));

    let all: &[u8] = &[0, 1, 2, 3, 4];
    let spec: Vec<(usize, bool, &[u8])> = if quick {
        vec![(1, true, all), (2, true, all), (3, true, all), (4, false, &[1, 2, 3])]
    } else {
        vec![(1, true, all), (2, true, all), (3, true, all), (4, true, all), (5, false, &[2, 3])]
    };
    let dags: Vec<Dag> = match run.replay_case::<serde_json::Value>("walks").or_else(|| run.replay_case::<serde_json::Value>("git-crosscheck")) {
        Some(v) => vec![serde_json::from_value(v["dag"].clone()).unwrap_or_else(|e| vkit::machinery!("replay case: {e}"))],
        None => dag::all_dags(&spec),
    };
    let repo = dag::build_repo("c47", &dags);
    dag::write_prefix_graphs(&repo, dags.iter().map(Dag::n).max().unwrap_or(1));
    dag::write_commit_graph(&repo);
    let objects = repo.objects();
    run.cov("dags", dags.len());
    let (repo, objects, dags) = (&repo, &objects, &dags);

    static GIT_CALLS: AtomicU64 = AtomicU64::new(0);
    static EXACT: AtomicU64 = AtomicU64::new(0);
    static TIES: AtomicU64 = AtomicU64::new(0);
    static HIDDEN_CUTS: AtomicU64 = AtomicU64::new(0);
    static PARTIAL: AtomicU64 = AtomicU64::new(0);
    static STRADDLE: AtomicU64 = AtomicU64::new(0);

    let eval = move |c: &Case| -> Verdict {
        let d = &c.dag;
        let ids = repo.ids_of(d);
        let tips: Vec<usize> = c.tips.iter().map(|&x| x as usize).collect();
        let hidden: Vec<usize> = c.hidden.iter().map(|&x| x as usize).collect();
        let exp = expect(d, &tips, &hidden, c.mode);
        if c.git {
            if let Some(extra) = git_args(c.mode) {
                let mut args: Vec<String> = vec!["rev-list".into()];
                args.extend(extra.iter().map(|s| s.to_string()));
                args.extend(tips.iter().map(|&t| ids[t].to_string()));
                args.extend(hidden.iter().map(|&t| format!("^{}", ids[t])));
                let out = String::from_utf8_lossy(&vkit::git::git(&repo.git_dir, &args)).to_string();
                GIT_CALLS.fetch_add(1, Ordering::Relaxed);
                let g: Vec<usize> = out
                    .lines()
                    .map(|l| ids.iter().position(|i| i.to_string() == l.trim()).unwrap_or_else(|| vkit::machinery!("git printed a foreign id {l}")))
                    .collect();
                if mask(&g) != exp.set || g.len() != exp.set.count_ones() as usize {
                    vkit::machinery!("reference model disagrees with git on the set: git {g:?}, model {:#b}, case {c:?}", exp.set);
                }
                if let Some(e) = &exp.exact {
                    if &g != e {
                        vkit::machinery!("reference model disagrees with git on the order: git {g:?}, model {e:?}, case {c:?}");
                    }
                }
            }
        }
        let odb = dag::odb(objects);
        let cg = (c.graph > 0).then(|| dag::take_prefix_graph(objects, c.graph as usize));
        if c.graph > 0 && (c.graph as usize) < d.n() {
            PARTIAL.fetch_add(1, Ordering::Relaxed);
            let inside = |x: usize| x < c.graph as usize;
            if tips.iter().any(|&t| inside(t)) && tips.iter().any(|&t| !inside(t)) {
                STRADDLE.fetch_add(1, Ordering::Relaxed);
            }
        }
        let tip_ids: Vec<ObjectId> = tips.iter().map(|&t| ids[t]).collect();
        let collect = |it: &mut dyn Iterator<Item = Result<gix_traverse::commit::Info, String>>| -> Result<Vec<usize>, String> {
            let mut v = Vec::new();
            for info in it {
                let info = info?;
                v.push(ids.iter().position(|i| *i == info.id).ok_or_else(|| format!("foreign id {}", info.id))?);
                if v.len() > 64 {
                    return Err("walk does not terminate (more than 64 items)".into());
                }
            }
            Ok(v)
        };
        let seq = match c.mode {
            0..=4 => {
                let sorting = match c.mode {
                    1 => simple::Sorting::ByCommitTime(simple::CommitTimeOrder::NewestFirst),
                    2 => simple::Sorting::ByCommitTime(simple::CommitTimeOrder::OldestFirst),
                    4 => simple::Sorting::ByCommitTimeCutoff { order: simple::CommitTimeOrder::NewestFirst, seconds: dag::BASE_TIME + cutoff(d) },
                    _ => simple::Sorting::BreadthFirst,
                };
                let walk = match Simple::new(tip_ids.clone(), &odb).sorting(sorting) {
                    Ok(w) => w,
                    Err(e) => return bad("error", format!("sorting(): {e}")),
                };
                let mut walk = walk.parents(if c.mode == 3 { Parents::First } else { Parents::All }).commit_graph(cg);
                let r = collect(&mut walk.by_ref().map(|r| r.map_err(|e| e.to_string())));
                dag::give_back_prefix_graph(objects, c.graph as usize, walk.verif_take_commit_graph());
                r
            }
            _ => {
                let hid: Vec<ObjectId> = hidden.iter().map(|&t| ids[t]).collect();
                let b = topo::Builder::from_iters(&odb, tip_ids.clone(), Some(hid))
                    .sorting(if c.mode == 5 || c.mode == 7 { topo::Sorting::DateOrder } else { topo::Sorting::TopoOrder })
                    .parents(if c.mode >= 7 { Parents::First } else { Parents::All })
                    .with_commit_graph(cg);
                match b.build() {
                    Ok(mut w) => {
                        let r = collect(&mut w.by_ref().map(|r| r.map_err(|e| e.to_string())));
                        dag::give_back_prefix_graph(objects, c.graph as usize, w.verif_take_commit_graph());
                        r
                    }
                    Err(e) => Err(format!("build(): {e}")),
                }
            }
        };
        let name = MODE_NAMES[c.mode as usize];
        let seq = match seq {
            Ok(s) => s,
            Err(e) => return bad("error", format!("{name}: {e}")),
        };
        let m = mask(&seq);
        if seq.len() != m.count_ones() as usize {
            return bad("duplicate", format!("{name}: a commit is returned twice: {seq:?}"));
        }
        if m != exp.set {
            return bad("wrong-set", format!("{name}: returned {seq:?}, expected the set {:?}", (0..d.n()).filter(|&x| exp.set >> x & 1 == 1).collect::<Vec<_>>()));
        }
        if !hidden.is_empty() && exp.set != dag::model_reachable(d, &tips, &[], false) {
            HIDDEN_CUTS.fetch_add(1, Ordering::Relaxed);
        }
        let class: String;
        if let Some(e) = &exp.exact {
            if &seq != e {
                return bad("wrong-order", format!("{name}: returned {seq:?}, git rev-list gives {e:?}"));
            }
            EXACT.fetch_add(1, Ordering::Relaxed);
            class = format!("{name}-exact");
        } else {
            let valid = match c.mode {
                0 | 3 => true,
                1 => valid_date_walk(d, &tips, &seq, true, None),
                2 => valid_date_walk(d, &tips, &seq, false, None),
                4 => valid_date_walk(d, &tips, &seq, true, Some(cutoff(d))),
                5 | 7 => valid_topo(d, &seq, exp.set, c.mode >= 7, true),
                _ => valid_topo(d, &seq, exp.set, c.mode >= 7, false),
            };
            if !valid {
                return bad("invalid-order", format!("{name}: {seq:?} is not a valid {name} sequence for any tie-breaking"));
            }
            if matches!(c.mode, 1 | 5 | 6 | 7 | 8) {
                TIES.fetch_add(1, Ordering::Relaxed);
            }
            class = format!("{name}-valid");
        }
        if seq.len() >= 2 {
            ok(class)
        } else {
            ok_trivial(class)
        }
    };

    let gen = |emit: &mut dyn FnMut(Case), git: bool| {
        for d in dags {
            let n = d.n();
            if git {
                let pat = (0..5u8).find(|&p| d.dates == dag::date_pattern(n, p));
                let _ = pat;
                let sel = if quick { n <= 2 } else { n <= 3 };
                if !sel {
                    continue;
                }
            }
            tip_sets(n, |tips| {
                for mode in 0..MODES {
                    if git && git_args(mode).is_none() {
                        continue;
                    }
                    let mut hiddens: Vec<Vec<u8>> = vec![vec![]];
                    if mode == 5 || mode == 6 {
                        hiddens.extend((0..n as u8).filter(|h| !tips.contains(h)).map(|h| vec![h]));
                    }
                    for hidden in hiddens {
                        for graph in 0..=n as u8 {
                            if git && graph > 0 {
                                continue;
                            }
                            emit(Case { dag: d.clone(), tips: tips.clone(), hidden: hidden.clone(), mode, graph, git });
                        }
                    }
                }
            });
        }
    };
    run.sub_with("walks", vkit::Opts::default().chunk(8192), |emit| gen(emit, false), &eval);
    run.sub_with("git-crosscheck", vkit::Opts::default().chunk(64), |emit| gen(emit, true), &eval);

    run.cov("git_calls", GIT_CALLS.load(Ordering::Relaxed));
    run.cov("exact_sequence_comparisons", EXACT.load(Ordering::Relaxed));
    run.cov("tie_cases_checked_for_validity", TIES.load(Ordering::Relaxed));
    run.cov("walks_where_hidden_commit_removes_something", HIDDEN_CUTS.load(Ordering::Relaxed));
    run.cov("walks_with_partial_commit_graph", PARTIAL.load(Ordering::Relaxed));
    run.cov("walks_with_one_tip_inside_and_one_outside_the_commit_graph", STRADDLE.load(Ordering::Relaxed));
    run.require("partial commit-graphs with tips on both sides were explored", STRADDLE.load(Ordering::Relaxed) > 0);
    run.require("exact sequences were compared", EXACT.load(Ordering::Relaxed) > 0);
    run.require("hidden commits cut something off", HIDDEN_CUTS.load(Ordering::Relaxed) > 0);
    run.require("git was consulted", GIT_CALLS.load(Ordering::Relaxed) > 0);
}
