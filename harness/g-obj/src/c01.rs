//! C01 — object encoding round-trips and declares its exact size (E1: bounded-exhaustive inputs).
use bstr::{BString, ByteSlice};
use gix_actor::Signature;
use gix_date::{time::Sign, Time};
use gix_hash::ObjectId;
use gix_object::{tree, Commit, Kind, Object, ObjectRef, Tag, Tree, WriteTo};
use serde::{Deserialize, Serialize};
use vkit::{bad, enumerate, ok, ok_trivial, Run, Verdict, B};

#[derive(Serialize, Deserialize, Hash, Clone, Debug)]
struct TimeCase {
    seconds: i64,
    offset: i32,
    minus: bool,
}
impl TimeCase {
    fn time(&self) -> Time {
        Time { seconds: self.seconds, offset: self.offset, sign: if self.minus { Sign::Minus } else { Sign::Plus } }
    }
}

fn offsets() -> Vec<(i32, bool)> {
    // whole minutes, sign consistent with offset (what git can represent); (0,+) and (0,-) both exist in git
    let mins: [i32; 9] = [0, 1, 59, 60, 9 * 60 + 59, 10 * 60, 14 * 60, 99 * 60 + 59, 100 * 60];
    let mut v = Vec::new();
    for m in mins {
        v.push((m * 60, false));
        v.push((-m * 60, true));
    }
    v.dedup();
    v
}

fn id(n: u8) -> ObjectId {
    let mut b = [0u8; 20];
    b[0] = n;
    b[19] = n.wrapping_mul(7);
    ObjectId::from(b)
}

fn sig(name: &[u8], email: &[u8], t: Time) -> Signature {
    Signature { name: name.into(), email: email.into(), time: t }
}

/// size()==bytes written, loose header parses back, decode == value. Returns the bytes.
fn roundtrip(obj: &Object) -> Result<Result<Vec<u8>, String>, String> {
    roundtrip_to(obj, obj)
}
/// like `roundtrip`, but the decoded value must equal `expect` (the canonical form of `obj`).
fn roundtrip_to(obj: &Object, expect: &Object) -> Result<Result<Vec<u8>, String>, String> {
    let mut buf = Vec::new();
    if let Err(e) = obj.write_to(&mut buf) {
        return Ok(Err(e.to_string()));
    }
    if obj.size() != buf.len() as u64 {
        return Err(format!("size: size() = {} but write_to() wrote {} bytes", obj.size(), buf.len()));
    }
    let hdr = obj.loose_header();
    match gix_object::decode::loose_header(&hdr) {
        Ok((k, s, consumed)) => {
            if k != obj.kind() || s != buf.len() as u64 || consumed != hdr.len() {
                return Err(format!(
                    "loose_header: header {:?} decodes to ({k:?},{s},{consumed}) for body of {} bytes",
                    hdr.as_bstr(),
                    buf.len()
                ));
            }
        }
        Err(e) => return Err(format!("loose_header: {:?} does not parse: {e}", hdr.as_bstr())),
    }
    let back = match ObjectRef::from_bytes(obj.kind(), &buf) {
        Ok(r) => r.into_owned(),
        Err(e) => return Err(format!("decode: written bytes {:?} do not decode: {e}", buf.as_bstr())),
    };
    if &back != expect {
        return Err(format!("roundtrip: decoded {back:?} != written {expect:?}"));
    }
    Ok(Ok(buf))
}

#[derive(Serialize, Deserialize, Hash, Clone, Debug)]
struct SigCase {
    name: B,
    email: B,
}

#[derive(Serialize, Deserialize, Hash, Clone, Debug)]
struct CommitCase {
    parents: u8,
    author: (B, B, TimeCase),
    committer_time: TimeCase,
    encoding: Option<B>,
    extra: Vec<(B, B)>,
    message: B,
}
impl CommitCase {
    fn build(&self) -> Commit {
        Commit {
            tree: id(1),
            parents: (0..self.parents).map(|i| id(10 + i)).collect(),
            author: sig(&self.author.0, &self.author.1, self.author.2.time()),
            committer: sig(b"C O Mitter", b"c@example.com", self.committer_time.time()),
            encoding: self.encoding.as_ref().map(|e| BString::from(e.0.clone())),
            message: self.message.0.clone().into(),
            extra_headers: self.extra.iter().map(|(k, v)| (BString::from(k.0.clone()), BString::from(v.0.clone()))).collect(),
        }
    }
}

#[derive(Serialize, Deserialize, Hash, Clone, Debug)]
struct TagCase {
    kind: u8,
    name: B,
    tagger: Option<TimeCase>,
    message: B,
    pgp: Option<B>,
}
fn kind_of(k: u8) -> Kind {
    [Kind::Commit, Kind::Tree, Kind::Blob, Kind::Tag][k as usize % 4]
}

#[derive(Serialize, Deserialize, Hash, Clone, Debug)]
struct TreeCase {
    entries: Vec<(B, u8)>,
}
const MODES: [tree::EntryKind; 5] =
    [tree::EntryKind::Tree, tree::EntryKind::Blob, tree::EntryKind::BlobExecutable, tree::EntryKind::Link, tree::EntryKind::Commit];

pub fn run(run: &'static Run) {
    run.rule("time: every i64 boundary (0, +-2^k(+-1), +-10^k(+-1), MIN, MAX) x 17 whole-minute offsets incl. 100h (must be refused) x sign of zero; \
        signatures: names/emails over {a,' ',e-acute,'.','<','>',LF} len<=2; commits: parents 0..3 x boundary times x encoding x extra-header shapes x message shapes; \
        tags: kind x ref-name tokens x tagger x message x pgp block; trees: sorted subsets (<=3) of 7 names x 5 modes; blobs of 5 sizes. \
        non-trivial = value accepted for writing and fully round-tripped (size, loose header, decode, and for the git sub-check the id)");
    run.assume("offsets are whole minutes and the sign field is consistent with the offset (the domain git can represent)");
    let bounds = enumerate::boundaries_i64();
    let offs = offsets();

    // ---- time ----
    run.sub(
        "time",
        |emit| {
            for &s in &bounds {
                for &(o, m) in &offs {
                    emit(TimeCase { seconds: s, offset: o, minus: m });
                }
            }
        },
        |c: &TimeCase| -> Verdict {
            let t = c.time();
            let mut buf = Vec::new();
            if let Err(e) = t.write_to(&mut buf) {
                return if c.offset.unsigned_abs() >= 100 * 3600 { ok_trivial("refused-offset") } else { bad("refused", format!("{e}")) };
            }
            if c.offset.unsigned_abs() >= 100 * 3600 {
                return bad("accepted-100h", format!("wrote {:?}", buf.as_bstr()));
            }
            if t.size() != buf.len() {
                return bad("size", format!("Time::size() = {} but wrote {:?} ({} bytes)", t.size(), buf.as_bstr(), buf.len()));
            }
            // decode through the signature parser (the only decoder of this format in an object)
            let mut line = b"n <e> ".to_vec();
            line.extend_from_slice(&buf);
            match gix_actor::SignatureRef::from_bytes::<()>(&line) {
                Ok(s) if s.time == t => ok(if c.seconds < 0 { "neg" } else { "nonneg" }),
                Ok(s) => bad("roundtrip", format!("{:?} decodes to {:?}, wrote {:?}", buf.as_bstr(), s.time, t)),
                Err(_) => bad("decode", format!("{:?} does not decode", buf.as_bstr())),
            }
        },
    );

    // ---- signatures ----
    let toks: [&[u8]; 7] = [b"a", b" ", "é".as_bytes(), b".", b"<", b">", b"\n"];
    run.sub(
        "signature",
        |emit| {
            let mut all = Vec::new();
            enumerate::strings(&toks, 0, 2, |s| all.push(s.to_vec()));
            for n in &all {
                for e in &all {
                    emit(SigCase { name: B(n.clone()), email: B(e.clone()) });
                }
            }
        },
        |c: &SigCase| -> Verdict {
            let s = sig(&c.name, &c.email, Time { seconds: -10, offset: 0, sign: Sign::Plus });
            let illegal = c.name.iter().chain(c.email.iter()).any(|b| b"<>\n".contains(b));
            let mut buf = Vec::new();
            match s.write_to(&mut buf) {
                Err(_) if illegal => ok_trivial("refused"),
                Err(e) => bad("refused", format!("{e}")),
                Ok(()) if illegal => bad("accepted-illegal", format!("wrote {:?}", buf.as_bstr())),
                Ok(()) => {
                    if s.size() != buf.len() {
                        return bad("size", format!("Signature::size() = {} but wrote {} bytes {:?}", s.size(), buf.len(), buf.as_bstr()));
                    }
                    let surrounded = |b: &[u8]| b.first() == Some(&b' ') || b.last() == Some(&b' ');
                    match gix_actor::SignatureRef::from_bytes::<()>(&buf) {
                        Ok(r) if r.to_owned() == s => ok("roundtrip"),
                        // surrounding whitespace is outside the stated writable domain
                        Ok(_) | Err(_) if surrounded(&c.name) || surrounded(&c.email) => ok_trivial("outside-domain-whitespace"),
                        Ok(r) => bad("roundtrip", format!("{:?} decodes to {:?}", buf.as_bstr(), r)),
                        Err(_) => bad("decode", format!("{:?} does not decode", buf.as_bstr())),
                    }
                }
            }
        },
    );

    // ---- commits ----
    let times: Vec<i64> = if run.quick() {
        vec![0, 9, 10, 1112911993, -1, -9, -10, -11, -100, -1000, -99999, -100000, -1_000_000_000_000_000_000, i64::MIN, i64::MAX, 999_999_999_999_999_999, 1_000_000_000_000_000_000]
    } else {
        bounds.clone()
    };
    let extras: Vec<Vec<(B, B)>> = vec![
        vec![],
        vec![(B::from("x"), B::from("v"))],
        vec![(B::from("gpgsig"), B::from("-----BEGIN\n\nline\n-----END"))],
        vec![(B::from("gpgsig"), B::from("a\nb\n"))],
        vec![(B::from("mergetag"), B::from("object 1\n\nmsg\n")), (B::from("y"), B::from("1"))],
        vec![(B::from("e"), B::from(""))],
        // carriage returns belong to the value: CRLF lines in a multi-line value, a single line ending in CR, a lone CR inside
        vec![(B::from("gpgsig"), B::from("a\r\nb\r\n"))],
        vec![(B::from("gpgsig"), B::from("a\r\n\r\nb\n")), (B::from("x"), B::from("v\r"))],
        vec![(B::from("mergetag"), B::from("o\rp\nq\r\n"))],
    ];
    let messages: Vec<B> = vec![B::from(""), B::from("m"), B::from("m\n"), B::from("\n\nm"), B(vec![0, 0xff, b'\n'])];
    run.sub(
        "commit",
        |emit| {
            for &secs in &times {
                for &(o, m) in &offs {
                    let tc = TimeCase { seconds: secs, offset: o, minus: m };
                    for parents in 0..=3u8 {
                        for enc in [None, Some(B::from("ISO-8859-1"))] {
                            for (xi, extra) in extras.iter().enumerate() {
                                for (mi, msg) in messages.iter().enumerate() {
                                    // pairwise reduction in quick tier: vary one secondary axis at a time
                                    if run.quick() && !(parents == 1 && enc.is_none() || xi == 0 && mi == 1) {
                                        continue;
                                    }
                                    emit(CommitCase {
                                        parents,
                                        author: (B::from("A é"), B::from("a@b"), tc.clone()),
                                        committer_time: TimeCase { seconds: secs.wrapping_neg(), offset: -o, minus: !m && o != 0 || o == 0 && m },
                                        encoding: enc.clone(),
                                        extra: extra.clone(),
                                        message: msg.clone(),
                                    });
                                }
                            }
                        }
                    }
                }
            }
        },
        |c: &CommitCase| -> Verdict {
            let obj = Object::Commit(c.build());
            // canonical form: a multi-line extra-header value ends with a newline (the writer emits the same bytes for both)
            let mut canon = c.build();
            let mut normalised = false;
            for (_, v) in &mut canon.extra_headers {
                if v.contains(&b'\n') && !v.ends_with(b"\n") {
                    v.push(b'\n');
                    normalised = true;
                }
            }
            let canon = Object::Commit(canon);
            let must_refuse = c.author.2.offset.unsigned_abs() >= 360000 || c.extra.iter().any(|(_, v)| v.is_empty());
            match roundtrip_to(&obj, &canon) {
                Err(m) => Err(m),
                Ok(Ok(_)) if normalised && !must_refuse => ok_trivial("multi-line-value-normalised"),
                Ok(Err(_)) if must_refuse => ok_trivial("refused"),
                Ok(Err(e)) => bad("refused", e),
                Ok(Ok(_)) if must_refuse => bad("accepted-unwritable", "value outside the writable domain was written"),
                Ok(Ok(_)) => ok(if c.extra.is_empty() { "plain" } else { "extra-headers" }),
            }
        },
    );

    // ---- tags ----
    let name_toks: [&[u8]; 6] = [b"v", b"1", b".", b"/", b"-", b"..",];
    run.sub(
        "tag",
        |emit| {
            let mut names = Vec::new();
            enumerate::strings(&name_toks, 1, 3, |s| names.push(s.to_vec()));
            let tsel = [0i64, -10, -1_000_000_000_000_000_000, i64::MIN, i64::MAX, 1112911993];
            for n in &names {
                for kind in 0..4u8 {
                    for tagger in std::iter::once(None).chain(tsel.iter().map(|&s| Some(TimeCase { seconds: s, offset: 3600, minus: false }))) {
                        for msg in [B::from(""), B::from("m\n"), B::from("m")] {
                            for pgp in [None, Some(B::from("-----BEGIN PGP SIGNATURE-----\nx\n-----END PGP SIGNATURE-----\n"))] {
                                if run.quick() && kind != 0 && !(tagger.is_none() && pgp.is_none()) {
                                    continue;
                                }
                                emit(TagCase { kind, name: B(n.clone()), tagger: tagger.clone(), message: msg.clone(), pgp });
                            }
                        }
                    }
                }
            }
        },
        |c: &TagCase| -> Verdict {
            let obj = Object::Tag(Tag {
                target: id(3),
                target_kind: kind_of(c.kind),
                name: c.name.0.clone().into(),
                tagger: c.tagger.as_ref().map(|t| sig(b"T", b"t@x", t.time())),
                message: c.message.0.clone().into(),
                pgp_signature: c.pgp.as_ref().map(|p| BString::from(p.0.clone())),
            });
            match roundtrip(&obj) {
                Err(m) => {
                    // a message without trailing newline followed by a pgp block is re-split by the decoder: outside "equal value" only
                    // if the writer produced the same bytes; we still demand size/loose-header agreement, so only tolerate `roundtrip` here
                    if m.starts_with("roundtrip") && c.pgp.is_some() && !c.message.ends_with(b"\n") {
                        ok_trivial("pgp-after-unterminated-message")
                    } else {
                        Err(m)
                    }
                }
                Ok(Err(_)) => ok_trivial("refused-name"),
                Ok(Ok(_)) => ok("written"),
            }
        },
    );

    // ---- trees ----
    let names: [&[u8]; 7] = [b"a", b"a.", b"a-", b"a0", b"ab", b"b", "é".as_bytes()];
    run.sub(
        "tree",
        |emit| {
            enumerate::subsets(&names, 0, 3, |ns| {
                let mut modes = vec![0u8; ns.len()];
                loop {
                    emit(TreeCase { entries: ns.iter().zip(&modes).map(|(n, m)| (B(n.to_vec()), *m)).collect() });
                    let mut i = 0;
                    loop {
                        if i == modes.len() {
                            return;
                        }
                        modes[i] += 1;
                        if (modes[i] as usize) < MODES.len() {
                            break;
                        }
                        modes[i] = 0;
                        i += 1;
                    }
                }
            });
        },
        |c: &TreeCase| -> Verdict {
            let mut entries: Vec<tree::Entry> = c
                .entries
                .iter()
                .enumerate()
                .map(|(i, (n, m))| tree::Entry { mode: MODES[*m as usize].into(), filename: n.0.clone().into(), oid: id(40 + i as u8) })
                .collect();
            entries.sort();
            let obj = Object::Tree(Tree { entries });
            match roundtrip(&obj) {
                Err(m) => Err(m),
                Ok(Err(e)) => bad("refused", e),
                Ok(Ok(_)) => ok(if c.entries.is_empty() { "empty" } else { "entries" }),
            }
        },
    );

    // ---- git agrees on the id (batch oracle) ----
    git_ids(run, &offs);
}

#[derive(Serialize, Deserialize, Hash, Clone, Debug)]
struct IdCase {
    kind: u8,
    bytes: B,
}

fn git_ids(run: &'static Run, offs: &[(i32, bool)]) {
    // objects: commits over all boundary times (one offset each, rotating), tags, trees, blobs
    let mut objs: Vec<(Kind, Vec<u8>)> = Vec::new();
    if !run.is_replay() {
        let bounds = if run.quick() { enumerate::boundaries_i64().into_iter().step_by(7).collect::<Vec<_>>() } else { enumerate::boundaries_i64() };
        for (i, s) in bounds.iter().enumerate() {
            let (o, m) = offs[i % (offs.len() - 2)];
            let c = CommitCase {
                parents: (i % 3) as u8,
                author: (B::from("A"), B::from("a@b"), TimeCase { seconds: *s, offset: o, minus: m }),
                committer_time: TimeCase { seconds: *s, offset: o, minus: m },
                encoding: None,
                extra: vec![],
                message: B::from("m\n"),
            };
            let mut buf = Vec::new();
            if c.build().write_to(&mut buf).is_ok() {
                objs.push((Kind::Commit, buf));
            }
        }
        for n in [0usize, 1, 63, 64, 65] {
            objs.push((Kind::Blob, enumerate::lcg_bytes(n, 1)));
        }
        let t = Tree { entries: vec![tree::Entry { mode: tree::EntryKind::Blob.into(), filename: "a".into(), oid: id(9) }] };
        let mut buf = Vec::new();
        t.write_to(&mut buf).unwrap();
        objs.push((Kind::Tree, buf));
        objs.push((Kind::Tree, Vec::new()));
    }
    let dir = vkit::scratch::Dir::new("c01git");
    vkit::git::init(dir.path());
    run.sub_with(
        "git-id",
        vkit::Opts::default().chunk(64),
        |emit| {
            for (k, b) in objs {
                emit(IdCase { kind: [Kind::Commit, Kind::Tree, Kind::Blob, Kind::Tag].iter().position(|x| *x == k).unwrap() as u8, bytes: B(b) });
            }
        },
        |c: &IdCase| -> Verdict {
            let kind = kind_of(c.kind);
            let ours = gix_object::compute_hash(gix_hash::Kind::Sha1, kind, &c.bytes);
            let out = vkit::git::try_git_in(
                dir.path(),
                &["hash-object", "--literally", "-t", std::str::from_utf8(kind.as_bytes()).unwrap(), "--stdin"],
                &c.bytes,
            );
            if !out.ok {
                vkit::machinery!("git hash-object failed: {}", out.err_text());
            }
            if out.text() == ours.to_string() {
                ok(format!("git-id-{kind}"))
            } else {
                bad("id", format!("git says {} gitoxide says {ours}", out.text()))
            }
        },
    );
    run.cov_add("oracle_calls_git", run.sub_evaluations("git-id"));
}
