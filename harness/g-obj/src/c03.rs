//! C03 — tree entry ordering and name lookup match git (E1: bounded-exhaustive inputs, git mktree as oracle).
use bstr::ByteSlice;
use gix_hash::ObjectId;
use gix_object::{tree, Tree, TreeRef, WriteTo};
use serde::{Deserialize, Serialize};
use std::collections::HashMap;
use std::path::Path;
use vkit::{bad, enumerate, ok, ok_trivial, Run, Verdict, B};

const MODES: [tree::EntryKind; 5] =
    [tree::EntryKind::Blob, tree::EntryKind::Tree, tree::EntryKind::BlobExecutable, tree::EntryKind::Link, tree::EntryKind::Commit];

/// name universe: `a` and `a`+c for c = lowest byte, 0x2d '-', 0x2e '.' (just below '/'), 0x30 '0' (just above '/'), a letter,
/// 0x80 and 0xff (signed-char traps); second level below `a.` and `a-` (the byte after the common prefix is again around '/');
/// two unrelated names on either side. Deliberately not in sorted order.
const UNIVERSE: [&[u8]; 14] =
    [b"b", b"a0", b"a", b"a.", b"a\xff", b"a-", b"ab", b"a\x01", b"a.0", b"a.-", b"a-.", b"A", b"a\x80", b"a.b"];

#[derive(Serialize, Deserialize, Hash, Clone, Debug, PartialEq, Eq)]
struct TreeCase {
    /// (name, index into MODES), in the order the entries are handed to the sort
    entries: Vec<(B, u8)>,
}

fn oid_for(name: &[u8], mode: u8) -> ObjectId {
    // blobs and trees must exist for `git mktree` (they are packed in the fixture repository, which makes git's type
    // lookup free of system calls); gitlinks are not looked up and get an id that depends on the name
    match MODES[mode as usize] {
        tree::EntryKind::Tree => return ObjectId::empty_tree(gix_hash::Kind::Sha1),
        tree::EntryKind::Commit => {}
        _ => return ObjectId::empty_blob(gix_hash::Kind::Sha1),
    }
    let mut b = [0x11u8; 20];
    for (i, c) in name.iter().enumerate() {
        b[i % 19] ^= c.rotate_left(i as u32 % 7);
    }
    b[19] = mode + 1;
    ObjectId::from(b)
}

/// transcription of git's base_name_compare (only used to describe the expected order in messages and to
/// cross-check the oracle; the verdict comes from git's id)
fn git_cmp(a: &(Vec<u8>, bool), b: &(Vec<u8>, bool)) -> std::cmp::Ordering {
    let common = a.0.len().min(b.0.len());
    a.0[..common].cmp(&b.0[..common]).then_with(|| {
        let c1 = a.0.get(common).copied().unwrap_or(if a.1 { b'/' } else { 0 });
        let c2 = b.0.get(common).copied().unwrap_or(if b.1 { b'/' } else { 0 });
        c1.cmp(&c2)
    })
}

fn mktree_input(c: &TreeCase, out: &mut Vec<u8>) {
    for (name, m) in &c.entries {
        let kind = MODES[*m as usize];
        let ty = match kind {
            tree::EntryKind::Tree => "tree",
            tree::EntryKind::Commit => "commit",
            _ => "blob",
        };
        out.extend_from_slice(format!("{} {ty} {}\t", kind.as_octal_str(), oid_for(name, *m)).as_bytes());
        out.extend_from_slice(name);
        out.push(0);
    }
    out.push(0); // tree boundary in batch mode
}

/// ids of the trees git builds (and sorts itself) from the entries of each case
fn git_tree_ids(repo: &Path, cases: &[TreeCase]) -> Vec<ObjectId> {
    let mut input = Vec::new();
    for c in cases {
        mktree_input(c, &mut input);
    }
    let mut cmd = vkit::git::cmd(repo);
    // glibc's heap trimming (brk/munmap after every deflate) dominates the run time of git here; switch it off
    cmd.env("MALLOC_TRIM_THRESHOLD_", "2000000000").env("MALLOC_MMAP_THRESHOLD_", "2000000000").args(["mktree", "-z", "--batch"]);
    let out = vkit::git::run_cmd(cmd, Some(&input));
    if !out.ok {
        vkit::machinery!("git mktree --batch failed: {}", out.err_text());
    }
    let ids: Vec<ObjectId> = out
        .stdout
        .lines()
        .map(|l| ObjectId::from_hex(l).unwrap_or_else(|_| vkit::machinery!("git mktree printed {:?}", l.as_bstr())))
        .collect();
    if ids.len() != cases.len() {
        vkit::machinery!("git mktree --batch printed {} ids for {} trees", ids.len(), cases.len());
    }
    ids
}

fn key(c: &TreeCase) -> Vec<u8> {
    let mut k = Vec::new();
    for (n, m) in &c.entries {
        k.extend_from_slice(n);
        k.push(0);
        k.push(*m);
    }
    k
}

fn names_of(entries: &[tree::Entry]) -> String {
    entries.iter().map(|e| format!("{:?}:{}", e.filename, e.mode.as_str())).collect::<Vec<_>>().join(" < ")
}

fn check_tree(c: &TreeCase, git_id: ObjectId) -> Verdict {
    let given: Vec<tree::Entry> =
        c.entries.iter().map(|(n, m)| tree::Entry { mode: MODES[*m as usize].into(), filename: n.0.clone().into(), oid: oid_for(n, *m) }).collect();
    // sort from two different initial orders: Vec<Entry> and Vec<EntryRef>
    let mut sorted = given.clone();
    sorted.sort();
    let mut rev: Vec<tree::Entry> = given.iter().rev().cloned().collect();
    rev.sort();
    if rev != sorted {
        return bad("order-unstable", format!("sorting the same entries from two initial orders gives {} and {}", names_of(&sorted), names_of(&rev)));
    }
    let mut refs: Vec<tree::EntryRef<'_>> = given.iter().map(|e| tree::EntryRef { mode: e.mode, filename: e.filename.as_ref(), oid: &e.oid }).collect();
    refs.sort();
    if refs.iter().map(|e| e.filename.to_owned()).collect::<Vec<_>>() != sorted.iter().map(|e| e.filename.clone()).collect::<Vec<_>>() {
        return bad("order-ref-vs-owned", format!("EntryRef and Entry sort differently: Entry order {}", names_of(&sorted)));
    }
    // expected order (transcription) — for the message
    let mut expect: Vec<(Vec<u8>, bool)> = given.iter().map(|e| (e.filename.to_vec(), e.mode.is_tree())).collect();
    expect.sort_by(git_cmp);
    let expect_names: Vec<&[u8]> = expect.iter().map(|e| e.0.as_slice()).collect();
    let our_names: Vec<&[u8]> = sorted.iter().map(|e| e.filename.as_slice()).collect();

    let t = Tree { entries: sorted.clone() };
    let mut bytes = Vec::new();
    match vkit::catch(|| t.write_to(&mut bytes)) {
        Ok(Ok(())) => {}
        Ok(Err(e)) => return bad("write", format!("Tree::write_to failed for {}: {e}", names_of(&sorted))),
        Err(p) => return bad("write-panic", format!("Tree::write_to panicked for {}: {p}", names_of(&sorted))),
    }
    let ours = gix_object::compute_hash(gix_hash::Kind::Sha1, gix_object::Kind::Tree, &bytes);
    if ours != git_id {
        return bad(
            "order",
            format!(
                "gitoxide sorts [{}] and hashes to {ours}; git mktree gives {git_id} (git's order: {:?})",
                names_of(&sorted),
                expect_names.iter().map(|n| n.as_bstr()).collect::<Vec<_>>()
            ),
        );
    }
    if our_names != expect_names {
        vkit::machinery!("ids agree with git but the transcription of base_name_compare orders differently: {:?}", expect_names);
    }

    // lookup on the decoded tree
    let tr = match TreeRef::from_bytes(&bytes) {
        Ok(t) => t,
        Err(e) => return bad("decode", format!("written tree does not decode: {e}")),
    };
    if tr.entries.len() != sorted.len() || tr.entries.iter().zip(&sorted).any(|(a, b)| a.filename != b.filename || a.mode != b.mode || a.oid != b.oid) {
        return bad("decode", format!("decoded entries differ from written ones {}", names_of(&sorted)));
    }
    let mut found = 0;
    for name in UNIVERSE {
        for is_dir in [false, true] {
            let linear = tr.entries.iter().find(|e| e.filename == name && e.mode.is_tree() == is_dir).copied();
            let got = tr.bisect_entry(name.as_bstr(), is_dir);
            if got != linear {
                return bad(
                    "lookup",
                    format!(
                        "bisect_entry({:?}, is_dir={is_dir}) = {:?} but a linear scan of [{}] gives {:?}",
                        name.as_bstr(),
                        got.map(|e| (e.filename, e.mode.as_str())),
                        names_of(&sorted),
                        linear.map(|e| (e.filename, e.mode.as_str()))
                    ),
                );
            }
            found += usize::from(got.is_some());
        }
    }
    if found != sorted.len() {
        return bad("lookup", format!("only {found} of {} entries were found by bisect_entry", sorted.len()));
    }

    // classification
    let mut dir_prefix = false; // a tree entry x and another entry x+c...
    let mut file_prefix = false;
    for a in &sorted {
        for b in &sorted {
            if b.filename.len() > a.filename.len() && b.filename.starts_with(&a.filename) {
                if a.mode.is_tree() {
                    dir_prefix = true;
                } else {
                    file_prefix = true;
                }
            }
        }
    }
    let plain: Vec<&[u8]> = {
        let mut v: Vec<&[u8]> = our_names.clone();
        v.sort();
        v
    };
    let differs_from_bytewise = plain != our_names;
    match (sorted.len(), dir_prefix, file_prefix, differs_from_bytewise) {
        (0, ..) => ok_trivial("empty-tree"),
        (1, ..) => ok("single-entry"),
        (_, true, _, true) => ok("dir-prefix/order-differs-from-bytewise"),
        (_, true, _, false) => ok("dir-prefix/order-same-as-bytewise"),
        (_, false, true, _) => ok("file-prefix-only"),
        (_, false, false, true) => vkit::machinery!("order differs from bytewise without a directory prefix"),
        (_, false, false, false) => ok("unrelated-names"),
    }
}

pub fn run(run: &'static Run) {
    run.rule(format!(
        "names: universe of 14 {{b a0 a a. a\\xff a- ab a\\x01 a.0 a.- a-. A a\\x80 a.b}} (every name x and x+c with c = 0x01, '-', '.', '0', letter, 0x80, 0xff; second level below 'a.' and 'a-'); \
         trees: every subset of size 0..=3 x every assignment of the 5 entry modes {{blob, tree, exe, link, commit}}, entries handed to sort() in universe order and reversed; \
         thorough adds every subset of size 4 of the first 11 names x 5 modes, every subset of size 4 of all 14 names x modes {{blob, tree, commit}} and every subset of size 5 x modes {{blob, tree}}. \
         oracle: id of Tree::write_to(sorted) == id printed by `git mktree -z --batch` (git sorts the entries itself); bisect_entry(name, is_dir) == linear scan for \
         every universe name x {{file, dir}} on the decoded tree. non-trivial = tree has at least one entry"
    ));
    run.assume("git 2.39.5 `mktree` (base_name_compare) defines the canonical entry order and the tree id");
    run.assume("names are unique within a tree, NUL- and slash-free (the property's domain)");
    run.budget_secs(run.pick(40.0, 600.0));

    let repo = vkit::scratch::Dir::new("c03repo");
    vkit::git::init(repo.path());
    {
        // the empty blob and the empty tree, packed
        let b = vkit::git::git_in(repo.path(), &["hash-object", "-w", "-t", "blob", "--stdin"], b"");
        let t = vkit::git::git_in(repo.path(), &["hash-object", "-w", "-t", "tree", "--stdin"], b"");
        let mut ids = b.clone();
        ids.extend_from_slice(&t);
        vkit::git::git_in(repo.path(), &["pack-objects", "-q", ".git/objects/pack/pack"], &ids);
        vkit::git::git(repo.path(), &["prune-packed", "-q"]);
    }

    // ---- all cases + git's ids (batch oracle, 16 processes) ----
    let mut cases: Vec<TreeCase> = Vec::new();
    if !run.is_replay() {
        let mut gen = |universe: &[&'static [u8]], k_min: usize, k_max: usize, modes: &[u8]| {
            enumerate::subsets(universe, k_min, k_max, |ns| {
                let mut idx = vec![0usize; ns.len()];
                loop {
                    cases.push(TreeCase { entries: ns.iter().zip(&idx).map(|(n, m)| (B(n.to_vec()), modes[*m])).collect() });
                    let mut i = 0;
                    loop {
                        if i == idx.len() {
                            return;
                        }
                        idx[i] += 1;
                        if idx[i] < modes.len() {
                            break;
                        }
                        idx[i] = 0;
                        i += 1;
                    }
                }
            });
        };
        gen(&UNIVERSE, 0, 3, &[0, 1, 2, 3, 4]);
        if !run.quick() {
            gen(&UNIVERSE[..11], 4, 4, &[0, 1, 2, 3, 4]);
            gen(&UNIVERSE, 4, 4, &[0, 1, 4]);
            gen(&UNIVERSE, 5, 5, &[0, 1]);
        }
        let mut seen = std::collections::HashSet::new();
        cases.retain(|c| seen.insert(key(c)));
    }
    let mut oracle: HashMap<Vec<u8>, ObjectId> = HashMap::with_capacity(cases.len());
    if !cases.is_empty() {
        let per = cases.len().div_ceil(run.threads.max(1) * 4).max(1);
        let results: Vec<Vec<ObjectId>> = std::thread::scope(|s| {
            let hs: Vec<_> = cases.chunks(per).map(|ch| s.spawn(|| git_tree_ids(repo.path(), ch))).collect();
            hs.into_iter()
                .map(|h| match h.join() {
                    Ok(v) => v,
                    Err(p) => std::panic::resume_unwind(p),
                })
                .collect()
        });
        run.cov_add("oracle_calls_git", results.len() as u64);
        for (c, id) in cases.iter().zip(results.into_iter().flatten()) {
            oracle.insert(key(c), id);
        }
        run.cov("git_trees_built", oracle.len());
    }

    run.sub(
        "tree",
        |emit| {
            for c in std::mem::take(&mut cases) {
                emit(c);
            }
        },
        |c: &TreeCase| -> Verdict {
            let git_id = match oracle.get(&key(c)) {
                Some(id) => *id,
                None => git_tree_ids(repo.path(), std::slice::from_ref(c))[0], // replay
            };
            check_tree(c, git_id)
        },
    );
    run.require(
        "trees whose git order differs from plain byte order were explored",
        run.outcome_count("dir-prefix/order-differs-from-bytewise") > 0,
    );
    run.require("trees with a file that is a prefix of another name were explored", run.outcome_count("file-prefix-only") > 0);
}
