//! C57 — ANSI-C unquoting inverts git's path quoting (E1: bounded-exhaustive inputs).
//!
//! Two sub-checks: `git` feeds the output of the real `git ls-files` (index entries with the enumerated names,
//! core.quotePath on and off) to `gix_quote::ansi_c::undo`; `model` does the same with a transcription of git's
//! `quote_c_style` (validated line by line against git in the `git` sub-check) on a larger space that also contains
//! NUL and '/' which cannot be put into an index.
use bstr::ByteSlice;
use serde::{Deserialize, Serialize};
use vkit::{enumerate, ok, ok_trivial, Run, Verdict, B};

/// transcription of git's quote.c `quote_c_style_counted` (cq_lookup table); `fully` = core.quotePath
fn quote_c_style(name: &[u8], fully: bool) -> Vec<u8> {
    fn lookup(c: u8) -> i32 {
        match c {
            7 => b'a' as i32,
            8 => b'b' as i32,
            9 => b't' as i32,
            10 => b'n' as i32,
            11 => b'v' as i32,
            12 => b'f' as i32,
            13 => b'r' as i32,
            0..=0x1f => 1,
            b'"' => b'"' as i32,
            b'\\' => b'\\' as i32,
            0x7f => 1,
            0x20..=0x7e => -1,
            0x80..=0xff => 0,
        }
    }
    let must = |c: u8| lookup(c) + i32::from(fully) > 0;
    if !name.iter().any(|&c| must(c)) {
        return name.to_vec();
    }
    let mut out = vec![b'"'];
    for &c in name {
        if !must(c) {
            out.push(c);
            continue;
        }
        out.push(b'\\');
        let l = lookup(c);
        if l >= b' ' as i32 {
            out.push(l as u8);
        } else {
            out.push(((c >> 6) & 3) + b'0');
            out.push(((c >> 3) & 7) + b'0');
            out.push((c & 7) + b'0');
        }
    }
    out.push(b'"');
    out
}

// the last two: another quoted word follows and there is no backslash anywhere (the shape of `git status` rename lines)
const TRAILERS: [&[u8]; 9] = [b"", b" x", b"\"", b"\\n", b"\t\"a\"", b"0", b"\n", b" -> \"c d\"", b" \"\""];

/// `quoted` is the form git prints for `raw`. Returns the outcome class.
fn check_undo(raw: &[u8], quoted: &[u8]) -> Result<&'static str, String> {
    let is_quoted = quoted != raw;
    if is_quoted && !(quoted.len() >= 2 && quoted[0] == b'"' && quoted[quoted.len() - 1] == b'"') {
        vkit::machinery!("oracle produced {:?} for {:?}: neither verbatim nor surrounded by quotes", quoted.as_bstr(), raw.as_bstr());
    }
    for trailer in TRAILERS {
        let mut input = quoted.to_vec();
        input.extend_from_slice(trailer);
        if !is_quoted && input.first() == Some(&b'"') {
            // only for the empty name: "" + a trailer starting with '"' is a (malformed) quoted input, not an unquoted one
            continue;
        }
        let (want_out, want_consumed): (&[u8], usize) = if is_quoted { (raw, quoted.len()) } else { (&input, input.len()) };
        match gix_quote::ansi_c::undo(input.as_bstr()) {
            Ok((out, consumed)) => {
                if out.as_ref() != want_out.as_bstr() {
                    return Err(format!(
                        "value: undo({:?}) = {:?}, git quoted {:?} as {:?}",
                        input.as_bstr(),
                        out,
                        raw.as_bstr(),
                        quoted.as_bstr()
                    ));
                }
                if consumed != want_consumed {
                    return Err(format!(
                        "consumed: undo({:?}) consumed {consumed} bytes, the quoted form {:?} occupies {want_consumed}",
                        input.as_bstr(),
                        quoted.as_bstr()
                    ));
                }
                if !is_quoted && !matches!(out, std::borrow::Cow::Borrowed(_)) {
                    return Err(format!("changed: unquoted input {:?} was not returned as is (borrowed)", input.as_bstr()));
                }
            }
            Err(e) => return Err(format!("refused: undo({:?}) fails: {e} (git quoted {:?} this way)", input.as_bstr(), raw.as_bstr())),
        }
    }
    Ok(if !is_quoted {
        "unquoted"
    } else {
        let body = &quoted[1..quoted.len() - 1];
        let mut octal = false;
        let mut letter = false;
        let mut meta = false;
        let mut i = 0;
        while i < body.len() {
            if body[i] == b'\\' {
                match body.get(i + 1) {
                    Some(b'0'..=b'3') => {
                        octal = true;
                        i += 3;
                    }
                    Some(b'"' | b'\\') => meta = true,
                    _ => letter = true,
                }
                i += 1;
            }
            i += 1;
        }
        let high = body.iter().any(|&b| b >= 0x80);
        match (octal, letter, meta, high) {
            (true, false, false, false) => "octal",
            (false, true, false, false) => "letter-escape",
            (false, false, true, false) => "quote-or-backslash",
            (_, _, _, true) => "raw-high-bytes-inside-quotes",
            (true, true, false, false) => "octal+letter",
            (true, false, true, false) => "octal+meta",
            (false, true, true, false) => "letter+meta",
            (true, true, true, false) => "octal+letter+meta",
            (false, false, false, false) => "quoted-without-escape",
        }
    })
}

#[derive(Serialize, Deserialize, Hash, Clone, Debug)]
struct ModelCase {
    raw: B,
}

#[derive(Serialize, Deserialize, Hash, Clone, Debug)]
struct GitCase {
    quotepath: bool,
    names: Vec<B>,
}

const TOKENS: [&[u8]; 18] =
    [b"a", b"\"", b"\\", b"\n", b"\t", b"\r", b"\x07", b"\x08", b"\x0b", b"\x0c", b"\x01", b"\x7f", b"\x80", b"\xff", b" ", b"0", b"7", b"n"];

fn git_ok_name(n: &[u8]) -> bool {
    !n.is_empty() && !n.contains(&0) && !n.contains(&b'/') && n != b"." && n != b".." && !n.eq_ignore_ascii_case(b".git")
}

pub fn run(run: &'static Run) {
    let model_len = run.pick(4, 5);
    let git_len = run.pick(3, 4);
    run.rule(format!(
        "names: every byte string of length 0..=2 over all 256 byte values, plus all strings of length 3..={model_len} over the 18 tokens \
         {{a \" \\ LF TAB CR BEL BS VT FF 0x01 0x7f 0x80 0xff SP 0 7 n}} (digits and letters that could be absorbed into a preceding escape); \
         each quoted both ways (core.quotePath on/off) and followed by each of 9 trailers {{none, ' x', '\"', '\\n', TAB\"a\", '0', LF, ' -> \"c d\"', ' \"\"'}}; \
         sub `git`: the quoted form is what `git ls-files` prints for an index entry of that name (names without NUL and '/', length 3..={git_len} for the token part); \
         sub `model`: the quoted form comes from a transcription of git's quote_c_style that the `git` sub-check compares with git's output on every name. \
         oracle: undo(quoted+trailer) == (name, len(quoted)); for names git prints verbatim undo(input) == (input, len(input)) borrowed. \
         non-trivial = git quotes the name (at least one escape)"
    ));
    run.assume("git 2.39.5 `ls-files` (quote_c_style, core.quotePath true/false) defines the quoted form");
    run.budget_secs(run.pick(40.0, 600.0));

    // ---------- sub `git` ----------
    let repo = vkit::scratch::Dir::new("c57repo");
    vkit::git::init(repo.path());
    let blob = {
        let o = vkit::git::git_in(repo.path(), &["hash-object", "-w", "--stdin"], b"");
        String::from_utf8_lossy(&o).trim().to_string()
    };
    let mut git_names: Vec<Vec<u8>> = Vec::new();
    if !run.is_replay() {
        for a in 0..=255u8 {
            git_names.push(vec![a]);
            for b in 0..=255u8 {
                git_names.push(vec![a, b]);
            }
        }
        enumerate::strings(&TOKENS, 3, git_len, |s| git_names.push(s.to_vec()));
        git_names.retain(|n| git_ok_name(n));
        git_names.sort();
        git_names.dedup();
    }
    let counter = std::sync::atomic::AtomicU64::new(0);
    run.sub_with(
        "git",
        vkit::Opts::default().chunk(64),
        |emit| {
            for quotepath in [true, false] {
                for chunk in git_names.chunks(2000) {
                    emit(GitCase { quotepath, names: chunk.iter().map(|n| B(n.clone())).collect() });
                }
            }
        },
        |c: &GitCase| -> Verdict {
            let n = counter.fetch_add(1, std::sync::atomic::Ordering::Relaxed);
            let index = repo.join(format!("index.{n}"));
            let mut names: Vec<&[u8]> = c.names.iter().map(|b| b.as_slice()).collect();
            names.sort();
            names.dedup();
            if names.iter().any(|n| !git_ok_name(n)) {
                vkit::machinery!("case contains a name git cannot store in an index");
            }
            let mut input = Vec::new();
            for n in &names {
                input.extend_from_slice(format!("100644 {blob} 0\t").as_bytes());
                input.extend_from_slice(n);
                input.push(0);
            }
            let mut cmd = vkit::git::cmd(repo.path());
            cmd.env("GIT_INDEX_FILE", &index).args(["update-index", "-z", "--index-info"]);
            let o = vkit::git::run_cmd(cmd, Some(&input));
            if !o.ok {
                vkit::machinery!("git update-index --index-info failed: {}", o.err_text());
            }
            let mut cmd = vkit::git::cmd(repo.path());
            cmd.env("GIT_INDEX_FILE", &index).args(["-c", if c.quotepath { "core.quotePath=true" } else { "core.quotePath=false" }, "ls-files"]);
            let o = vkit::git::run_cmd(cmd, None);
            let _ = std::fs::remove_file(&index);
            if !o.ok {
                vkit::machinery!("git ls-files failed: {}", o.err_text());
            }
            let lines: Vec<&[u8]> = o.stdout.split_str("\n").collect();
            // names that are printed verbatim cannot contain LF (LF forces quoting), so lines == entries
            if lines.len() != names.len() + 1 || !lines[names.len()].is_empty() {
                vkit::machinery!("git ls-files printed {} lines for {} entries", lines.len(), names.len());
            }
            let mut classes = std::collections::BTreeSet::new();
            for (raw, quoted) in names.iter().zip(&lines) {
                let model = quote_c_style(raw, c.quotepath);
                if model != *quoted {
                    vkit::machinery!(
                        "transcription of quote_c_style is wrong: {:?} (quotepath={}) -> git {:?}, model {:?}",
                        raw.as_bstr(),
                        c.quotepath,
                        quoted.as_bstr(),
                        model.as_bstr()
                    );
                }
                match check_undo(raw, quoted) {
                    Ok(class) => {
                        classes.insert(class);
                    }
                    Err(m) => return Err(m),
                }
            }
            if classes.iter().any(|c| *c != "unquoted") {
                ok(format!("git-batch/quotepath-{}/{}-escape-shapes", if c.quotepath { "on" } else { "off" }, classes.len()))
            } else {
                ok_trivial("git-batch/all-verbatim")
            }
        },
    );
    run.cov("git_names_per_quotepath_mode", git_names.len());
    run.cov_add("oracle_calls_git", 2 * run.sub_evaluations("git"));
    run.cov_add("git_quoted_names_checked", 2 * git_names.len() as u64);

    // ---------- sub `model` ----------
    run.sub(
        "model",
        |emit| {
            emit(ModelCase { raw: B(vec![]) });
            for a in 0..=255u8 {
                emit(ModelCase { raw: B(vec![a]) });
            }
            for a in 0..=255u8 {
                for b in 0..=255u8 {
                    emit(ModelCase { raw: B(vec![a, b]) });
                }
            }
            enumerate::strings(&TOKENS, 3, model_len, |s| emit(ModelCase { raw: B(s.to_vec()) }));
        },
        |c: &ModelCase| -> Verdict {
            let mut class = ["unquoted"; 2];
            for (i, fully) in [true, false].into_iter().enumerate() {
                let quoted = quote_c_style(&c.raw, fully);
                match check_undo(&c.raw, &quoted) {
                    Ok(cl) => class[i] = cl,
                    Err(m) => return Err(m),
                }
            }
            // `git status --short` / porcelain v1 (quote_path with QUOTE_PATH_QUOTE_SP) additionally wraps names that contain a
            // blank but need no escape in plain double quotes: a quoted form without any backslash
            if c.raw.contains(&b' ') && quote_c_style(&c.raw, true) == c.raw.0 {
                let mut forced = vec![b'"'];
                forced.extend_from_slice(&c.raw);
                forced.push(b'"');
                if let Err(m) = check_undo(&c.raw, &forced) {
                    return Err(m);
                }
                return ok("quoted-for-blank-only");
            }
            match class {
                ["unquoted", _] => ok_trivial("unquoted"),
                [on, "raw-high-bytes-inside-quotes"] => ok(format!("{on}/quotepath-off:raw-high-bytes-inside-quotes")),
                [on, "unquoted"] if c.raw.iter().any(|b| *b >= 0x80) => ok(format!("{on}/quotepath-off:verbatim")),
                [on, _] => ok(on),
            }
        },
    );
    run.require("octal escapes were exercised", run.outcome_count("octal") > 0 && run.outcome_count("octal+letter+meta") > 0);
    run.require("names printed verbatim were exercised", run.outcome_count("unquoted") > 0);
}
