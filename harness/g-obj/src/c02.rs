//! C02 — objects created by git decode identically in both parsers and re-encode verbatim (E1, git creates every object).
use bstr::{BStr, BString, ByteSlice};
use gix_hash::ObjectId;
use gix_object::{commit::ref_iter::Token as CTok, tag::ref_iter::Token as TTok, CommitRef, CommitRefIter, Kind, TagRef, TagRefIter, TreeRef, TreeRefIter, WriteTo};
use serde::{Deserialize, Serialize};
use std::path::{Path, PathBuf};
use std::sync::atomic::{AtomicU64, Ordering::Relaxed};
use vkit::{bad, ok, Run, Verdict, B};

// ------------------------------------------------------------------------------------------------
// reference view of a commit/tag buffer (git's own header grammar: `key SP value LF`, continuation lines start with SP,
// the first empty line ends the headers)
struct RefObj<'a> {
    headers: Vec<(&'a [u8], Vec<u8>)>, // value: continuation lines joined with LF, no trailing LF
    message: &'a [u8],
}
fn ref_parse(buf: &[u8]) -> Option<RefObj<'_>> {
    let mut headers: Vec<(&[u8], Vec<u8>)> = Vec::new();
    let mut rest = buf;
    loop {
        if rest.is_empty() {
            return None; // headers-only objects are outside the domain
        }
        let eol = rest.find_byte(b'\n')?;
        let line = &rest[..eol];
        rest = &rest[eol + 1..];
        if line.is_empty() {
            return Some(RefObj { headers, message: rest });
        }
        if line[0] == b' ' {
            let last = headers.last_mut()?;
            last.1.push(b'\n');
            last.1.extend_from_slice(&line[1..]);
        } else {
            let sp = line.find_byte(b' ')?;
            headers.push((&line[..sp], line[sp + 1..].to_vec()));
        }
    }
}
fn trim_nl(v: &[u8]) -> &[u8] {
    v.strip_suffix(b"\n").unwrap_or(v)
}
fn sig_text(s: &gix_actor::SignatureRef<'_>) -> Result<Vec<u8>, String> {
    let mut v = Vec::new();
    s.write_to(&mut v).map_err(|e| format!("signature {s:?} cannot be written: {e}"))?;
    Ok(v)
}

impl std::fmt::Debug for CommitView {
    fn fmt(&self, f: &mut std::fmt::Formatter<'_>) -> std::fmt::Result {
        write!(
            f,
            "{{tree {}, parents {:?}, author {:?}, committer {:?}, encoding {:?}, extra {:?}, message {:?}}}",
            self.tree,
            self.parents,
            self.author.as_bstr(),
            self.committer.as_bstr(),
            self.encoding.as_ref().map(|e| e.as_bstr()),
            self.extra.iter().map(|(k, v)| (k.as_bstr(), v.as_bstr())).collect::<Vec<_>>(),
            self.message.as_bstr()
        )
    }
}
#[derive(PartialEq)]
struct CommitView {
    tree: ObjectId,
    parents: Vec<ObjectId>,
    author: Vec<u8>,
    committer: Vec<u8>,
    encoding: Option<Vec<u8>>,
    extra: Vec<(Vec<u8>, Vec<u8>)>,
    message: Vec<u8>,
}

static CR_MULTI: AtomicU64 = AtomicU64::new(0);
static CR_MERGE: AtomicU64 = AtomicU64::new(0);
static LINK_WITH_PERMS: AtomicU64 = AtomicU64::new(0);

fn check_commit(bytes: &[u8], git_id: ObjectId) -> Result<String, String> {
    let show = || bytes.as_bstr();
    let full = CommitRef::from_bytes(bytes).map_err(|e| format!("full-refused: CommitRef::from_bytes fails: {e} on {:?}", show()))?;
    // streaming decoder folded into a view
    let mut it_view = CommitView { tree: ObjectId::null(gix_hash::Kind::Sha1), parents: vec![], author: vec![], committer: vec![], encoding: None, extra: vec![], message: vec![] };
    let mut stage = -1; // enforce token order
    let mut seen_message = false;
    for tok in CommitRefIter::from_bytes(bytes) {
        let tok = tok.map_err(|e| format!("iter-refused: CommitRefIter fails: {e} on {:?}", show()))?;
        let (st, _) = match &tok {
            CTok::Tree { id } => (0, it_view.tree = *id),
            CTok::Parent { id } => (1, it_view.parents.push(*id)),
            CTok::Author { signature } => (2, it_view.author = sig_text(signature).map_err(|e| format!("iter-signature: {e}"))?),
            CTok::Committer { signature } => (3, it_view.committer = sig_text(signature).map_err(|e| format!("iter-signature: {e}"))?),
            CTok::Encoding(e) => (4, it_view.encoding = Some(e.to_vec())),
            CTok::ExtraHeader((k, v)) => (5, it_view.extra.push((k.to_vec(), v.to_vec()))),
            CTok::Message(m) => (6, {
                it_view.message = m.to_vec();
                seen_message = true
            }),
        };
        if st < stage || (st == stage && !matches!(st, 1 | 5)) {
            return Err(format!("iter-order: token {tok:?} out of order in {:?}", show()));
        }
        stage = st;
    }
    if !seen_message || stage != 6 {
        return Err(format!("iter-incomplete: CommitRefIter ended without a message token on {:?}", show()));
    }
    let full_view = CommitView {
        tree: full.tree(),
        parents: full.parents().collect(),
        author: sig_text(&full.author).map_err(|e| format!("full-signature: {e}"))?,
        committer: sig_text(&full.committer).map_err(|e| format!("full-signature: {e}"))?,
        encoding: full.encoding.map(|e| e.to_vec()),
        extra: full.extra_headers.iter().map(|(k, v)| (k.to_vec(), v.to_vec())).collect(),
        message: full.message.to_vec(),
    };
    if full_view != it_view {
        return Err(format!("decoders-disagree: full {full_view:?} vs iterator {it_view:?} on {:?}", show()));
    }
    // against git's header grammar
    let r = ref_parse(bytes).unwrap_or_else(|| vkit::machinery!("reference parser cannot split {:?}", show()));
    let mut h = r.headers.iter();
    let mut next = h.next();
    let mut expect = CommitView { tree: full_view.tree, parents: vec![], author: vec![], committer: vec![], encoding: None, extra: vec![], message: r.message.to_vec() };
    let hex = |v: &[u8]| ObjectId::from_hex(v).unwrap_or_else(|_| vkit::machinery!("reference: bad id {:?}", v.as_bstr()));
    if let Some((b"tree", v)) = next {
        expect.tree = hex(v);
        next = h.next();
    } else {
        vkit::machinery!("reference: git-made commit without tree header: {:?}", show());
    }
    while let Some((b"parent", v)) = next {
        expect.parents.push(hex(v));
        next = h.next();
    }
    if let Some((b"author", v)) = next {
        expect.author = v.clone();
        next = h.next();
    }
    if let Some((b"committer", v)) = next {
        expect.committer = v.clone();
        next = h.next();
    }
    if let Some((b"encoding", v)) = next {
        expect.encoding = Some(v.clone());
        next = h.next();
    }
    while let Some((k, v)) = next {
        expect.extra.push((k.to_vec(), v.clone()));
        next = h.next();
    }
    if expect.extra.iter().any(|(_, v)| v.contains(&b'\n') && v.contains(&b'\r')) {
        CR_MULTI.fetch_add(1, Relaxed);
    }
    let mut got = full_view;
    for (_, v) in &mut got.extra {
        // gitoxide keeps the LF that ends a multi-line value
        if v.contains(&b'\n') {
            *v = trim_nl(v).to_vec();
        }
    }
    if got != expect {
        return Err(format!("fields: decoded {got:?} but the object says {expect:?} ({:?})", show()));
    }
    // re-encode
    let mut out = Vec::new();
    full.write_to(&mut out).map_err(|e| format!("reencode-refused: CommitRef::write_to fails: {e} on {:?}", show()))?;
    if out != bytes {
        return Err(format!("reencode: CommitRef::write_to gives {:?} for {:?}", out.as_bstr(), show()));
    }
    if full.size() != bytes.len() as u64 {
        return Err(format!("size: CommitRef::size() = {} for {} bytes {:?}", full.size(), bytes.len(), show()));
    }
    let owned: gix_object::Commit = full.clone().into();
    let mut out2 = Vec::new();
    owned.write_to(&mut out2).map_err(|e| format!("reencode-refused: Commit::write_to fails: {e} on {:?}", show()))?;
    if out2 != bytes || owned.size() != bytes.len() as u64 {
        return Err(format!("reencode-owned: Commit::write_to gives {:?} (size() {}) for {:?}", out2.as_bstr(), owned.size(), show()));
    }
    let id = gix_object::compute_hash(gix_hash::Kind::Sha1, Kind::Commit, &out);
    if id != git_id {
        return Err(format!("id: {id} vs git {git_id}"));
    }
    // gpgsig accessor
    let gpgsig = expect.extra.iter().find(|(k, _)| k == b"gpgsig").map(|(_, v)| v.clone());
    match CommitRefIter::signature(bytes) {
        Ok(Some((sig, signed))) => {
            let Some(want) = gpgsig.as_ref() else { return Err(format!("signature: CommitRefIter::signature found {sig:?} in unsigned {:?}", show())) };
            let sig_n: &[u8] = if sig.contains(&b'\n') { trim_nl(&sig) } else { &sig };
            if sig_n != want.as_slice() {
                return Err(format!("signature: CommitRefIter::signature gives {sig:?}, header value is {:?}", want.as_bstr()));
            }
            // signed data = everything but the first gpgsig header
            let mut payload = Vec::new();
            let mut skipping = false;
            let mut dropped = false;
            let mut in_headers = true;
            for line in bytes.lines_with_terminator() {
                if in_headers {
                    if skipping && line.starts_with(b" ") {
                        continue;
                    }
                    skipping = false;
                    if !dropped && line.starts_with(b"gpgsig ") {
                        skipping = true;
                        dropped = true;
                        continue;
                    }
                    if line == b"\n" {
                        in_headers = false;
                    }
                }
                payload.extend_from_slice(line);
            }
            if signed.to_bstring() != payload {
                return Err(format!("signed-data: SignedData is {:?}, expected {:?}", signed.to_bstring(), payload.as_bstr()));
            }
        }
        Ok(None) => {
            if gpgsig.is_some() {
                return Err(format!("signature: CommitRefIter::signature found nothing in {:?}", show()));
            }
        }
        Err(e) => return Err(format!("signature: CommitRefIter::signature fails: {e}")),
    }
    let multi = expect.extra.iter().filter(|(_, v)| v.contains(&b'\n')).count();
    let empty_cont = expect.extra.iter().any(|(_, v)| v.split_str("\n").skip(1).any(|l| l.is_empty()));
    let cr_multi = expect.extra.iter().any(|(_, v)| v.contains(&b'\n') && v.contains(&b'\r'));
    Ok(format!(
        "commit/p{}{}{}{}{}{}",
        expect.parents.len().min(2),
        if expect.encoding.is_some() { "/enc" } else { "" },
        match (expect.extra.len(), multi) {
            (0, _) => "",
            (_, 0) => "/extra-single",
            (1, _) => "/extra-multi",
            _ => "/extras-multi",
        },
        if empty_cont { "/empty-continuation" } else { "" },
        if cr_multi { "/CR-in-multi-line-value" } else { "" },
        if expect.message.is_empty() {
            "/msg-empty"
        } else if expect.message.ends_with(b"\n") {
            ""
        } else {
            "/msg-unterminated"
        }
    ))
}

fn check_tag(bytes: &[u8], git_id: ObjectId) -> Result<String, String> {
    let show = || bytes.as_bstr();
    let full = TagRef::from_bytes(bytes).map_err(|e| format!("full-refused: TagRef::from_bytes fails: {e} on {:?}", show()))?;
    let mut stage = -1;
    let (mut target, mut kind, mut name, mut tagger, mut body) = (None, None, None, None, None);
    for tok in TagRefIter::from_bytes(bytes) {
        let tok = tok.map_err(|e| format!("iter-refused: TagRefIter fails: {e} on {:?}", show()))?;
        let st = match tok {
            TTok::Target { id } => {
                target = Some(id);
                0
            }
            TTok::TargetKind(k) => {
                kind = Some(k);
                1
            }
            TTok::Name(n) => {
                name = Some(n.to_owned());
                2
            }
            TTok::Tagger(s) => {
                tagger = Some(s);
                3
            }
            TTok::Body { message, pgp_signature } => {
                body = Some((message.to_owned(), pgp_signature.map(ToOwned::to_owned)));
                4
            }
        };
        if st <= stage {
            return Err(format!("iter-order: tag token out of order in {:?}", show()));
        }
        stage = st;
    }
    let (Some(target), Some(kind), Some(name), Some(tagger), Some((message, pgp))) = (target, kind, name, tagger, body) else {
        return Err(format!("iter-incomplete: TagRefIter did not yield all five tokens on {:?}", show()));
    };
    if target != full.target() || kind != full.target_kind || name != full.name || tagger != full.tagger || message != full.message || pgp.as_deref().map(|p| p.as_bstr()) != full.pgp_signature {
        return Err(format!(
            "decoders-disagree: full {full:?} vs iterator ({target}, {kind}, {name:?}, {tagger:?}, {message:?}, {pgp:?}) on {:?}",
            show()
        ));
    }
    // against git's grammar
    let r = ref_parse(bytes).unwrap_or_else(|| vkit::machinery!("reference parser cannot split {:?}", show()));
    let get = |k: &[u8]| r.headers.iter().find(|(n, _)| *n == k).map(|(_, v)| v.clone());
    let want_tagger = get(b"tagger");
    let got_tagger = match &full.tagger {
        Some(s) => Some(sig_text(s).map_err(|e| format!("full-signature: {e}"))?),
        None => None,
    };
    let mut body = full.message.to_vec();
    if let Some(p) = full.pgp_signature {
        body.push(b'\n');
        body.extend_from_slice(p);
    }
    if Some(full.target.to_vec()) != get(b"object")
        || Some(full.target_kind.as_bytes().to_vec()) != get(b"type")
        || Some(full.name.to_vec()) != get(b"tag")
        || got_tagger != want_tagger
        || body != r.message
    {
        return Err(format!("fields: decoded {full:?} does not match the headers/body of {:?}", show()));
    }
    // documented split: the message ends at the first line that starts a PGP signature block which is closed later on
    const BEGIN: &str = "\n-----BEGIN PGP SIGNATURE-----";
    let exp = r.message.find(BEGIN).filter(|b| r.message[b + BEGIN.len()..].contains_str("-----END PGP SIGNATURE-----"));
    match (exp, full.pgp_signature) {
        (Some(b), Some(p)) if full.message == r.message[..b].as_bstr() && p == r.message[b + 1..].as_bstr() => {}
        (None, None) => {}
        _ => return Err(format!("pgp-split: message {:?} / signature {:?} for body {:?}", full.message, full.pgp_signature, r.message.as_bstr())),
    }
    let mut out = Vec::new();
    full.write_to(&mut out).map_err(|e| format!("reencode-refused: TagRef::write_to fails: {e} on {:?}", show()))?;
    if out != bytes || full.size() != bytes.len() as u64 {
        return Err(format!("reencode: TagRef::write_to gives {:?} (size() {}) for {:?}", out.as_bstr(), full.size(), show()));
    }
    let owned: gix_object::Tag = full.clone().into();
    let mut out2 = Vec::new();
    owned.write_to(&mut out2).map_err(|e| format!("reencode-refused: Tag::write_to fails: {e} on {:?}", show()))?;
    if out2 != bytes || owned.size() != bytes.len() as u64 {
        return Err(format!("reencode-owned: Tag::write_to gives {:?} (size() {}) for {:?}", out2.as_bstr(), owned.size(), show()));
    }
    let id = gix_object::compute_hash(gix_hash::Kind::Sha1, Kind::Tag, &out);
    if id != git_id {
        return Err(format!("id: {id} vs git {git_id}"));
    }
    Ok(format!(
        "tag/{}{}{}{}",
        full.target_kind,
        if full.tagger.is_some() { "" } else { "/no-tagger" },
        if full.pgp_signature.is_some() { "/pgp" } else { "" },
        if full.message.is_empty() { "/msg-empty" } else if r.message.ends_with(b"\n") { "" } else { "/msg-unterminated" }
    ))
}

fn check_tree(bytes: &[u8], git_id: ObjectId) -> Result<String, String> {
    let show = || bytes.as_bstr();
    let full = TreeRef::from_bytes(bytes).map_err(|e| format!("full-refused: TreeRef::from_bytes fails: {e} on {:?}", show()))?;
    let it = TreeRefIter::from_bytes(bytes).entries().map_err(|e| format!("iter-refused: TreeRefIter fails: {e} on {:?}", show()))?;
    if it != full.entries {
        return Err(format!("decoders-disagree: full {:?} vs iterator {it:?}", full.entries));
    }
    // reference split: `<octal> SP <name> NUL <20 bytes>`
    let mut rest = bytes;
    let mut n = 0;
    while !rest.is_empty() {
        let sp = rest.find_byte(b' ').unwrap_or_else(|| vkit::machinery!("reference: malformed tree from git"));
        let nul = rest.find_byte(0).unwrap_or_else(|| vkit::machinery!("reference: malformed tree from git"));
        let mode = u16::from_str_radix(std::str::from_utf8(&rest[..sp]).unwrap_or("x"), 8).unwrap_or_else(|_| vkit::machinery!("reference: bad mode"));
        let e = full.entries.get(n).ok_or_else(|| format!("fields: decoder reports {} entries, the tree has more", full.entries.len()))?;
        if e.mode.0 != mode || e.filename != rest[sp + 1..nul].as_bstr() || e.oid.as_bytes() != &rest[nul + 1..nul + 21] {
            return Err(format!("fields: entry {n} decoded as mode {:o} name {:?} id {} from {:?}", e.mode.0, e.filename, e.oid, rest[..nul + 21].as_bstr()));
        }
        rest = &rest[nul + 21..];
        n += 1;
    }
    if n != full.entries.len() {
        return Err(format!("fields: decoder reports {} entries, the tree has {n}", full.entries.len()));
    }
    let mut out = Vec::new();
    match vkit::catch(|| full.write_to(&mut out)) {
        Ok(Ok(())) => {}
        Ok(Err(e)) => return Err(format!("reencode-refused: TreeRef::write_to fails: {e}")),
        Err(p) => return Err(format!("reencode-panic: TreeRef::write_to panicked: {p} on {:?}", show())),
    }
    if out != bytes || full.size() != bytes.len() as u64 {
        return Err(format!("reencode: TreeRef::write_to gives {:?} (size {}) for {:?}", out.as_bstr(), full.size(), show()));
    }
    let owned: gix_object::Tree = full.clone().into();
    let mut out2 = Vec::new();
    match vkit::catch(|| owned.write_to(&mut out2)) {
        Ok(Ok(())) => {}
        Ok(Err(e)) => return Err(format!("reencode-refused: Tree::write_to fails: {e}")),
        Err(p) => return Err(format!("reencode-panic: Tree::write_to panicked: {p} on {:?}", show())),
    }
    if out2 != bytes || owned.size() != bytes.len() as u64 {
        return Err(format!("reencode-owned: Tree::write_to gives {:?} for {:?}", out2.as_bstr(), show()));
    }
    let id = gix_object::compute_hash(gix_hash::Kind::Sha1, Kind::Tree, &out);
    if id != git_id {
        return Err(format!("id: {id} vs git {git_id}"));
    }
    Ok(format!("tree/{}-entries", n.min(3)))
}

fn verdict(r: Result<String, String>) -> Verdict {
    match r {
        Ok(class) => ok(class),
        Err(m) => {
            let (class, detail) = m.split_once(": ").unwrap_or(("failed", &m));
            bad(class, detail)
        }
    }
}

// ------------------------------------------------------------------------------------------------
struct Fixture {
    repo: PathBuf,
    gpg: PathBuf,
    tree: String,
    parents: Vec<String>,
    blob: String,
    n: AtomicU64,
}
impl Fixture {
    fn new(dir: &Path) -> Fixture {
        let repo = dir.join("repo");
        vkit::git::init(&repo);
        let gpg = dir.join("fake-gpg");
        // what git needs from `gpg -bsau <key>`: the status line on fd 2 and the signature on stdout
        std::fs::write(&gpg, "#!/bin/sh\nwhile IFS= read -r l; do :; done\nprintf '\\n[GNUPG:] SIG_CREATED \\n' >&2\nwhile IFS= read -r l; do printf '%s\\n' \"$l\"; done < \"$C02_SIG\"\n")
            .unwrap_or_else(|e| vkit::machinery!("write fake gpg: {e}"));
        use std::os::unix::fs::PermissionsExt;
        std::fs::set_permissions(&gpg, std::fs::Permissions::from_mode(0o755)).unwrap_or_else(|e| vkit::machinery!("chmod: {e}"));
        let text = |v: Vec<u8>| String::from_utf8_lossy(&v).trim().to_string();
        let blob = text(vkit::git::git_in(&repo, &["hash-object", "-w", "--stdin"], b"content\n"));
        let tree = text(vkit::git::git_in(&repo, &["mktree"], format!("100644 blob {blob}\tfile\n").as_bytes()));
        let mut parents = Vec::new();
        for i in 0..3 {
            parents.push(text(vkit::git::git_in(&repo, &["commit-tree", &tree], format!("parent {i}\n").as_bytes())));
        }
        Fixture { repo, gpg, tree, parents, blob, n: AtomicU64::new(0) }
    }
    fn cmd(&self) -> std::process::Command {
        let mut c = vkit::git::cmd(&self.repo);
        c.arg("-c").arg(format!("gpg.program={}", self.gpg.display())).arg("-c").arg("user.signingkey=KEY");
        c
    }
    fn sig_file(&self, sig: &[u8]) -> PathBuf {
        let p = self.repo.join(format!("sig.{}", self.n.fetch_add(1, Relaxed)));
        std::fs::write(&p, sig).unwrap_or_else(|e| vkit::machinery!("write sig: {e}"));
        p
    }
    fn cat(&self, kind: &str, id: &str) -> Vec<u8> {
        read_loose(&self.repo, kind, id)
    }
}
/// the body of the loose object git just wrote (inflated here; saves one `git cat-file` process per case)
fn read_loose(repo: &Path, kind: &str, id: &str) -> Vec<u8> {
    let id = id.trim();
    if id.len() != 40 {
        vkit::machinery!("git printed {id:?} instead of an id");
    }
    let path = repo.join(".git/objects").join(&id[..2]).join(&id[2..]);
    let Ok(z) = std::fs::read(&path) else {
        return vkit::git::git(repo, &["cat-file", kind, id]); // packed or already present elsewhere
    };
    let mut out = vec![0u8; 1 << 20];
    let mut inflate = gix_features::zlib::Inflate::default();
    let n = match inflate.once(&z, &mut out) {
        Ok((flate2_status, _, n)) if matches!(flate2_status, gix_features::zlib::Status::StreamEnd) => n,
        _ => vkit::machinery!("cannot inflate {}", path.display()),
    };
    out.truncate(n);
    let nul = out.find_byte(0).unwrap_or_else(|| vkit::machinery!("loose object without header"));
    let want = format!("{kind} {}", n - nul - 1);
    if out[..nul] != *want.as_bytes() {
        vkit::machinery!("loose header {:?} but expected {want:?}", out[..nul].as_bstr());
    }
    out.drain(..=nul);
    out
}
/// `git hash-object -t <kind> -w --stdin-paths` over files holding the bodies: git validates and stores each, one process for all
fn batch_hash_object(fx: &Fixture, kind: &str, bodies: &[&[u8]]) -> Vec<String> {
    let dir = fx.repo.join(format!("batch.{}", fx.n.fetch_add(1, Relaxed)));
    std::fs::create_dir_all(&dir).unwrap_or_else(|e| vkit::machinery!("mkdir: {e}"));
    let mut list = Vec::new();
    for (i, b) in bodies.iter().enumerate() {
        let p = dir.join(format!("{i}"));
        std::fs::write(&p, b).unwrap_or_else(|e| vkit::machinery!("write body: {e}"));
        list.extend_from_slice(p.to_string_lossy().as_bytes());
        list.push(b'\n');
    }
    let out = vkit::git::git_in(&fx.repo, &["hash-object", "-t", kind, "-w", "--stdin-paths"], &list);
    let _ = std::fs::remove_dir_all(&dir);
    let ids: Vec<String> = out.lines().map(|l| String::from_utf8_lossy(l).into_owned()).collect();
    if ids.len() != bodies.len() {
        vkit::machinery!("git hash-object --stdin-paths printed {} ids for {} objects", ids.len(), bodies.len());
    }
    ids
}
fn mktree_input(c: &TreeCase) -> Vec<u8> {
    let mut input = Vec::new();
    for (i, (mode, name)) in c.entries.iter().enumerate() {
        input.extend_from_slice(format!("{mode} {:040x}\t", 0x1000 + i).as_bytes());
        input.extend_from_slice(name);
        input.push(0);
    }
    input
}
type IdMap = std::sync::RwLock<std::collections::HashMap<Vec<u8>, String>>;
fn lookup(map: &IdMap, key: &[u8]) -> Option<String> {
    map.read().ok().and_then(|m| m.get(key).cloned())
}
fn oid(text: &str) -> ObjectId {
    ObjectId::from_hex(text.trim().as_bytes()).unwrap_or_else(|_| vkit::machinery!("git printed {text:?} instead of an id"))
}

const IDENTS: [(&str, &str, &str); 5] = [
    ("A U Thor", "author@example.com", "1112911993 +0100"),
    ("é ü", "", "0 +0000"),
    ("A  B.", "x y@z", "1 -1200"),
    ("a", "a@b", "4102444800 +1400"),
    ("Zoë O'Neil-Smith Jr", "z+tag@sub.example.org", "1234567890 -0030"),
];

fn messages() -> Vec<Vec<u8>> {
    vec![
        b"m\n".to_vec(),
        b"".to_vec(),
        b"m".to_vec(),
        b"subject\n\nbody line\n".to_vec(),
        b"\n\nleading blank lines\n".to_vec(),
        b"trailing\n\n\n".to_vec(),
        b" \n".to_vec(),
        "é ü ✓\n".as_bytes().to_vec(),
        b"\xff\xfe bin\x01\n".to_vec(),
        b"-----BEGIN PGP SIGNATURE-----\nabc\n-----END PGP SIGNATURE-----\n".to_vec(),
        b"a\n-----BEGIN PGP SIGNATURE-----\n\nxyz\n-----END PGP SIGNATURE-----\n".to_vec(),
        b"tree 4b825dc642cb6eb9a060e54bf8d69288fbee4904\nparent x\n".to_vec(),
        b" leading space\n continuation-like\n".to_vec(),
        b"gpgsig fake\n more\n\ntext".to_vec(),
        b"a\n-----BEGIN PGP SIGNATURE-----\nno end marker\n".to_vec(),
        b"subject\r\n\r\nbody\r\nlone\rcr\r\n".to_vec(),
    ]
}
fn signatures() -> Vec<Vec<u8>> {
    vec![
        b"-----BEGIN PGP SIGNATURE-----\n\niQEzBAABCAAdFiEE\n=abcd\n-----END PGP SIGNATURE-----\n".to_vec(),
        b"X\n".to_vec(),
        b"-----BEGIN PGP SIGNATURE-----\nabc\n-----END PGP SIGNATURE-----\n".to_vec(),
        b"A\nB\n\n".to_vec(),
        b"A\n\n\nB\n".to_vec(),
        b"A\n  indented\n\ttab\n".to_vec(),
        b"-----BEGIN SSH SIGNATURE-----\nU1NIU0lH\n-----END SSH SIGNATURE-----\n".to_vec(),
        "sig é\n\n ü\n".as_bytes().to_vec(),
        // CR handling (appended so that indices used elsewhere stay stable): every line CRLF, one inner line CRLF, only the
        // last line CRLF, a lone CR inside a line. (`commit-tree -S` strips CR before LF from the signing program's output,
        // `hash-object` and `merge` keep them.)
        b"-----BEGIN PGP SIGNATURE-----\r\n\r\niQEz\r\n=abcd\r\n-----END PGP SIGNATURE-----\r\n".to_vec(),
        b"-----BEGIN PGP SIGNATURE-----\nabc\r\ndef\n-----END PGP SIGNATURE-----\n".to_vec(),
        b"-----BEGIN PGP SIGNATURE-----\nabc\n-----END PGP SIGNATURE-----\r\n".to_vec(),
        b"-----BEGIN PGP SIGNATURE-----\nab\rc\n\r\n-----END PGP SIGNATURE-----\n".to_vec(),
    ]
}

#[derive(Serialize, Deserialize, Hash, Clone, Debug)]
struct CommitTreeCase {
    message: B,
    sign: Option<B>,
    parents: u8,
    encoding: Option<String>,
    author: u8,
    committer: u8,
}

#[derive(Serialize, Deserialize, Hash, Clone, Debug)]
struct RawCase {
    /// complete object body handed to git (hash-object / mktag validate it)
    body: B,
    strict: bool,
    /// created by an individual `git mktag` call (otherwise `git hash-object -t <kind> -w`, batched with --stdin-paths)
    mktag: bool,
}

/// one tree whose entry `m` has the given raw mode (octal text as handed to `git mktree`)
#[derive(Serialize, Deserialize, Hash, Clone, Debug)]
struct ModeCase {
    mode: String,
    /// also add a regular file `a` before and an executable `z` after it
    neighbours: bool,
}
impl ModeCase {
    fn value(&self) -> u32 {
        u32::from_str_radix(&self.mode, 8).unwrap_or_else(|_| vkit::machinery!("case mode {:?} is not octal", self.mode))
    }
    fn tree(&self) -> TreeCase {
        let v = self.value();
        let ty = match v & 0o170000 {
            0o040000 => "tree",
            0o160000 => "commit",
            _ => "blob",
        };
        let mut entries = vec![(format!("{} {ty}", self.mode), B(b"m".to_vec()))];
        if self.neighbours {
            entries.insert(0, ("100644 blob".into(), B(b"a".to_vec())));
            entries.push(("100755 blob".into(), B(b"z".to_vec())));
        }
        TreeCase { entries }
    }
}

#[derive(Serialize, Deserialize, Hash, Clone, Debug)]
struct TreeCase {
    entries: Vec<(String, B)>,
}

#[derive(Serialize, Deserialize, Hash, Clone, Debug)]
struct MergeCase {
    tag_message: B,
    tag_sig: B,
    merge_message: B,
    amend: bool,
    sign_merge: Option<B>,
}

pub fn run(run: &'static Run) {
    let thorough = !run.quick();
    run.rule(
        "every object is created by git 2.39.5 and read back with cat-file. \
         sub commit-tree: `git commit-tree [-S]` (gpg.program = script printing a chosen signature) over messages {16 shapes: CRLF body, empty, un/terminated, blank lines, unicode, binary, PGP blocks, header look-alikes} \
         x gpgsig values {none + 12: PGP with empty line, single line, trailing blank continuation, inner blank lines, indented, SSH, unicode, and CR shapes: every line CRLF, one line CRLF, last line CRLF, lone CR inside a line} x parents 0..3 x encoding {none, ISO-8859-1} x 5 author / 5 committer identities (thorough: message x signature x encoding with one parent, parents 0..3 with {unsigned, first signature}, all 25 identity pairs signed and unsigned; quick: every message unsigned, every signature on the first message, three messages signed, parents/encoding on one commit, 5 identities); \
         sub commit-raw: commits with header blocks git emits elsewhere (mergetag, several extra headers, gpgsig-sha256, HG:* headers, encoding before extras) validated and stored by `git hash-object -t commit -w --stdin-paths`; \
         sub tag: kind {commit,tree,blob} x 6 names x tagger {none + 5} x 9 messages x 6 signature blocks (full product for the first kind/name, a slice for the others), created by `git mktag` (strict; --no-strict without tagger) for every 4th (quick: 12th) case and by `git hash-object -t tag -w` for the rest; \
         sub tree: `git mktree -z --missing` over names with spaces, quotes, LF, unicode, 0xff and modes 100644 100755 100664 120000 40000 160000; \
         sub tree-modes: every type nibble 0..=17 (octal) x permission bits {0, 644, 755, 664, 777, 7777, 1} as entry mode, alone and between two ordinary entries, stored verbatim by `git mktree` (dir/file/symlink/gitlink types must round-trip; for type bits git has no meaning for only agreement of the two decoders, and verbatim re-encoding if accepted, is demanded); \
         sub merge: real `git tag -s` + `git merge --no-ff <tag>` (+ `commit --amend`, `-S`) in a scratch repository -> mergetag headers written by git. \
         oracle per object: full decoder and token iterator both accept, same fields, fields equal git's header grammar (key SP value, SP-continuation, first empty line), \
         write_to(Ref) == write_to(owned) == original bytes, size() == length, id == git's id, CommitRefIter::signature == gpgsig header and signed data == object without it. \
         non-trivial = every accepted object",
    );
    run.assume("git 2.39.5 creates and validates every object (commit-tree, hash-object without --literally, mktag, mktree, tag, merge, commit)");
    run.assume("objects have a header block followed by an empty line (what commit-tree/tag/merge/commit always write); headers-only bodies are outside the domain");
    run.assume("tag names are ones `git tag` accepts (valid ref name, no leading '-'): gitoxide documents that it refuses to write others");
    run.assume("signature programs end their output with LF and do not start it with an empty line (gpg, ssh-keygen, gpgsm all do)");
    run.budget_secs(run.pick(40.0, 600.0));

    let dir = vkit::scratch::Dir::new("c02");
    let fx = Fixture::new(dir.path());
    let msgs = messages();
    let sigs = signatures();

    // ---------------- commit-tree ----------------
    run.sub_with(
        "commit-tree",
        vkit::Opts::default().chunk(256),
        |emit| {
            let sig_opts: Vec<Option<B>> = std::iter::once(None).chain(sigs.iter().map(|s| Some(B(s.clone())))).collect();
            let mut seen = std::collections::HashSet::new();
            let mut emit1 = |c: CommitTreeCase| {
                if seen.insert(vkit::hash_of(&c)) {
                    emit(c)
                }
            };
            for (mi, m) in msgs.iter().enumerate() {
                for (si, s) in sig_opts.iter().enumerate() {
                    for parents in 0..=3u8 {
                        for (ei, enc) in [None, Some("ISO-8859-1".to_string())].into_iter().enumerate() {
                            let base = parents == 1 && ei == 0;
                            let keep = if thorough {
                                // full message x signature x encoding product with one parent; parents 0..3 with {unsigned, first signature}
                                parents == 1 || si <= 1
                            } else {
                                // every message unsigned and with the first signature; every signature on the first message; parents/encoding on one commit
                                base && (si == 0 || mi == 0 || si == 1 && [3, 9, 13].contains(&mi)) || mi == 3 && si == 1 && ei == 0 || mi == 3 && si == 0 && parents == 1
                            };
                            if keep {
                                emit1(CommitTreeCase { message: B(m.clone()), sign: s.clone(), parents, encoding: enc, author: 0, committer: 0 });
                            }
                        }
                    }
                }
            }
            for a in 0..IDENTS.len() as u8 {
                for c in 0..IDENTS.len() as u8 {
                    for s in [None, Some(B(sigs[0].clone()))] {
                        if !thorough && (a != c || s.is_some() && a != 4) {
                            continue;
                        }
                        emit1(CommitTreeCase { message: B(msgs[3].clone()), sign: s, parents: 1, encoding: None, author: a, committer: c });
                    }
                }
            }
        },
        |c: &CommitTreeCase| -> Verdict {
            let mut cmd = fx.cmd();
            if let Some(e) = &c.encoding {
                cmd.arg("-c").arg(format!("i18n.commitEncoding={e}"));
            }
            let (an, ae, ad) = IDENTS[c.author as usize % IDENTS.len()];
            let (cn, ce, cd) = IDENTS[c.committer as usize % IDENTS.len()];
            cmd.env("GIT_AUTHOR_NAME", an).env("GIT_AUTHOR_EMAIL", ae).env("GIT_AUTHOR_DATE", format!("@{ad}"));
            cmd.env("GIT_COMMITTER_NAME", cn).env("GIT_COMMITTER_EMAIL", ce).env("GIT_COMMITTER_DATE", format!("@{cd}"));
            cmd.arg("commit-tree");
            let mut sigfile = None;
            if let Some(s) = &c.sign {
                let p = fx.sig_file(s);
                cmd.env("C02_SIG", &p).arg("-S");
                sigfile = Some(p);
            }
            cmd.arg(&fx.tree);
            for p in fx.parents.iter().take(c.parents as usize) {
                cmd.arg("-p").arg(p);
            }
            let o = vkit::git::run_cmd(cmd, Some(&c.message));
            if let Some(p) = sigfile {
                let _ = std::fs::remove_file(p);
            }
            if !o.ok {
                vkit::machinery!("git commit-tree failed: {}", o.err_text());
            }
            let id = o.text();
            let bytes = fx.cat("commit", &id);
            // the generator's intent must be in the object (guards the fixture, not gitoxide)
            // (git re-codes messages that are not UTF-8 as Latin-1 unless an encoding is configured)
            let header_end = bytes.find("\n\n").unwrap_or(bytes.len());
            let verbatim = std::str::from_utf8(&c.message).is_ok() || c.encoding.is_some();
            if verbatim && !bytes.ends_with(&c.message) || c.sign.is_some() != bytes[..header_end].contains_str("\ngpgsig ") {
                vkit::machinery!("git commit-tree did not produce the intended object: {:?}", bytes.as_bstr());
            }
            verdict(check_commit(&bytes, oid(&id)))
        },
    );

    // ---------------- commit-raw (header shapes git emits, validated by hash-object) ----------------
    let tag_for_mergetag = |msg: &[u8], sig: &[u8]| -> Vec<u8> {
        let mut t = format!("object {}\ntype commit\ntag v1.0\ntagger T <t@x> 1112911993 +0000\n\n", fx.parents[1]).into_bytes();
        t.extend_from_slice(msg);
        t.extend_from_slice(sig);
        t
    };
    let fold = |key: &str, value: &[u8]| -> Vec<u8> {
        // git's add_extra_header: key, then every line of the value prefixed with SP
        let mut out = key.as_bytes().to_vec();
        for line in value.lines_with_terminator() {
            out.push(b' ');
            out.extend_from_slice(line);
        }
        if !value.ends_with(b"\n") {
            out.push(b'\n');
        }
        out
    };
    let raw_ids = IdMap::default();
    let tag_ids = IdMap::default();
    let tree_ids = IdMap::default();
    run.sub_with(
        "commit-raw",
        vkit::Opts::default().chunk(256),
        |emit| {
            let mut raw_cases: Vec<RawCase> = Vec::new();
            let mut extras: Vec<Vec<Vec<u8>>> = Vec::new();
            for s in &sigs {
                extras.push(vec![fold("mergetag", &tag_for_mergetag(b"tag msg\n", s))]);
                extras.push(vec![fold("mergetag", &tag_for_mergetag(b"", s)), fold("gpgsig", s)]);
                extras.push(vec![fold("gpgsig-sha256", s), fold("gpgsig", s)]);
            }
            extras.push(vec![fold("mergetag", &tag_for_mergetag(b"one\n", &sigs[0])), fold("mergetag", &tag_for_mergetag(b"two\n\n", &sigs[2]))]);
            extras.push(vec![b"HG:extra rebase_source:0123\n".to_vec(), b"HG:rename-source hg\n".to_vec()]);
            extras.push(vec![b"x-custom value with  spaces \n".to_vec()]);
            extras.push(vec![b"author2 N <e> 1 +0000\n".to_vec(), fold("note", b"l1\nl2")]);
            extras.push(vec![fold("gpgsig", b"a\n\n"), b"after single\n".to_vec()]);
            for (xi, ex) in extras.iter().enumerate() {
                for (mi, m) in msgs.iter().enumerate() {
                    for enc in [false, true] {
                        for parents in 0..=3usize {
                            let keep = if thorough {
                                parents == 1 || mi == 0 && !enc
                            } else {
                                parents == 1 && !enc && mi <= 1 || xi == 0 && mi <= 2 && parents >= 1 && parents <= 2 || xi == 1 && mi == 9 && parents == 1
                            };
                            if !keep {
                                continue;
                            }
                            let mut b = format!("tree {}\n", fx.tree).into_bytes();
                            for p in fx.parents.iter().take(parents) {
                                b.extend_from_slice(format!("parent {p}\n").as_bytes());
                            }
                            b.extend_from_slice(b"author A U Thor <a@b> 1112911993 +0100\ncommitter C <> 1112911994 -0700\n");
                            if enc {
                                b.extend_from_slice(b"encoding ISO-8859-1\n");
                            }
                            for e in ex {
                                b.extend_from_slice(e);
                            }
                            b.push(b'\n');
                            b.extend_from_slice(m);
                            raw_cases.push(RawCase { body: B(b), strict: true, mktag: false });
                        }
                    }
                }
            }
            let ids = batch_hash_object(&fx, "commit", &raw_cases.iter().map(|c| c.body.as_slice()).collect::<Vec<_>>());
            if let Ok(mut m) = raw_ids.write() {
                m.extend(raw_cases.iter().map(|c| c.body.0.clone()).zip(ids));
            }
            run.cov_add("oracle_calls_git", 1);
            for c in raw_cases {
                emit(c);
            }
        },
        |c: &RawCase| -> Verdict {
            let id = lookup(&raw_ids, &c.body).unwrap_or_else(|| {
                let o = vkit::git::try_git_in(&fx.repo, &["hash-object", "-t", "commit", "-w", "--stdin"], &c.body);
                if !o.ok {
                    vkit::machinery!("git hash-object refused the generated commit: {}", o.err_text());
                }
                o.text()
            });
            let bytes = fx.cat("commit", &id);
            if bytes != c.body.0 {
                vkit::machinery!("git stored different bytes than given");
            }
            verdict(check_commit(&bytes, oid(&id)))
        },
    );

    // ---------------- tags via mktag ----------------
    run.sub_with(
        "tag",
        vkit::Opts::default().chunk(256),
        |emit| {
            let mut tag_cases: Vec<RawCase> = Vec::new();
            let names: &[&str] = &["v1.0", "a/b", "x-y_z", "é", "v1.0-rc.1+build", "1"];
            let tag_msgs: Vec<Vec<u8>> = vec![
                b"msg\n".to_vec(),
                b"".to_vec(),
                b"msg".to_vec(),
                b"subject\n\nbody\n".to_vec(),
                b"\nleading\n".to_vec(),
                "é\n".as_bytes().to_vec(),
                b"\xff bin\n".to_vec(),
                b"trailing\n\n".to_vec(),
                b"-----BEGIN PGP MESSAGE-----\nnot a signature\n".to_vec(),
                b"subject\r\n\r\nbody\r\n".to_vec(),
            ];
            let tag_sigs: Vec<Vec<u8>> = vec![
                b"".to_vec(),
                b"-----BEGIN PGP SIGNATURE-----\n\niQEz\n=abcd\n-----END PGP SIGNATURE-----\n".to_vec(),
                b"-----BEGIN PGP SIGNATURE-----\nabc\n-----END PGP SIGNATURE-----".to_vec(),
                b"-----BEGIN PGP SIGNATURE-----\nabc\n-----END PGP SIGNATURE-----\ntrailing text\n".to_vec(),
                b"-----BEGIN SSH SIGNATURE-----\nU1NI\n-----END SSH SIGNATURE-----\n".to_vec(),
                b"-----BEGIN PGP SIGNATURE-----\nno end\n".to_vec(),
                b"-----BEGIN PGP SIGNATURE-----\r\n\r\niQEz\r\n-----END PGP SIGNATURE-----\r\n".to_vec(),
            ];
            let targets = [("commit", fx.parents[0].clone()), ("tree", fx.tree.clone()), ("blob", fx.blob.clone())];
            for (ki, (kind, target)) in targets.iter().enumerate() {
                for (ni, name) in names.iter().enumerate() {
                    for tagger in 0..=IDENTS.len() {
                        for (mi, m) in tag_msgs.iter().enumerate() {
                            for (si, s) in tag_sigs.iter().enumerate() {
                                let first = ki == 0 && ni == 0;
                                let keep = if thorough {
                                    first || tagger <= 1 && mi <= 2 && si <= 1
                                } else {
                                    first && tagger <= 1 || first && mi == 0 && si <= 1 || tagger == 1 && mi == 0 && si == 0
                                };
                                if !keep {
                                    continue;
                                }
                                let mut b = format!("object {target}\ntype {kind}\ntag {name}\n").into_bytes();
                                if tagger > 0 {
                                    let (n, e, d) = IDENTS[tagger - 1];
                                    b.extend_from_slice(format!("tagger {n} <{e}> {d}\n").as_bytes());
                                }
                                b.push(b'\n');
                                b.extend_from_slice(m);
                                b.extend_from_slice(s);
                                tag_cases.push(RawCase { body: B(b), strict: tagger > 0, mktag: (mi + si + tagger) % if thorough { 4 } else { 12 } == 0 });
                            }
                        }
                    }
                }
            }
            let batched: Vec<&RawCase> = tag_cases.iter().filter(|c| !c.mktag).collect();
            let ids = batch_hash_object(&fx, "tag", &batched.iter().map(|c| c.body.as_slice()).collect::<Vec<_>>());
            if let Ok(mut m) = tag_ids.write() {
                m.extend(batched.iter().map(|c| c.body.0.clone()).zip(ids));
            }
            run.cov_add("oracle_calls_git", 1 + tag_cases.iter().filter(|c| c.mktag).count() as u64);
            for c in tag_cases {
                emit(c);
            }
        },
        |c: &RawCase| -> Verdict {
            let id = match lookup(&tag_ids, &c.body) {
                Some(id) if !c.mktag => id,
                _ => {
                    let args: &[&str] = if c.strict { &["mktag"] } else { &["mktag", "--no-strict"] };
                    let o = vkit::git::try_git_in(&fx.repo, args, &c.body);
                    if !o.ok {
                        vkit::machinery!("git mktag refused the generated tag: {} -- {:?}", o.err_text(), c.body.as_bstr());
                    }
                    o.text()
                }
            };
            let bytes = fx.cat("tag", &id);
            if bytes != c.body.0 {
                vkit::machinery!("git stored different bytes than given");
            }
            verdict(check_tag(&bytes, oid(&id)))
        },
    );

    // ---------------- trees via mktree ----------------
    run.sub_with(
        "tree",
        vkit::Opts::default().chunk(256),
        |emit0| {
            let mut tree_cases: Vec<TreeCase> = Vec::new();
            let mut emit = |c: TreeCase| tree_cases.push(c);
            let names: Vec<&[u8]> = vec![b"a", b"a b", b"\"q\"", b"nl\nx", "é".as_bytes(), b"\xff", b"a.", b"a-", b"a0", b".x", b"\t", &[b'n'; 300]];
            let modes = ["100644 blob", "100755 blob", "100664 blob", "120000 blob", "40000 tree", "160000 commit"];
            vkit::enumerate::subsets(&names, 0, if thorough { 2 } else { 1 }, |ns| {
                for rot in 0..modes.len() {
                    emit(TreeCase { entries: ns.iter().enumerate().map(|(i, n)| (modes[(i + rot) % modes.len()].to_string(), B(n.to_vec()))).collect() });
                }
            });
            // one tree with every name
            for rot in 0..modes.len() {
                emit(TreeCase { entries: names.iter().enumerate().map(|(i, n)| (modes[(i + rot) % modes.len()].to_string(), B(n.to_vec()))).collect() });
            }
            let mut all = Vec::new();
            for c in &tree_cases {
                all.extend_from_slice(&mktree_input(c));
                all.push(0);
            }
            let out = vkit::git::git_in(&fx.repo, &["mktree", "-z", "--missing", "--batch"], &all);
            let ids: Vec<String> = out.lines().map(|l| String::from_utf8_lossy(l).into_owned()).collect();
            if ids.len() != tree_cases.len() {
                vkit::machinery!("git mktree --batch printed {} ids for {} trees", ids.len(), tree_cases.len());
            }
            if let Ok(mut m) = tree_ids.write() {
                m.extend(tree_cases.iter().map(mktree_input).zip(ids));
            }
            run.cov_add("oracle_calls_git", 1);
            for c in tree_cases {
                emit0(c);
            }
        },
        |c: &TreeCase| -> Verdict {
            let input = mktree_input(c);
            let id = lookup(&tree_ids, &input).unwrap_or_else(|| {
                let o = vkit::git::try_git_in(&fx.repo, &["mktree", "-z", "--missing"], &input);
                if !o.ok {
                    vkit::machinery!("git mktree failed: {}", o.err_text());
                }
                o.text()
            });
            let bytes = fx.cat("tree", &id);
            verdict(check_tree(&bytes, oid(&id)))
        },
    );

    // ---------------- tree entry modes: every type nibble x permission patterns, stored verbatim by git mktree ----------------
    let mode_ids = IdMap::default();
    run.sub_with(
        "tree-modes",
        vkit::Opts::default().chunk(256),
        |emit| {
            let mut cases = Vec::new();
            for ty in 0..16u32 {
                for perm in [0u32, 0o644, 0o755, 0o664, 0o777, 0o7777, 0o1] {
                    for neighbours in [false, true] {
                        cases.push(ModeCase { mode: format!("{:o}", ty << 12 | perm), neighbours });
                    }
                }
            }
            let mut all = Vec::new();
            for c in &cases {
                all.extend_from_slice(&mktree_input(&c.tree()));
                all.push(0);
            }
            let out = vkit::git::git_in(&fx.repo, &["mktree", "-z", "--missing", "--batch"], &all);
            let ids: Vec<String> = out.lines().map(|l| String::from_utf8_lossy(l).into_owned()).collect();
            if ids.len() != cases.len() {
                vkit::machinery!("git mktree --batch printed {} ids for {} trees", ids.len(), cases.len());
            }
            if let Ok(mut m) = mode_ids.write() {
                m.extend(cases.iter().map(|c| mktree_input(&c.tree())).zip(ids));
            }
            run.cov_add("oracle_calls_git", 1);
            for c in cases {
                emit(c);
            }
        },
        |c: &ModeCase| -> Verdict {
            let input = mktree_input(&c.tree());
            let id = lookup(&mode_ids, &input).unwrap_or_else(|| {
                let o = vkit::git::try_git_in(&fx.repo, &["mktree", "-z", "--missing"], &input);
                if !o.ok {
                    vkit::machinery!("git mktree refused mode {}: {}", c.mode, o.err_text());
                }
                o.text()
            });
            let bytes = fx.cat("tree", &id);
            let v = c.value();
            // git stores the number it was given (printed with %o)
            if !bytes.contains_str(format!("{:o} m\0", v)) {
                vkit::machinery!("git mktree did not store mode {:o} verbatim: {:?}", v, bytes.as_bstr());
            }
            let kind = match v & 0o170000 {
                0o040000 => "dir",
                0o100000 => "file",
                0o120000 => "symlink",
                0o160000 => "gitlink",
                _ => "unknown-type",
            };
            let perm = match v & 0o7777 {
                0 => "perm-0",
                0o644 | 0o755 => "perm-usual",
                _ => "perm-unusual",
            };
            if matches!(kind, "symlink" | "gitlink") && v & 0o7777 != 0 {
                LINK_WITH_PERMS.fetch_add(1, Relaxed);
            }
            if kind != "unknown-type" {
                // the four object types git knows: in the property's domain, must decode in both parsers and re-encode verbatim
                return verdict(check_tree(&bytes, oid(&id)).map(|_| format!("tree-mode/{kind}/{perm}")));
            }
            // type bits git has no meaning for (git mktree stores them, git fsck calls them badFilemode): only consistency is demanded
            let full = TreeRef::from_bytes(&bytes).is_ok();
            let it = TreeRefIter::from_bytes(&bytes).entries().is_ok();
            match (full, it) {
                (false, false) => vkit::ok_trivial("tree-mode/unknown-type/refused-by-both-decoders"),
                (true, true) => verdict(check_tree(&bytes, oid(&id)).map(|_| "tree-mode/unknown-type/accepted-verbatim".to_string())),
                _ => bad("decoders-disagree", format!("mode {:o}: TreeRef::from_bytes accepts = {full}, TreeRefIter accepts = {it}", v)),
            }
        },
    );
    run.require("symlink/gitlink entries with permission bits were decoded", LINK_WITH_PERMS.load(Relaxed) > 0);

    // ---------------- merge of a signed tag: mergetag written by git itself ----------------
    run.sub_with(
        "merge",
        vkit::Opts::default().chunk(32),
        |emit| {
            let tmsgs: Vec<&[u8]> = if thorough {
                vec![b"release\n", b"subject\n\nbody\n", "é\n\n".as_bytes(), b"release\r\n\r\nnotes\r\nlone\rcr\n"]
            } else {
                vec![b"release\n", b"release\r\n\r\nnotes\r\nlone\rcr\n"]
            };
            let tsigs: Vec<&Vec<u8>> = if thorough { vec![&sigs[0], &sigs[6]] } else { vec![&sigs[0]] };
            for tm in &tmsgs {
                for ts in &tsigs {
                    for (amend, sign) in [(false, None), (false, Some(B(sigs[0].clone()))), (true, None)] {
                        if !thorough && (amend || tm.contains(&b'\r') && sign.is_some()) {
                            continue;
                        }
                        emit(MergeCase { tag_message: B(tm.to_vec()), tag_sig: B((*ts).clone()), merge_message: B(b"Merge tag\n\ndetails".to_vec()), amend, sign_merge: sign });
                    }
                }
            }
        },
        |c: &MergeCase| -> Verdict {
            let d = vkit::scratch::Dir::new("c02merge");
            vkit::git::init(d.path());
            let g = |args: &[&str], sig: Option<&[u8]>, stdin: Option<&[u8]>| -> Vec<u8> {
                let mut cmd = vkit::git::cmd(d.path());
                cmd.arg("-c").arg(format!("gpg.program={}", fx.gpg.display())).arg("-c").arg("user.signingkey=KEY");
                let mut p = None;
                if let Some(s) = sig {
                    let f = fx.sig_file(s);
                    cmd.env("C02_SIG", &f);
                    p = Some(f);
                }
                cmd.args(args);
                let o = vkit::git::run_cmd(cmd, stdin);
                if let Some(p) = p {
                    let _ = std::fs::remove_file(p);
                }
                if !o.ok {
                    vkit::machinery!("git {args:?} failed: {}", o.err_text());
                }
                o.stdout
            };
            std::fs::write(d.join("f"), "1\n").unwrap_or_else(|e| vkit::machinery!("{e}"));
            g(&["add", "f"], None, None);
            g(&["commit", "-q", "-m", "base"], None, None);
            g(&["checkout", "-q", "-b", "side"], None, None);
            std::fs::write(d.join("g"), "2\n").unwrap_or_else(|e| vkit::machinery!("{e}"));
            g(&["add", "g"], None, None);
            g(&["commit", "-q", "-m", "side"], None, None);
            g(&["tag", "-s", "--cleanup=verbatim", "-F", "-", "rel"], Some(&c.tag_sig), Some(&c.tag_message));
            g(&["checkout", "-q", "main"], None, None);
            let mm = String::from_utf8_lossy(&c.merge_message).into_owned();
            let mut args = vec!["merge", "-q", "--no-ff", "-m", &mm];
            if c.sign_merge.is_some() {
                args.push("-S");
            }
            args.push("rel");
            g(&args, c.sign_merge.as_ref().map(|b| b.as_slice()), None);
            if c.amend {
                g(&["commit", "-q", "--amend", "-m", "amended"], None, None);
            }
            let head = String::from_utf8_lossy(&g(&["rev-parse", "HEAD"], None, None)).trim().to_string();
            let bytes = g(&["cat-file", "commit", &head], None, None);
            if c.tag_message.contains(&b'\r') {
                if !bytes.contains_str("\r\n ") {
                    vkit::machinery!("git merge did not keep the CRLF lines of the tag in the mergetag header: {:?}", bytes.as_bstr());
                }
                CR_MERGE.fetch_add(1, Relaxed);
            }
            if !bytes.contains_str("\nmergetag object ") {
                vkit::machinery!("git merge did not write a mergetag header: {:?}", bytes.as_bstr());
            }
            if let Err(m) = check_commit(&bytes, oid(&head)) {
                return verdict(Err(m));
            }
            // the tag object git wrote, and the mergetag value as a tag
            let tag_id = String::from_utf8_lossy(&g(&["rev-parse", "rel"], None, None)).trim().to_string();
            let tag_bytes = g(&["cat-file", "tag", &tag_id], None, None);
            if let Err(m) = check_tag(&tag_bytes, oid(&tag_id)) {
                return verdict(Err(m));
            }
            let commit = match CommitRef::from_bytes(&bytes) {
                Ok(c) => c,
                Err(e) => return bad("full-refused", e),
            };
            let mt: Vec<BString> = commit.extra_headers().find_all("mergetag").map(|v: &BStr| v.to_owned()).collect();
            if mt.len() != 1 || mt[0] != tag_bytes {
                return bad("mergetag-value", format!("mergetag header value {:?} is not the tag object {:?}", mt, tag_bytes.as_bstr()));
            }
            verdict(check_commit(&bytes, oid(&head)).map(|c| format!("merge/{c}")))
        },
    );
    run.cov_add("oracle_calls_git", 2 * run.sub_evaluations("commit-tree") + 14 * run.sub_evaluations("merge"));
    run.require("signed commits with an empty continuation line were decoded", run.outcome_count("commit/p1/extra-multi/empty-continuation") > 0);
    run.cov("commits_with_CR_in_multi_line_header", CR_MULTI.load(Relaxed));
    run.require("commits whose multi-line header value contains CR (hash-object and real merge) were decoded", CR_MULTI.load(Relaxed) > 0 && CR_MERGE.load(Relaxed) > 0);
    run.require("tags without tagger and with pgp block were decoded", run.outcome_count("tag/commit/no-tagger/pgp") > 0);
}
