mod c01;
mod c05;
use vkit::{Check, Level};
fn main() {
    vkit::main(&[
        Check { id: "C01", level: Level::Exploration, run: c01::run },
        Check { id: "C05", level: Level::Exploration, run: c05::run },
    ]);
}
