mod c01;
use vkit::{Check, Level};
fn main() {
    vkit::main(&[Check { id: "C01", level: Level::Exploration, run: c01::run }]);
}
