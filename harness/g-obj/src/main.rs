mod c01;
mod c02;
mod c03;
mod c04;
mod c05;
mod c57;
use vkit::{Check, Level};
fn main() {
    vkit::main(&[
        Check { id: "C01", level: Level::Exploration, run: c01::run },
        Check { id: "C02", level: Level::Exploration, run: c02::run },
        Check { id: "C03", level: Level::Exploration, run: c03::run },
        Check { id: "C04", level: Level::ModelChecking, run: c04::run },
        Check { id: "C05", level: Level::Exploration, run: c05::run },
        Check { id: "C57", level: Level::Exploration, run: c57::run },
    ]);
}
