//! C05 — object ids, hex forms and prefixes are consistent (E1: bounded-exhaustive inputs).
//!
//! The oracle is plain text: the 40-digit lower-case hex form of an id (produced by a reference encoder in
//! this file), its first n characters, and `str::cmp` on those.
use gix_hash::{ObjectId, Prefix};
use serde::{Deserialize, Serialize};
use std::cmp::Ordering;
use std::sync::atomic::{AtomicU64, Ordering::Relaxed};
use vkit::{bad, enumerate, ok, ok_trivial, Run, Verdict};

// ---------- reference hex codec (independent of faster_hex / gix-hash) ----------
fn ref_hex(b: &[u8]) -> String {
    const D: &[u8; 16] = b"0123456789abcdef";
    let mut s = String::with_capacity(b.len() * 2);
    for &x in b {
        s.push(D[(x >> 4) as usize] as char);
        s.push(D[(x & 15) as usize] as char);
    }
    s
}
fn ref_nibble(c: u8) -> Option<u8> {
    match c {
        b'0'..=b'9' => Some(c - b'0'),
        b'a'..=b'f' => Some(c - b'a' + 10),
        b'A'..=b'F' => Some(c - b'A' + 10),
        _ => None,
    }
}
/// decode `s` (any case) into 20 bytes, missing digits are zero; None if a non-hex byte occurs or s is too long
fn ref_unhex20(s: &[u8]) -> Option<[u8; 20]> {
    if s.len() > 40 {
        return None;
    }
    let mut out = [0u8; 20];
    for (i, &c) in s.iter().enumerate() {
        let n = ref_nibble(c)?;
        out[i / 2] |= if i % 2 == 0 { n << 4 } else { n };
    }
    Some(out)
}

// ---------- id universe ----------
fn set_nibble(b: &mut [u8; 20], pos: usize, v: u8) {
    let byte = &mut b[pos / 2];
    if pos % 2 == 0 {
        *byte = (*byte & 0x0f) | (v << 4);
    } else {
        *byte = (*byte & 0xf0) | v;
    }
}

/// ids: for each background (all nibbles 0, all nibbles f, [thorough] alternating 7/8): the background itself, every id
/// with one nibble replaced (every position 0..40 x 4 values) and every id with two nibbles at distance <= `maxdist`
/// replaced (4x4 values). Thus for every hex_len n there are ids that differ from each other exactly in nibble n-1
/// (last digit inside the prefix), exactly in nibble n (first digit outside; the masked half byte when n is odd)
/// and in both.
fn id_universe(thorough: bool) -> Vec<[u8; 20]> {
    let maxdist = if thorough { 4 } else { 2 };
    let backgrounds: &[(u8, [u8; 4])] =
        if thorough { &[(0x0, [1, 7, 8, 0xf]), (0xf, [0, 7, 8, 0xe]), (0x7, [0, 6, 8, 0xf])] } else { &[(0x0, [1, 7, 8, 0xf]), (0xf, [0, 7, 8, 0xe])] };
    let mut v: Vec<[u8; 20]> = Vec::new();
    for &(bg, vals) in backgrounds {
        let mut base = [bg << 4 | bg; 20];
        if bg == 0x7 {
            base = [0x78; 20];
        }
        v.push(base);
        for p in 0..40 {
            for a in vals {
                let mut x = base;
                set_nibble(&mut x, p, a);
                v.push(x);
                for d in 1..=maxdist {
                    if p + d >= 40 {
                        break;
                    }
                    for b in vals {
                        let mut y = x;
                        set_nibble(&mut y, p + d, b);
                        v.push(y);
                    }
                }
            }
        }
    }
    // a few ids with all bytes distinct
    let mut inc = [0u8; 20];
    for (i, b) in inc.iter_mut().enumerate() {
        *b = (i as u8).wrapping_mul(0x11).wrapping_add(0x01);
    }
    v.push(inc);
    v.push(*b"\x01\x23\x45\x67\x89\xab\xcd\xef\xfe\xdc\xba\x98\x76\x54\x32\x10\x0f\x1e\x2d\x3c");
    v.sort_unstable();
    v.dedup();
    v
}

#[derive(Serialize, Deserialize, Hash, Clone, Debug)]
struct IdCase {
    id: String,
}

#[derive(Serialize, Deserialize, Hash, Clone, Debug)]
struct PrefixCase {
    id: String,
    hex_len: usize,
}

#[derive(Serialize, Deserialize, Hash, Clone, Debug)]
struct HexCase {
    text: String,
}

fn oid_of(hex40: &str) -> ObjectId {
    match ref_unhex20(hex40.as_bytes()) {
        Some(b) if hex40.len() == 40 => ObjectId::from(b),
        _ => vkit::machinery!("case id {hex40:?} is not 40 hex digits"),
    }
}

fn check_id(c: &IdCase) -> Verdict {
    let id = oid_of(&c.id);
    let want = &c.id;
    if id.to_string() != *want {
        return bad("display", format!("ObjectId Display gives {} for bytes of {want}", id));
    }
    if id.to_hex().to_string() != *want {
        return bad("to_hex", format!("to_hex gives {} for {want}", id.to_hex()));
    }
    let o: &gix_hash::oid = &id;
    if format!("{o}") != *want {
        return bad("display", format!("&oid Display gives {o} for {want}"));
    }
    let mut buf = [0u8; 40];
    let n = id.hex_to_buf(&mut buf);
    if n != 40 || buf != want.as_bytes() {
        return bad("hex_to_buf", format!("hex_to_buf wrote {n} bytes {:?} for {want}", String::from_utf8_lossy(&buf)));
    }
    let mut w = Vec::new();
    if id.write_hex_to(&mut w).is_err() || w != want.as_bytes() {
        return bad("write_hex_to", format!("wrote {:?} for {want}", String::from_utf8_lossy(&w)));
    }
    for len in 0..=42usize {
        let got = id.to_hex_with_len(len).to_string();
        if got != want[..len.min(40)] {
            return bad("to_hex_with_len", format!("to_hex_with_len({len}) gives {got:?} for {want}"));
        }
    }
    let upper = want.to_ascii_uppercase();
    for (what, text) in [("lower", want.as_str()), ("upper", upper.as_str())] {
        match ObjectId::from_hex(text.as_bytes()) {
            Ok(back) if back == id => {}
            Ok(back) => return bad("from_hex", format!("ObjectId::from_hex({text}) [{what}] gives {back}")),
            Err(e) => return bad("from_hex", format!("ObjectId::from_hex({text}) [{what}] fails: {e}")),
        }
        match text.parse::<ObjectId>() {
            Ok(back) if back == id => {}
            _ => return bad("from_str", format!("{text:?}.parse::<ObjectId>() does not give the id back")),
        }
    }
    match gix_hash::oid::try_from_bytes(id.as_bytes()) {
        Ok(o) if o == &*id && ObjectId::from(o) == id => {}
        _ => return bad("bytes", format!("oid::try_from_bytes(as_bytes()) does not give {want} back")),
    }
    if id.is_null() != (c.id.bytes().all(|b| b == b'0')) {
        return bad("is_null", format!("is_null() = {} for {want}", id.is_null()));
    }
    ok(if want.bytes().any(|b| b.is_ascii_alphabetic()) { "roundtrip-letters" } else { "roundtrip-digits" })
}

struct Cand {
    hex: String,
    id: ObjectId,
}

#[derive(Default)]
struct Counters {
    comparisons: AtomicU64,
    equal_other: AtomicU64,
    differs_only_first_outside_odd: AtomicU64,
    differs_only_first_outside_even: AtomicU64,
    differs_only_last_inside: AtomicU64,
}

fn first_diff(a: &[u8], b: &[u8]) -> Option<usize> {
    a.iter().zip(b).position(|(x, y)| x != y)
}

fn check_prefix(c: &PrefixCase, cands: &[Cand], k: &Counters) -> Verdict {
    let id = oid_of(&c.id);
    let n = c.hex_len;
    let p = match Prefix::new(&id, n) {
        Err(gix_hash::prefix::Error::TooShort { hex_len }) if n < 4 && hex_len == n => return ok_trivial("refused-too-short"),
        Err(gix_hash::prefix::Error::TooLong { hex_len, .. }) if n > 40 && hex_len == n => return ok_trivial("refused-too-long"),
        Err(e) => return bad("refused", format!("Prefix::new({}, {n}) fails: {e}", c.id)),
        Ok(_) if !(4..=40).contains(&n) => return bad("accepted-out-of-range", format!("Prefix::new({}, {n}) succeeds", c.id)),
        Ok(p) => p,
    };
    let want = &c.id[..n];
    if p.hex_len() != n {
        return bad("hex_len", format!("Prefix::new({}, {n}).hex_len() = {}", c.id, p.hex_len()));
    }
    let shown = p.to_string();
    if shown != want {
        return bad("display", format!("Prefix::new({}, {n}) prints {shown:?}, the first {n} digits are {want:?}", c.id));
    }
    let padded = format!("{want}{}", "0".repeat(40 - n));
    if p.as_oid().to_hex().to_string() != padded {
        return bad("as_oid", format!("Prefix::new({}, {n}).as_oid() = {}, expected {padded}", c.id, p.as_oid()));
    }
    // parsed from text (both cases) == cut from the id
    let upper = want.to_ascii_uppercase();
    for text in [want, upper.as_str()] {
        match Prefix::from_hex(text) {
            Ok(q) if q == p && q.cmp(&p) == Ordering::Equal => {}
            Ok(q) => return bad("from_hex-vs-new", format!("Prefix::from_hex({text:?}) = {q:?} but Prefix::new({}, {n}) = {p:?}", c.id)),
            Err(e) => return bad("from_hex-refused", format!("Prefix::from_hex({text:?}) fails: {e}")),
        }
        match Prefix::try_from(text) {
            Ok(q) if q == p => {}
            _ => return bad("try_from", format!("Prefix::try_from({text:?}) differs from Prefix::new({}, {n})", c.id)),
        }
    }
    if n == 40 && Prefix::from(id) != p {
        return bad("from-id", format!("Prefix::from({}) != Prefix::new(id, 40)", c.id));
    }
    let (mut eq_other, mut lt, mut gt) = (0u64, 0u64, 0u64);
    let (mut only_outside, mut only_inside) = (0u64, 0u64);
    for cand in cands {
        let expect = want.as_bytes().cmp(&cand.hex.as_bytes()[..n]);
        let got = p.cmp_oid(&cand.id);
        if got != expect {
            return bad(
                "cmp_oid",
                format!("prefix {want} ({n} digits of {}).cmp_oid({}) = {got:?}, comparing the first {n} hex digits gives {expect:?}", c.id, cand.hex),
            );
        }
        match expect {
            Ordering::Equal => {
                if cand.hex != c.id {
                    eq_other += 1;
                    if first_diff(cand.hex.as_bytes(), c.id.as_bytes()) == Some(n) {
                        only_outside += 1;
                    }
                }
            }
            Ordering::Less => lt += 1,
            Ordering::Greater => gt += 1,
        }
        if expect != Ordering::Equal && first_diff(cand.hex.as_bytes(), c.id.as_bytes()) == Some(n - 1) {
            only_inside += 1;
        }
    }
    k.comparisons.fetch_add(cands.len() as u64, Relaxed);
    k.equal_other.fetch_add(eq_other, Relaxed);
    if n % 2 == 1 { &k.differs_only_first_outside_odd } else { &k.differs_only_first_outside_even }.fetch_add(only_outside, Relaxed);
    k.differs_only_last_inside.fetch_add(only_inside, Relaxed);
    let parity = if n % 2 == 1 { "odd" } else { "even" };
    if (eq_other > 0 || n == 40) && lt + gt > 0 {
        ok(format!("{parity}-len/{}{}{}", if eq_other > 0 { "E" } else { "" }, if lt > 0 { "L" } else { "" }, if gt > 0 { "G" } else { "" }))
    } else {
        ok_trivial(format!("{parity}-len/no-other-id-shares-prefix"))
    }
}

fn check_hex(c: &HexCase) -> Verdict {
    let t = c.text.as_str();
    let len = t.len();
    let all_hex = t.bytes().all(|b| ref_nibble(b).is_some());
    // full ids
    match ObjectId::from_hex(t.as_bytes()) {
        Ok(id) => {
            if !(len == 40 && all_hex) {
                return bad("id-accepted", format!("ObjectId::from_hex({t:?}) succeeds with {id}"));
            }
            if id.to_string() != t.to_ascii_lowercase() {
                return bad("id-roundtrip", format!("ObjectId::from_hex({t:?}) prints {id}"));
            }
        }
        Err(e) => {
            if len == 40 && all_hex {
                return bad("id-refused", format!("ObjectId::from_hex({t:?}) fails: {e}"));
            }
        }
    }
    // prefixes
    use gix_hash::prefix::from_hex::Error as E;
    match Prefix::from_hex(t) {
        Ok(p) => {
            if !(all_hex && (4..=40).contains(&len)) {
                return bad("accepted", format!("Prefix::from_hex({t:?}) succeeds with {p:?}"));
            }
            let lower = t.to_ascii_lowercase();
            if p.hex_len() != len {
                return bad("hex_len", format!("Prefix::from_hex({t:?}).hex_len() = {}", p.hex_len()));
            }
            if p.to_string() != lower {
                return bad("display", format!("Prefix::from_hex({t:?}) prints {:?}", p.to_string()));
            }
            let Some(bytes) = ref_unhex20(t.as_bytes()) else { vkit::machinery!("reference decoder refused {t:?}") };
            let full = ObjectId::from(bytes);
            if p.as_oid() != &*full {
                return bad("as_oid", format!("Prefix::from_hex({t:?}).as_oid() = {}, expected {full}", p.as_oid()));
            }
            match Prefix::new(&full, len) {
                Ok(q) if q == p => {}
                other => return bad("from_hex-vs-new", format!("Prefix::from_hex({t:?}) = {p:?} but Prefix::new({full}, {len}) = {other:?}")),
            }
            // compares equal to the id it was padded from and to the id with all later digits f; differs from the
            // ids obtained by changing its last digit
            let mut hi = bytes;
            for pos in len..40 {
                set_nibble(&mut hi, pos, 0xf);
            }
            for (cand, what) in [(bytes, "zero-padded"), (hi, "f-padded")] {
                if p.cmp_oid(&ObjectId::from(cand)) != Ordering::Equal {
                    return bad("cmp_oid", format!("prefix {t:?} does not compare Equal to its {what} id {}", ref_hex(&cand)));
                }
            }
            let last = ref_nibble(t.as_bytes()[len - 1]).unwrap_or(0);
            for (delta, expect) in [(-1i8, Ordering::Greater), (1, Ordering::Less)] {
                let v = last as i8 + delta;
                if !(0..=15).contains(&v) {
                    continue;
                }
                let mut other = hi;
                set_nibble(&mut other, len - 1, v as u8);
                let got = p.cmp_oid(&ObjectId::from(other));
                if got != expect {
                    return bad("cmp_oid", format!("prefix {t:?}.cmp_oid({}) = {got:?}, expected {expect:?}", ref_hex(&other)));
                }
            }
            ok(format!(
                "parsed-{}-{}",
                if len % 2 == 1 { "odd" } else { "even" },
                if t.bytes().any(|b| b.is_ascii_uppercase()) { "has-upper" } else { "lower" }
            ))
        }
        Err(e) => {
            if all_hex && (4..=40).contains(&len) {
                return bad("refused", format!("Prefix::from_hex({t:?}) fails: {e}"));
            }
            let class = match e {
                E::TooShort { hex_len } if hex_len == len && len < 4 => "refused-too-short",
                E::TooLong { hex_len } if hex_len == len && len > 40 => "refused-too-long",
                E::Invalid if !all_hex => "refused-invalid-digit",
                other => return bad("wrong-error", format!("Prefix::from_hex({t:?}) fails with {other:?}")),
            };
            // refusing a non-hex digit in an otherwise well-formed string exercises the decoder; pure length errors do not
            if class == "refused-invalid-digit" && (4..=40).contains(&len) {
                ok(class)
            } else {
                ok_trivial(class)
            }
        }
    }
}

pub fn run(run: &'static Run) {
    let thorough = !run.quick();
    run.rule(format!(
        "ids: backgrounds {{all 0, all f{}}} with one nibble (every position 0..40 x 4 values around the nibble boundaries 0/1/7/8/e/f) or two nibbles at distance <= {} replaced, \
         plus two ids with all bytes distinct; sub `ids`: every id through every hex producer/consumer (Display, to_hex, to_hex_with_len 0..=42, hex_to_buf, write_hex_to, \
         from_hex lower+upper, FromStr); sub `prefix`: every id x every hex_len 0..=42 (0..3 and 41,42 must be refused) -> Prefix::new vs the first n digits of the text form, \
         Prefix::from_hex of those digits (lower and upper) must be the same value, and cmp_oid against EVERY id of the universe must equal str::cmp of the first n digits; \
         sub `hex-text`: all strings of length 0..={} over {{0 9 a f A F g G / : @ ` e-acute}} plus for every length 0..=42 a run of one of {{0,f,A}} with one or two \
         characters (distance <= {}) replaced by each alphabet character -> Prefix::from_hex / ObjectId::from_hex accept exactly the hex strings of legal length, print back \
         lower-cased, agree with Prefix::new, and compare Equal/Less/Greater to the neighbouring ids. \
         non-trivial (prefix) = another id of the universe shares the n digits (or n=40) and at least one does not; non-trivial (hex-text) = accepted, or refused because of a \
         non-hex character at a legal length",
        if thorough { ", alternating 7/8" } else { "" },
        if thorough { 4 } else { 2 },
        if thorough { 5 } else { 4 },
        if thorough { 3 } else { 1 },
    ));
    run.assume("SHA-1 ids only (the only hash kind compiled into gix-hash at this commit)");
    run.assume("the text form of an id is its 40-digit lower-case hexadecimal form, computed by a reference encoder in the check");
    run.budget_secs(run.pick(40.0, 600.0));

    let universe = id_universe(thorough);
    let cands: Vec<Cand> = universe.iter().map(|b| Cand { hex: ref_hex(b), id: ObjectId::from(*b) }).collect();
    run.cov("id_universe", cands.len());

    run.sub(
        "ids",
        |emit| {
            for c in &cands {
                emit(IdCase { id: c.hex.clone() });
            }
        },
        check_id,
    );

    let k = Counters::default();
    run.sub_with(
        "prefix",
        vkit::Opts::default().chunk(4096),
        |emit| {
            for n in 0..=42usize {
                for c in &cands {
                    emit(PrefixCase { id: c.hex.clone(), hex_len: n });
                }
            }
        },
        |c: &PrefixCase| check_prefix(c, &cands, &k),
    );
    let g = |a: &AtomicU64| a.load(Relaxed);
    run.cov("prefix_id_comparisons", g(&k.comparisons));
    run.cov("pairs_equal_with_other_id", g(&k.equal_other));
    run.cov("pairs_differing_only_in_first_digit_outside_odd_len", g(&k.differs_only_first_outside_odd));
    run.cov("pairs_differing_only_in_first_digit_outside_even_len", g(&k.differs_only_first_outside_even));
    run.cov("pairs_differing_only_in_last_digit_inside", g(&k.differs_only_last_inside));
    run.require("some prefix compared Equal to an id other than its source", g(&k.equal_other) > 0);
    run.require(
        "odd-length prefixes met ids differing only in the masked half byte",
        g(&k.differs_only_first_outside_odd) > 0 && g(&k.differs_only_first_outside_even) > 0,
    );
    run.require("prefixes met ids differing only in their last digit", g(&k.differs_only_last_inside) > 0);

    let alpha: [&[u8]; 13] = [b"0", b"9", b"a", b"f", b"A", b"F", b"g", b"G", b"/", b":", b"@", b"`", "é".as_bytes()];
    run.sub(
        "hex-text",
        |emit| {
            let mut seen = std::collections::HashSet::new();
            let mut emit1 = |s: &[u8]| {
                let text = String::from_utf8(s.to_vec()).unwrap_or_else(|_| vkit::machinery!("generator made non-UTF-8 text"));
                if seen.insert(vkit::hash_of(&text)) {
                    emit(HexCase { text });
                }
            };
            enumerate::strings(&alpha, 0, if thorough { 5 } else { 4 }, |s| emit1(s));
            let maxdist = if thorough { 3 } else { 1 };
            for len in 0..=42usize {
                for base in [&b"0"[..], b"f", b"A"] {
                    let run_: Vec<&[u8]> = vec![base; len];
                    emit1(&run_.concat());
                    for p in 0..len {
                        for a in alpha {
                            let mut one = run_.clone();
                            one[p] = a;
                            emit1(&one.concat());
                            for d in 1..=maxdist {
                                if p + d >= len {
                                    break;
                                }
                                for b in alpha {
                                    let mut two = one.clone();
                                    two[p + d] = b;
                                    emit1(&two.concat());
                                }
                            }
                        }
                    }
                }
            }
        },
        check_hex,
    );
    run.require("upper-case prefixes were parsed", run.outcome_count("parsed-odd-has-upper") > 0 && run.outcome_count("parsed-even-has-upper") > 0);
    run.require("non-hex digits were refused at legal lengths", run.outcome_count("refused-invalid-digit") > 0);
}
