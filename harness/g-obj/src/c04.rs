//! C04 — tree editing yields the same tree as building the result from scratch (E2: all operation histories up to a depth
//! on the real `gix_object::tree::Editor`, no state merging; reference model = nested map, ids by a from-scratch builder
//! that is validated against `git mktree` for every distinct directory it ever produced).
use bstr::{BStr, ByteSlice};
use gix_hash::ObjectId;
use gix_object::{
    tree::{self, EntryKind},
    Tree,
};
use serde::{Deserialize, Serialize};
use std::cell::RefCell;
use std::collections::{BTreeMap, HashMap};
use std::sync::atomic::{AtomicU64, Ordering::Relaxed};
use std::sync::RwLock;
use vkit::{bad, ok, ok_trivial, Run, Verdict};

// ------------------------------------------------------------------------------------------------ values
#[derive(Serialize, Deserialize, Hash, Clone, Copy, Debug, PartialEq, Eq)]
enum Val {
    BlobI1,
    ExeI2,
    TreeEmpty,
    BlobNull,
    LinkI1,
}
impl Val {
    fn kind(self) -> EntryKind {
        match self {
            Val::BlobI1 | Val::BlobNull => EntryKind::Blob,
            Val::ExeI2 => EntryKind::BlobExecutable,
            Val::TreeEmpty => EntryKind::Tree,
            Val::LinkI1 => EntryKind::Link,
        }
    }
    fn id(self) -> ObjectId {
        match self {
            Val::BlobI1 | Val::LinkI1 => ObjectId::from([0x11; 20]),
            Val::ExeI2 => ObjectId::from([0x22; 20]),
            Val::TreeEmpty => ObjectId::empty_tree(gix_hash::Kind::Sha1),
            Val::BlobNull => ObjectId::null(gix_hash::Kind::Sha1),
        }
    }
    fn mode(self) -> &'static str {
        match self {
            Val::BlobI1 | Val::BlobNull => "100644",
            Val::ExeI2 => "100755",
            Val::TreeEmpty => "40000",
            Val::LinkI1 => "120000",
        }
    }
}

#[derive(Serialize, Deserialize, Hash, Clone, Debug, PartialEq, Eq)]
enum Op {
    Upsert(String, Val),
    Remove(String),
    Write,
    SetRoot(u8),
    /// cursor_at(path) and nothing else
    Cursor(String),
    CursorUpsert(String, String, Val),
    CursorRemove(String, String),
    CursorWrite(String),
}

#[derive(Serialize, Deserialize, Hash, Clone, Debug)]
struct History {
    /// 0 = empty root, 1 = three-level tree T0, 2 = T1 = T0 + {a-b/y, ab/y}
    root: u8,
    ops: Vec<Op>,
}

// ------------------------------------------------------------------------------------------------ reference model
#[derive(Clone, Debug, PartialEq)]
enum Node {
    Leaf(Val),
    Dir(BTreeMap<Vec<u8>, Node>),
}
type Map = BTreeMap<Vec<u8>, Node>;

fn bstr(p: &str) -> Vec<&BStr> {
    p.split('/').map(|c| c.as_bytes().as_bstr()).collect()
}
fn comps(p: &str) -> Vec<&[u8]> {
    p.split('/').map(str::as_bytes).collect()
}

/// walk to the directory holding the last component, turning everything on the way into directories (`create`) or stopping
fn descend<'a>(mut cur: &'a mut Map, dirs: &[&[u8]], create: bool) -> Option<&'a mut Map> {
    for c in dirs {
        let slot = if create {
            cur.entry(c.to_vec()).or_insert_with(|| Node::Dir(Map::new()))
        } else {
            cur.get_mut(*c)?
        };
        match slot {
            Node::Dir(_) => {}
            // an explicit empty-tree entry is a directory without content: traversing it loads that (empty) content
            Node::Leaf(Val::TreeEmpty) => *slot = Node::Dir(Map::new()),
            Node::Leaf(_) if create => *slot = Node::Dir(Map::new()),
            Node::Leaf(_) => return None,
        }
        let Node::Dir(m) = slot else { unreachable!() };
        cur = m;
    }
    Some(cur)
}
/// readable form of a model state: `{a/: {b: BlobI1}, b: ExeI2}`
fn render(m: &Map) -> String {
    let items: Vec<String> = m
        .iter()
        .map(|(k, n)| match n {
            Node::Leaf(v) => format!("{}: {v:?}", k.as_bstr()),
            Node::Dir(d) => format!("{}/: {}", k.as_bstr(), render(d)),
        })
        .collect();
    format!("{{{}}}", items.join(", "))
}
fn m_upsert(root: &mut Map, path: &[&[u8]], v: Val) {
    let (last, dirs) = path.split_last().expect("non-empty path");
    let d = descend(root, dirs, true).expect("created");
    d.insert(last.to_vec(), Node::Leaf(v));
}
fn m_remove(root: &mut Map, path: &[&[u8]]) {
    let (last, dirs) = path.split_last().expect("non-empty path");
    if let Some(d) = descend(root, dirs, false) {
        d.remove(*last);
    }
}
/// cursor_at: the path "must be a tree or is turned into a tree"
fn m_assure_dir<'a>(root: &'a mut Map, path: &[&[u8]]) -> &'a mut Map {
    descend(root, path, true).expect("created")
}
/// what a write leaves behind: placeholders and empty directories are gone
fn m_prune(m: &mut Map) {
    m.retain(|_, n| match n {
        Node::Leaf(Val::BlobNull) => false,
        Node::Leaf(_) => true,
        Node::Dir(d) => {
            m_prune(d);
            !d.is_empty()
        }
    });
}

/// git's ordering rule (base_name_compare)
fn git_order(a: &(Vec<u8>, bool), b: &(Vec<u8>, bool)) -> std::cmp::Ordering {
    let mut x = a.0.clone();
    if a.1 {
        x.push(b'/');
    }
    let mut y = b.0.clone();
    if b.1 {
        y.push(b'/');
    }
    x.cmp(&y)
}

/// every directory the from-scratch builder ever produced: id -> `git mktree -z` input
type Dirs = RwLock<HashMap<ObjectId, Vec<u8>>>;

/// from-scratch bottom-up builder: id of the tree for this (already pruned or not) map; None = nothing to write (empty)
fn build(m: &Map, dirs: &Dirs, store: Option<&Store>) -> Option<ObjectId> {
    let mut entries: Vec<(Vec<u8>, bool, &'static str, ObjectId)> = Vec::new();
    for (name, n) in m {
        match n {
            Node::Leaf(Val::BlobNull) => {}
            Node::Leaf(v) => entries.push((name.clone(), v.kind() == EntryKind::Tree, v.mode(), v.id())),
            Node::Dir(d) => {
                if let Some(id) = build(d, dirs, store) {
                    entries.push((name.clone(), true, "40000", id));
                }
            }
        }
    }
    if entries.is_empty() {
        return None;
    }
    entries.sort_by(|a, b| git_order(&(a.0.clone(), a.1), &(b.0.clone(), b.1)));
    let mut bytes = Vec::new();
    let mut mk = Vec::new();
    for (name, is_tree, mode, id) in &entries {
        bytes.extend_from_slice(mode.as_bytes());
        bytes.push(b' ');
        bytes.extend_from_slice(name);
        bytes.push(0);
        bytes.extend_from_slice(id.as_bytes());
        mk.extend_from_slice(format!("{mode} {} {id}\t", if *is_tree { "tree" } else { "blob" }).as_bytes());
        mk.extend_from_slice(name);
        mk.push(0);
    }
    let id = gix_object::compute_hash(gix_hash::Kind::Sha1, gix_object::Kind::Tree, &bytes);
    // per-thread memo in front of the shared map: most directories repeat, and the shared lock is expensive on a busy machine
    thread_local! {
        static SEEN: RefCell<std::collections::HashSet<ObjectId>> = RefCell::new(Default::default());
    }
    if SEEN.with(|s| s.borrow_mut().insert(id)) {
        let known = dirs.read().map(|d| d.contains_key(&id)).unwrap_or(false);
        if !known {
            if let Ok(mut d) = dirs.write() {
                d.insert(id, mk);
            }
        }
    }
    if let Some(s) = store {
        s.0.borrow_mut().entry(id).or_insert(bytes);
    }
    Some(id)
}
fn build_root(m: &Map, dirs: &Dirs) -> ObjectId {
    build(m, dirs, None).unwrap_or_else(|| ObjectId::empty_tree(gix_hash::Kind::Sha1))
}

// ------------------------------------------------------------------------------------------------ object store for the editor
struct Store(RefCell<HashMap<ObjectId, Vec<u8>>>);
impl gix_object::Find for Store {
    fn try_find<'a>(&self, id: &gix_hash::oid, buffer: &'a mut Vec<u8>) -> Result<Option<gix_object::Data<'a>>, gix_object::find::Error> {
        match self.0.borrow().get(id) {
            Some(b) => {
                buffer.clear();
                buffer.extend_from_slice(b);
                Ok(Some(gix_object::Data { kind: gix_object::Kind::Tree, data: buffer }))
            }
            None => Ok(None),
        }
    }
}

fn t0_model() -> Map {
    let mut m = Map::new();
    m_upsert(&mut m, &comps("a/b/c"), Val::BlobI1);
    m_upsert(&mut m, &comps("a/b."), Val::ExeI2);
    m_upsert(&mut m, &comps("a0"), Val::ExeI2);
    m_upsert(&mut m, &comps("b"), Val::BlobI1);
    m
}

fn root_tree(which: u8, dirs: &Dirs, store: &Store) -> (Map, Tree) {
    if which == 0 {
        return (Map::new(), Tree::default());
    }
    let mut m = t0_model();
    if which == 2 {
        // T1: T0 plus sibling directories of `a` whose names start with "a"
        m_upsert(&mut m, &comps("a-b/y"), Val::BlobI1);
        m_upsert(&mut m, &comps("ab/y"), Val::ExeI2);
    }
    let id = build(&m, dirs, Some(store)).expect("T0 is not empty");
    let bytes = store.0.borrow().get(&id).cloned().expect("just stored");
    let t: Tree = gix_object::TreeRef::from_bytes(&bytes).unwrap_or_else(|e| vkit::machinery!("T0 does not decode: {e}")).into();
    (m, t)
}

/// `out` callback: validate the tree handed over, store it, return its id
fn out_fn<'s>(store: &'s Store, log: &'s RefCell<Vec<String>>) -> impl FnMut(&Tree) -> Result<ObjectId, std::convert::Infallible> + 's {
    move |t: &Tree| {
        let mut problems = Vec::new();
        for w in t.entries.windows(2) {
            let a = (w[0].filename.to_vec(), w[0].mode.is_tree());
            let b = (w[1].filename.to_vec(), w[1].mode.is_tree());
            if w[0].filename == w[1].filename {
                problems.push(format!("duplicate entry {:?}", w[0].filename));
            } else if git_order(&a, &b) != std::cmp::Ordering::Less {
                problems.push(format!("entries {:?} and {:?} are not in git order", w[0].filename, w[1].filename));
            }
        }
        for e in &t.entries {
            if e.oid.is_null() {
                problems.push(format!("null-id placeholder {:?} was handed to the writer", e.filename));
            }
            if e.filename.is_empty() || e.filename.contains(&b'/') {
                problems.push(format!("bad entry name {:?}", e.filename));
            }
        }
        let mut bytes = Vec::new();
        for e in &t.entries {
            let mut buf = Default::default();
            bytes.extend_from_slice(e.mode.as_bytes(&mut buf));
            bytes.push(b' ');
            bytes.extend_from_slice(&e.filename);
            bytes.push(0);
            bytes.extend_from_slice(e.oid.as_bytes());
        }
        let id = gix_object::compute_hash(gix_hash::Kind::Sha1, gix_object::Kind::Tree, &bytes);
        store.0.borrow_mut().insert(id, bytes);
        let mut l = log.borrow_mut();
        l.push(if t.entries.is_empty() { "<empty>".into() } else { String::new() });
        l.extend(problems.into_iter().map(|p| format!("!{p}")));
        Ok(id)
    }
}

/// after a write: every tree handed to `out` must be sorted, free of placeholders and non-empty (the last = (sub)root may be empty)
fn check_out_log(log: &RefCell<Vec<String>>) -> Result<usize, String> {
    let l = std::mem::take(&mut *log.borrow_mut());
    if let Some(p) = l.iter().find(|s| s.starts_with('!')) {
        return Err(format!("written-tree: {}", &p[1..]));
    }
    let calls: Vec<&String> = l.iter().filter(|s| !s.starts_with('!')).collect();
    if calls.iter().rev().skip(1).any(|s| s.as_str() == "<empty>") {
        return Err("written-tree: an empty tree other than the root was handed to the writer".into());
    }
    Ok(calls.len())
}

struct Stats {
    transitions: AtomicU64,
    validated: AtomicU64,
    states: Vec<std::sync::Mutex<std::collections::HashSet<u64>>>,
}
impl Stats {
    fn state(&self, h: u64) {
        thread_local! {
            static SEEN: RefCell<std::collections::HashSet<u64>> = RefCell::new(Default::default());
        }
        if !SEEN.with(|s| s.borrow_mut().insert(h)) {
            return;
        }
        if let Ok(mut s) = self.states[(h % self.states.len() as u64) as usize].lock() {
            s.insert(h);
        }
    }
}
fn peek<'a>(m: &'a Map, path: &[&[u8]]) -> Option<&'a Node> {
    let (first, rest) = path.split_first()?;
    let n = m.get(*first)?;
    if rest.is_empty() {
        return Some(n);
    }
    match n {
        Node::Dir(d) => peek(d, rest),
        Node::Leaf(_) => None,
    }
}

fn run_history(h: &History, dirs: &Dirs, st: &Stats) -> Result<&'static str, String> {
    let store = Store(RefCell::new(HashMap::new()));
    let log = RefCell::new(Vec::new());
    let (mut model, root) = root_tree(h.root, dirs, &store);
    let mut editor = tree::Editor::new(root, &store, gix_hash::Kind::Sha1);
    let mut type_change = false;
    let mut wrote_mid = false;
    let show = render;
    for (i, op) in h.ops.iter().chain(std::iter::once(&Op::Write)).enumerate() {
        let is_final = i == h.ops.len();
        st.transitions.fetch_add(1, Relaxed);
        let err = |e: tree::editor::Error| format!("op-error: step {i} {op:?} failed: {e}");
        match op {
            Op::Upsert(p, v) => {
                let c = comps(p);
                // type change bookkeeping (for outcome classes only)
                type_change |= matches!(peek(&model, &c), Some(Node::Dir(_))) && v.kind() != EntryKind::Tree
                    || (1..c.len()).any(|n| matches!(peek(&model, &c[..n]), Some(Node::Leaf(l)) if l.kind() != EntryKind::Tree));
                editor.upsert(bstr(p), v.kind(), v.id()).map_err(err)?;
                m_upsert(&mut model, &c, *v);
            }
            Op::Remove(p) => {
                editor.remove(bstr(p)).map_err(err)?;
                m_remove(&mut model, &comps(p));
            }
            Op::SetRoot(w) => {
                let (m, t) = root_tree(*w, dirs, &store);
                editor.set_root(t);
                model = m;
            }
            Op::Cursor(q) => {
                editor.cursor_at(bstr(q)).map_err(err)?;
                m_assure_dir(&mut model, &comps(q));
            }
            Op::CursorUpsert(q, r, v) => {
                let mut cur = editor.cursor_at(bstr(q)).map_err(err)?;
                cur.upsert(bstr(r), v.kind(), v.id()).map_err(err)?;
                let sub = m_assure_dir(&mut model, &comps(q));
                m_upsert(sub, &comps(r), *v);
            }
            Op::CursorRemove(q, r) => {
                let mut cur = editor.cursor_at(bstr(q)).map_err(err)?;
                cur.remove(bstr(r)).map_err(err)?;
                let sub = m_assure_dir(&mut model, &comps(q));
                m_remove(sub, &comps(r));
            }
            Op::CursorWrite(q) => {
                let mut cur = editor.cursor_at(bstr(q)).map_err(err)?;
                let got = cur.write(out_fn(&store, &log)).unwrap_or_else(|e| match e {});
                let sub = m_assure_dir(&mut model, &comps(q));
                m_prune(sub);
                let want = build_root(sub, dirs);
                check_out_log(&log)?;
                st.validated.fetch_add(1, Relaxed);
                if got != want {
                    return Err(format!("cursor-write: step {i} cursor_at({q:?}).write() = {got}, building {} from scratch gives {want}", show(sub)));
                }
                wrote_mid = true;
            }
            Op::Write => {
                let got = editor.write(out_fn(&store, &log)).unwrap_or_else(|e| match e {});
                m_prune(&mut model);
                let want = build_root(&model, dirs);
                check_out_log(&log)?;
                st.validated.fetch_add(1, Relaxed);
                st.state(vkit::hash_of(&want));
                if got != want {
                    return Err(format!(
                        "{}: step {i} write() = {got}, building {} from scratch gives {want}",
                        if is_final { "final-root" } else { "root" },
                        show(&model)
                    ));
                }
                if !is_final {
                    wrote_mid = true;
                }
            }
        }
    }
    Ok(match (model.is_empty(), type_change, wrote_mid) {
        (true, ..) => "final-tree-empty",
        (false, true, true) => "type-change+intermediate-write",
        (false, true, false) => "type-change",
        (false, false, true) => "intermediate-write",
        (false, false, false) => "plain-edits",
    })
}

/// level 0 = base alphabet (used for the depth-4 enumeration), 1 = quick (base + directories whose names have the cursor
/// directories' names as byte prefix: ab/, a-b/, a/b./), 2 = thorough (more names)
fn ops_alphabet(level: u8) -> Vec<Op> {
    let thorough = level == 2;
    let mut ops = Vec::new();
    let paths: &[&str] = match level {
        0 => &["a", "a/b", "a/b/c", "a.", "a0", "b"],
        1 => &["a", "a/b", "a/b/c", "a.", "a0", "b", "ab/x", "a-b/x", "a/b./x"],
        _ => &["a", "a/b", "a/b/c", "a.", "a0", "b", "a-", "a/b.", "ab/x", "a-b/x", "a/b./x", "a.d/x"],
    };
    let vals: &[Val] = &[Val::BlobI1, Val::ExeI2, Val::TreeEmpty, Val::BlobNull];
    for p in paths {
        for v in vals {
            ops.push(Op::Upsert(p.to_string(), *v));
        }
        ops.push(Op::Remove(p.to_string()));
    }
    if thorough {
        ops.push(Op::Upsert("a".into(), Val::LinkI1));
    }
    ops.push(Op::Write);
    ops.push(Op::SetRoot(0));
    ops.push(Op::SetRoot(1));
    for q in ["a", "a/b"] {
        ops.push(Op::Cursor(q.into()));
        for r in ["b", "b/c"] {
            ops.push(Op::CursorUpsert(q.into(), r.into(), Val::BlobI1));
            ops.push(Op::CursorRemove(q.into(), r.into()));
        }
        ops.push(Op::CursorUpsert(q.into(), "b".into(), Val::TreeEmpty));
        ops.push(Op::CursorWrite(q.into()));
    }
    ops
}

/// cursor operations at `a` and `a/b` interleaved with pending edits of the root editor in sibling directories whose names
/// start with the cursor directory's name (ab, a-b, a.d next to a; b., bc next to a/b)
fn sibling_alphabet() -> Vec<Op> {
    let s = |x: &str| x.to_string();
    vec![
        Op::Upsert(s("ab/x"), Val::BlobI1),
        Op::Upsert(s("a-b/x"), Val::ExeI2),
        Op::Upsert(s("a.d/x"), Val::BlobI1),
        Op::Upsert(s("a/b./x"), Val::BlobI1),
        Op::Upsert(s("a/bc/x"), Val::BlobI1),
        Op::Upsert(s("a/x"), Val::BlobI1),
        Op::Upsert(s("ab"), Val::BlobI1),
        Op::Remove(s("ab/x")),
        Op::Remove(s("a-b/y")),
        Op::CursorUpsert(s("a"), s("x"), Val::BlobI1),
        Op::CursorUpsert(s("a"), s("b/x"), Val::ExeI2),
        Op::CursorUpsert(s("a/b"), s("x"), Val::BlobI1),
        Op::CursorRemove(s("a"), s("b")),
        Op::CursorWrite(s("a")),
        Op::CursorWrite(s("a/b")),
        Op::Cursor(s("a")),
        Op::Write,
        Op::SetRoot(2),
    ]
}

pub fn run(run: &'static Run) {
    let thorough = !run.quick();
    let alphabet = ops_alphabet(if thorough { 2 } else { 1 });
    // quick: all histories of length <= 3 over the quick alphabet; thorough: length <= 3 over the larger alphabet and length 4 over the base one
    let quick_alpha = ops_alphabet(0);
    let quick_len = ops_alphabet(1).len();
    let siblings = sibling_alphabet();
    let sibling_depth = if thorough { 5 } else { 3 };
    run.rule(format!(
        "operations ({} quick / {} thorough): upsert(p, v) and remove(p) for p in {{a, a/b, a/b/c, a., a0, b, ab/x, a-b/x, a/b./x}} (thorough + a-, a/b., a.d/x) and v in {{blob i1, exe i2, tree = empty-tree id, blob with null id (placeholder)}} (thorough + link at a), \
         write, set_root(empty), set_root(T0), cursor_at(q) alone and followed by upsert(b | b/c, blob) / upsert(b, empty tree) / remove(b | b/c) / write for q in {{a, a/b}}; \
         initial roots: empty and T0 = {{a/b/c, a/b., a0, b}} (three levels, sort-sensitive names); every history of length 0..=3 (thorough: 0..=3 over the larger alphabet plus length 4 over the base alphabet without the x-paths) from both roots, no state merging; \
         sub `siblings`: every history of length 0..=3 (thorough 0..=5) over {} operations that interleave cursor upserts/removes/writes at a and a/b with pending root-editor edits in directories whose names have the cursor directory name as a byte prefix (ab/, a-b/, a.d/, a/b./, a/bc/), from the empty root, T0 and T1 = T0 + {{a-b/y, ab/y}} (length 5: T0 and T1 only); \
         each followed by a final write. Reference: nested-map model (insert replaces what it shadows, prefixes become directories, traversed empty-tree entries become plain directories, write drops placeholders and empty directories), \
         root/cursor ids from a from-scratch builder; every tree handed to the out callback must be in git order, without placeholders/duplicates and non-empty (except the (sub)root). \
         Every distinct directory the builder produced is rebuilt by `git mktree --batch` and the ids compared.",
        quick_len,
        alphabet.len(),
        siblings.len()
    ));
    run.assume("git 2.39.5 mktree validates the from-scratch builder (all distinct directories, one batch)");
    run.assume("null ids are only used with blobs (placeholder leaves); a tree entry with null id that is traversed before being written is not explored");
    run.budget_secs(run.pick(40.0, 600.0));

    let dirs: Dirs = RwLock::new(HashMap::new());
    let stats = Stats { transitions: AtomicU64::new(0), validated: AtomicU64::new(0), states: (0..64).map(|_| Default::default()).collect() };
    let eval = |h: &History| -> Verdict {
        match run_history(h, &dirs, &stats) {
            Ok(class) if h.ops.is_empty() => ok_trivial(class),
            Ok(class) => ok(class),
            Err(m) => {
                let (class, detail) = m.split_once(": ").unwrap_or(("failed", &m));
                bad(class, detail)
            }
        }
    };
    let max_depth = std::sync::atomic::AtomicUsize::new(0);
    run.sub(
        "history",
        |emit| {
            for depth in 0..=3usize {
                vkit::enumerate::seqs(&alphabet, depth, depth, |ops| {
                    for root in [0u8, 1] {
                        emit(History { root, ops: ops.to_vec() });
                    }
                });
                if !run.over_budget() {
                    max_depth.fetch_max(depth, std::sync::atomic::Ordering::Relaxed);
                }
            }
        },
        &eval,
    );
    run.sub(
        "siblings",
        |emit| {
            for depth in 0..=sibling_depth {
                vkit::enumerate::seqs(&siblings, depth, depth, |ops| {
                    // the longest histories start from the two non-empty roots only
                    for root in [0u8, 1, 2].into_iter().skip(usize::from(depth == 5)) {
                        emit(History { root, ops: ops.to_vec() });
                    }
                });
                if !run.over_budget() {
                    max_depth.fetch_max(depth, std::sync::atomic::Ordering::Relaxed);
                }
            }
        },
        &eval,
    );
    if thorough {
        run.sub_with(
            "history-depth4",
            vkit::Opts::default().chunk(1 << 16),
            |emit| {
                vkit::enumerate::seqs(&quick_alpha, 4, 4, |ops| {
                    for root in [0u8, 1] {
                        emit(History { root, ops: ops.to_vec() });
                    }
                });
                if !run.over_budget() {
                    max_depth.fetch_max(4, std::sync::atomic::Ordering::Relaxed);
                }
            },
            &eval,
        );
    }
    run.mc_transitions(stats.transitions.load(Relaxed));
    run.mc_validated(stats.validated.load(Relaxed));
    for shard in &stats.states {
        if let Ok(s) = shard.lock() {
            run.mc_states_bulk(s.iter().copied());
        }
    }
    run.cov("max_depth", max_depth.load(std::sync::atomic::Ordering::Relaxed));
    run.cov("operation_alphabet", alphabet.len());

    // ---- validate the from-scratch builder against git: every distinct directory, children before parents is not needed
    //      because child ids are part of the input (`--missing`)
    if !run.is_replay() {
        let d = dirs.read().unwrap_or_else(|_| vkit::machinery!("poisoned"));
        let repo = vkit::scratch::Dir::new("c04repo");
        vkit::git::init(repo.path());
        let mut input = Vec::new();
        let mut want = Vec::new();
        for (id, mk) in d.iter() {
            input.extend_from_slice(mk);
            input.push(0);
            want.push(*id);
        }
        let mut cmd = vkit::git::cmd(repo.path());
        cmd.env("MALLOC_TRIM_THRESHOLD_", "2000000000").env("MALLOC_MMAP_THRESHOLD_", "2000000000").args(["mktree", "-z", "--batch", "--missing"]);
        let out = vkit::git::run_cmd(cmd, Some(&input));
        if !out.ok {
            vkit::machinery!("git mktree --batch failed: {}", out.err_text());
        }
        let got: Vec<&[u8]> = out.stdout.lines().collect();
        if got.len() != want.len() {
            vkit::machinery!("git mktree printed {} ids for {} directories", got.len(), want.len());
        }
        let mut mismatches = 0;
        for (g, w) in got.iter().zip(&want) {
            if *g != w.to_string().as_bytes() {
                mismatches += 1;
                run.machinery_error(format!("from-scratch builder disagrees with git mktree: builder {w}, git {:?}", g.as_bstr()));
                if mismatches > 3 {
                    break;
                }
            }
        }
        run.cov("directories_validated_against_git_mktree", want.len());
        run.cov("oracle_calls_git", 1);
        run.require("the builder produced directories to validate", want.len() > 10);
    }
    run.require("histories with a file<->directory change were explored", run.outcome_count("type-change") > 0 && run.outcome_count("type-change+intermediate-write") > 0);
}
